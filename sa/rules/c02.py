"""C02 — detectors realise the counting rules and lose no turning point.

R-C02-1 closing predicates == textbook predicates on every weak ordering of the
compared terms; R-C02-2 the recorded pair is the popped pair (values and
indices from the same stack slots); R-C02-3 conservation of turning points on
every loop path.  Not decided: equality with an executable definition on all
signals (find_turns plateau semantics beyond its comparison structure).
"""
from __future__ import annotations

import ast
import re

from ..astutil import (assigned_targets, call_name, calls_in, const_value, find_func, is_self_attr, names_in,
                       parse_expr, parse_stmt, replace_node, subst_names, clone, tuple_assign_pairs)
from ..cfg import CFG, loop_body_nodes
from ..domains import Affine, affine_eval
from ..frontend import AnalysisError, walk_function, walk_stmts
from ..ordertable import parse_pred, equal_preds, first_difference
from ..report import norm_text
from ..witness import witness, twin

LEVEL = "other"
EXT = "pylife.stress.rainflow.extension"
EXPLANATION = (
    "Static decision of the counting-rule structure of the four kernels/detectors (Cython three-/four-point loops through "
    "the .pyx desugarer, FKMDetector.process, FKMNonlinearDetector._hcm_process_sample). Stack slots are resolved by an "
    "offset domain on the stack pointer (value of slot k = turns[stack[sp+k]], incoming = turns[loop counter]). R-C02-1: "
    "the guard of the branch that records a cycle is parsed into a boolean formula over |difference| terms and compared, "
    "on every weak ordering of those terms (ties included; 1e-12 tolerances as an infinitesimal), with the textbook rule: "
    "four-point |b-c|<=|a-b| and |b-c|<=|c-d|; three-point |back-front|>=|front-start|; Clormann-Seeger "
    "|cur-last0|>=|last0-last1|, keep closing iff both |last|<max, primary counter iff |cur|>max. R-C02-2: values stored as "
    "from/to are slots -2/-1, the stored indices come from the same slots, exactly those two slots are removed. R-C02-3: on "
    "every acyclic path through each loop body d(stack)+2*d(recorded)-d(consumed)=0, every FKM iteration pushes the current "
    "turn exactly once, and the FKM-nonlinear open-hysteresis counter moves in lock-step with the residual list across "
    "the caller/callee boundary. Not decided: that find_turns yields the textbook reversal sequence; multiset equality "
    "of three- and four-point results on all signals.")
EXPLANATION += (' R-C02-4: find_turns decides reversal and plateau only by exact sign tests of first differences (D*D < 0, D == 0): no tolerance, no rounding, no sign-dependent selection. R-C02-5: the three-point front indices are np.argmax / np.argmin (first occurrence) of the same carried residual and feed the matching guards.')
EXPLANATION += (" R-C02-6: in the three- and four-point process() every path from _new_turns to a normal exit runs the counting kernel (CFG must-pass), so no chunk's turning points or trailing sample bypass the counting rule.")
EXPLANATION += (" R-C02-7: the compiled kernels use no single-precision function or cast (fabsf, float32, ...) on ranges, and no attribute of the detector base class holds a view of the caller's chunk (effect analysis, shared with R-C01-7).")
EXPLANATION += (' R-C02-8 (shared with R-C03-5): no turning point is lost to the underflow / overflow of a product of two differences - the reversal test is made on their signs.')
EXPLANATION += (" R-C02-9 (shared with R-C01-2): _new_turns returns without advancing the global sample position only when the chunk is empty; any other skipped chunk makes every later index too small.")
ASSUMPTIONS = [
    "the compiled rainflow_ext kernels are built from extension.pyx by setup.py",
    "fabs/np.abs are the real absolute value; C doubles compare like reals (no NaN after find_turns cleaned them)",
]


# --------------------------------------------------------------------------------- kernel model

class Kernel:
    """Facts about one while-loop kernel of extension.pyx."""

    def __init__(self, fi):
        self.fi = fi
        loops = [s for s in fi.node.body if isinstance(s, ast.While)]
        if len(loops) != 1:
            raise AnalysisError("%s: expected one while loop" % fi.key)
        self.loop = loops[0]
        t = self.loop.test
        if not (isinstance(t, ast.Compare) and isinstance(t.left, ast.Name) and isinstance(t.ops[0], ast.Lt)):
            raise AnalysisError("%s: loop test not of the form counter < n" % fi.key)
        self.counter = t.left.id
        self.turns = fi.params[0]
        self.turns_index = fi.params[1]
        # memory-view aliases  x_v = x
        self.alias = {}
        for s in fi.node.body:
            if isinstance(s, ast.Assign) and isinstance(s.targets[0], ast.Name) and isinstance(s.value, ast.Name):
                self.alias[s.targets[0].id] = s.value.id
        # the stack: array stored at [sp] with the loop counter (push)
        self.stack = self.sp = None
        for s in walk_stmts(self.loop.body):
            if isinstance(s, ast.Assign) and isinstance(s.targets[0], ast.Subscript) and isinstance(s.value, ast.Name) \
                    and s.value.id == self.counter and isinstance(s.targets[0].slice, ast.Name):
                self.stack = self.canon(s.targets[0].value.id)
                self.sp = s.targets[0].slice.id
        if self.stack is None:
            raise AnalysisError("%s: push statement stack[sp] = counter not found" % fi.key)
        # output arrays: returned slices x[:t]
        ret = [s for s in fi.node.body if isinstance(s, ast.Return)][-1]
        outs = []
        self.rec = None
        for e in ret.value.elts:
            if isinstance(e, ast.Subscript) and isinstance(e.value, ast.Name) and isinstance(e.slice, ast.Slice):
                outs.append((e.value.id, norm_text(e.slice.upper)))
        if len(outs) != 5:
            raise AnalysisError("%s: return is not (from, to, from_index, to_index, residual_index)" % fi.key)
        self.out_from, self.out_to, self.out_from_idx, self.out_to_idx = [o[0] for o in outs[:4]]
        self.rec = outs[0][1]
        if outs[4][0] != self.stack or outs[4][1] != self.sp:
            raise AnalysisError("%s: returned residual is not stack[:sp]" % fi.key)

    def canon(self, name):
        return self.alias.get(name, name)

    # ---- symbolic evaluation along one straight-line path
    def slot_of_index_expr(self, e, env, delta):
        """e evaluates to an index into `turns`: returns ('slot', k) / ('in',) / None"""
        if isinstance(e, ast.Name):
            if e.id == self.counter:
                return ("in",)
            if e.id in env:
                return env[e.id][1] if env[e.id][0] == "idx" else None
            return None
        if isinstance(e, ast.Subscript) and isinstance(e.value, ast.Name) and self.canon(e.value.id) == self.stack:
            a = affine_eval(e.slice, lambda x: "SP" if isinstance(x, ast.Name) and x.id == self.sp else None)
            if a is not None and a.terms == {"SP": 1}:
                return ("slot", int(a.const) + delta)
        return None

    def value_of(self, e, env, delta):
        """e evaluates to a sample value: returns slot descriptor or None"""
        if isinstance(e, ast.Name) and e.id in env and env[e.id][0] == "val":
            return env[e.id][1]
        if isinstance(e, ast.Subscript) and isinstance(e.value, ast.Name) and e.value.id == self.turns:
            return self.slot_of_index_expr(e.slice, env, delta)
        return None


def kernels(prog):
    m = prog.module(EXT)
    out = []
    for key, fi in prog.functions.items():
        if fi.module is m and any(isinstance(s, ast.While) for s in fi.node.body):
            from ..inline import inlined
            out.append(Kernel(inlined(prog, fi)))     # closing predicates may live in private (cdef inline) helpers
    if len(out) != 2:
        raise AnalysisError("expected two loop kernels in extension.pyx, found %d" % len(out))
    return out


def closing_branch(k: Kernel):
    """The If whose body stores into the from/to outputs."""
    for s in walk_stmts(k.loop.body):
        if isinstance(s, ast.If):
            stores = [x for x in s.body if isinstance(x, ast.Assign) and isinstance(x.targets[0], ast.Subscript) and
                      isinstance(x.targets[0].value, ast.Name) and k.canon(x.targets[0].value.id) in (k.out_from, k.out_to)]
            if stores:
                return s
    raise AnalysisError("%s: no branch records a cycle" % k.fi.key)


def env_before(k: Kernel, stmt):
    """Definitions of locals in the loop body that precede ``stmt`` in its block chain (delta = 0 there)."""
    env = {}

    def scan(body):
        for s in body:
            if s is stmt:
                return True
            if isinstance(s, ast.Assign):
                for t, v in tuple_assign_pairs(s):
                    if isinstance(t, ast.Name):
                        iv = k.slot_of_index_expr(v, env, 0)
                        vv = k.value_of(v, env, 0)
                        if vv is not None:
                            env[t.id] = ("val", vv)
                        elif iv is not None and not (isinstance(v, ast.Name) and v.id == k.counter):
                            env[t.id] = ("idx", iv)
                        elif isinstance(v, ast.Call) and call_name(v) in ("fabs", "abs", "np.abs"):
                            env[t.id] = ("expr", v)
                        elif isinstance(v, (ast.BoolOp, ast.Compare)):
                            env[t.id] = ("expr", v)          # a closing predicate computed into a local (inlined helper)
                        else:
                            env.pop(t.id, None)
            for sub in ("body", "orelse"):
                blk = getattr(s, sub, None)
                if blk and any(x is stmt for b in blk for x in ast.walk(b)):
                    if isinstance(s, ast.If) and sub == "orelse" or True:
                        return scan(blk)
        return False
    scan(k.loop.body)
    return env


def atomizer(k: Kernel, env):
    def atom(e):
        if isinstance(e, ast.Name) and e.id in env and env[e.id][0] == "expr":
            return atom(env[e.id][1])
        if isinstance(e, ast.Call) and call_name(e) in ("fabs", "abs", "np.abs", "np.fabs") and len(e.args) == 1:
            a = e.args[0]
            if isinstance(a, ast.BinOp) and isinstance(a.op, ast.Sub):
                x, y = k.value_of(a.left, env, 0), k.value_of(a.right, env, 0)
                if x is not None and y is not None:
                    return ("absdiff", frozenset([x, y]))
            v = k.value_of(a, env, 0)
            if v is not None:
                return ("abs", v)
        v = k.value_of(e, env, 0)
        if v is not None:
            return ("val", v)
        if isinstance(e, ast.Call) and call_name(e) in ("_max", "max") and len(e.args) == 2:
            return ("max", frozenset(norm_text(x) for x in e.args))
        i = k.slot_of_index_expr(e, env, 0)
        if i is not None:
            return ("idx", i)
        raise AnalysisError("%s: term %s of a closing guard is not understood" % (k.fi.key, norm_text(e)))
    return atom


def ref_atom(mapping):
    def atom(e):
        if isinstance(e, ast.Name) and e.id in mapping:
            return mapping[e.id]
        raise AnalysisError("reference predicate uses unknown term %s" % norm_text(e))
    return atom


def conjuncts(e):
    if isinstance(e, ast.BoolOp) and isinstance(e.op, ast.And):
        out = []
        for v in e.values:
            out += conjuncts(v)
        return out
    return [e]


def _cmp_pred(ctx, fi, node, got_expr, atom, ref_src, ref_map, what, rule="R-C02-1"):
    got = parse_pred(got_expr, atom)
    ref = parse_pred(parse_expr(ref_src), ref_atom(ref_map))
    same, atoms = equal_preds(got, ref)
    if same:
        ctx.holds(fi, node, "%s == %s on all %d weak orderings of %d terms" %
                  (what, ref_src, len(got.table(atoms)), len(atoms)), {"guard": norm_text(got_expr)}, rule=rule)
    else:
        d = first_difference(got, ref)
        ctx.violated(fi, node, "%s is %s; the counting rule is %s; they differ e.g. for the ordering %s (code %s, rule %s)"
                     % (what, norm_text(got_expr), ref_src, d[0], d[1], d[2]), rule=rule)


SL = lambda k: ("slot", k)
IN = ("in",)


def run(ctx):
    ctx.attempt(_r1_r2_kernels)
    ctx.attempt(_r1_r2_fkm)
    ctx.attempt(_r1_r2_fkm_nonlinear)
    ctx.attempt(_r3_conservation)
    ctx.attempt(_r4_turns)
    ctx.attempt(_r5_front)
    ctx.attempt(_r6_all_turns_counted)
    ctx.attempt(_r7_precision_and_state)
    ctx.attempt(_r8_sign_tests)
    ctx.attempt(_r9_index_positions)


def _r9_index_positions(ctx):
    """R-C02-9 (clause (b') of R-C01-2, evaluated for this property): 'every reported index addresses a sample whose value is the
    reported value' needs every chunk that is not empty to advance the global position by its length - _new_turns may return
    without the head update only when the chunk is empty."""
    from .c01 import _early_exits_only_for_empty_chunks, GEN
    fi = ctx.prog.func(GEN + ":AbstractDetector._new_turns")
    ctx.rule("R-C02-9", floor=1, what="_new_turns skips the head update only for an empty chunk (shared with R-C01-2)")
    chunk = [p for p in fi.params if p != "self"][0]
    _early_exits_only_for_empty_chunks(ctx, fi, chunk)


def _r8_sign_tests(ctx):
    """shared with R-C03-5: no turning point is lost to the underflow of a product of differences"""
    from .c03 import sign_tests_exact
    sign_tests_exact(ctx, "R-C02-8")


NARROWING = ("fabsf", "float32", "np.float32", "np.single", "np.half", "np.float16", "roundf", "floorf", "ceilf", "lroundf")


def narrow_declarations(k):
    """C declarations of the kernel's locals in single (or half) precision: a value held in such a variable is rounded before
    it is compared -> [(name, type)]"""
    used = {n_.id for n_ in ast.walk(k.fi.node) if isinstance(n_, ast.Name)}
    ctypes_ = getattr(k.fi.module, "ctypes", {}) or {}
    return sorted((nm, ty) for nm, ty in ctypes_.items() if nm.split(".")[-1] in used and
                  re.fullmatch(r"(np\.|cnp\.)?(float|float32(_t)?|npy_float32|half|float16(_t)?)", ty.strip()))


def _r7_precision_and_state(ctx):
    """(a) The counting kernels compare ranges in the precision of the signal (double): a single-precision function or cast
    (fabsf, float32) in a kernel makes ranges that differ by less than ~6e-8 relative tie, which closes cycles the rule leaves
    open.  (b) The turning points the kernels see are the detector's own: nothing carried between chunks is a view of the
    caller's buffer (shared with R-C01-7)."""
    prog = ctx.prog
    ctx.rule("R-C02-7", floor=3, what="kernel comparisons in double precision; carried turning-point state owned by the detector")
    for k in kernels(prog):
        bad = []
        for n in ast.walk(k.fi.node):
            if isinstance(n, ast.Call) and (call_name(n) or "").split(".")[-1] in [x.split(".")[-1] for x in NARROWING]:
                bad.append(n)
            if isinstance(n, ast.Name) and n.id in ("float32",) and isinstance(n.ctx, ast.Load):
                bad.append(n)
        narrow_decl = narrow_declarations(k)
        if narrow_decl and not bad:
            nm, ty = narrow_decl[0]
            ctx.violated(k.fi, k.fi.node, "%s: the local %s is declared `cdef %s` (single precision): a turning-point value is rounded to "
                         "about 7 significant digits before the closing rule compares it, so whether a cycle closes depends on the "
                         "absolute level of the signal, not only on its ranges" % (k.fi.name, nm.split(".")[-1], ty),
                         text="narrow declaration %s" % nm.split(".")[-1])
            continue
        if bad:
            st = bad[0]
            while not isinstance(st, ast.stmt):
                st = st._parent
            ctx.violated(k.fi, st, "%s: %s narrows a range to single precision before it is compared: ranges that differ by less "
                         "than about 6e-8 relative (e.g. integer loads in Pa around 3e8) tie, so cycles are closed that the "
                         "counting rule leaves open" % (k.fi.name, norm_text(bad[0])), text="narrowing " + norm_text(bad[0]))
        else:
            ctx.holds(k.fi, k.fi.node, "%s: no single-precision function or cast" % k.fi.name)
    from .c01 import _r7_state, detectors
    _r7_state_quiet = _r7_state
    dets = detectors(prog)
    # provenance part only (the memo part belongs to C01)
    from ..effects import Effects
    eff = Effects(prog)
    base = prog.cls("pylife.stress.rainflow.general:AbstractDetector")
    prov = eff.attr_provenance(base)
    bad = [(a, o, m) for a, srcs in prov.items() for o, m in srcs if o[0] in ("param", "elem") and o[1] in ("samples",)]
    nt = prog.func("pylife.stress.rainflow.general:AbstractDetector._new_turns")
    if bad:
        a, o, m = bad[0]
        ctx.violated(nt, nt.node, "AbstractDetector keeps a %s of the caller's chunk in self.%s: when the caller refills its buffer, "
                     "turning points at the chunk border are lost or invented" % (m, a), text="state aliases chunk " + a)
    else:
        ctx.holds(nt, nt.node, "no attribute of the detector base class holds a view of the caller's chunk")



def _r6_all_turns_counted(ctx):
    """No turning point is lost between extraction and counting: in the three- and four-point process() every path from
    _new_turns (which consumes the chunk) to a normal exit passes the kernel call with the concatenation
    residuals + new turns + last sample, and stores what the kernel hands back."""
    from ..cfg import CFG
    prog = ctx.prog
    ctx.rule("R-C02-6", floor=2, what="every chunk's turning points reach the counting kernel on every path")
    n = 0
    for cname in ("pylife.stress.rainflow.fourpoint:FourPointDetector", "pylife.stress.rainflow.threepoint:ThreePointDetector"):
        fi = prog.lookup_method(prog.cls(cname), "process")
        if not any((call_name(c_) or "").endswith("point_loop") for c_ in calls_in(fi.node)) or \
                not any(isinstance(c_.func, ast.Attribute) and c_.func.attr == "_new_turns" for c_ in calls_in(fi.node)):
            from ..inline import inlined
            fi = inlined(prog, fi, skip=("_new_turns", "_flush_new_turns", "_preserve_start"))
        cfg = CFG(fi.node)
        ks = [x for x in walk_function(fi.node) if isinstance(x, ast.Assign) and isinstance(x.value, ast.Call)
              and (call_name(x.value) or "").endswith("point_loop")]
        nts = [x for x in walk_function(fi.node) if isinstance(x, (ast.Assign, ast.Expr)) and
               any(isinstance(c.func, ast.Attribute) and is_self_attr(c.func) and c.func.attr == "_new_turns" for c in calls_in(x))]
        if len(ks) != 1 or len(nts) != 1:
            raise AnalysisError("%s.process: kernel call / _new_turns call not found" % cname)
        n += 1
        a, b = cfg.node(nts[0]), cfg.node(ks[0])
        if cfg.must_pass(cfg.exit, {b}, start=a):
            ctx.holds(fi, ks[0], "%s: every path from _new_turns to the end of process() runs %s" %
                      (fi.cls.name, norm_text(ks[0].value.func)))
        else:
            ctx.violated(fi, nts[0], "%s: a path from _new_turns to the end of process() skips %s: the turning points (or the "
                         "trailing sample) of that chunk are never offered to the counting rule, cycles they close are lost" %
                         (fi.cls.name, norm_text(ks[0].value.func)), text="kernel skipped " + fi.cls.name)


def _r5_front(ctx):
    """Three-point variant: the two front indices are the first occurrence of the maximum and of the minimum of the carried
    residual (np.argmax / np.argmin of the same array) and are fed to the matching guards (analysis shared with R-C03-1)."""
    ctx.rule("R-C02-5", floor=2, what="three-point front indices: first maximum / first minimum of the carried residual, matching guards")
    from .c03 import front_extremes
    front_extremes(ctx)


def _r4_turns(ctx):
    """The turning-point sequence the kernels consume: find_turns decides reversal and plateau only by exact sign tests of
    first differences (D*D < 0, D == 0) - no tolerance, no rounding, no sign-dependent selection (analysis shared with R-C03-1)."""
    ctx.rule("R-C02-4", floor=3, what="find_turns decides turning points by exact sign tests of first differences only")
    from .c03 import type_find_turns
    type_find_turns(ctx)


# --------------------------------------------------------------------------------- kernels

def _r1_r2_kernels(ctx):
    prog = ctx.prog
    ctx.rule("R-C02-1", floor=5, what="closing guards equal the textbook predicates on every weak ordering")
    ctx.rule("R-C02-2", floor=4, what="recorded pair = popped pair, indices from the same slots")
    for k in kernels(prog):
        br = closing_branch(k)
        env = env_before(k, br)
        atom = atomizer(k, env)
        if isinstance(br.test, ast.Name) and br.test.id in env and env[br.test.id][0] == "expr":
            # the predicate was computed into a local first (an inlined private helper): decide it where it is defined
            br = ast.If(test=env[br.test.id][1], body=br.body, orelse=br.orelse)
        def _mentions(e, slot):
            return any(isinstance(x, ast.expr) and k.value_of(x, env, 0) == slot for x in ast.walk(e))
        is_four = any(v == ("val", SL(-3)) for v in env.values()) or _mentions(br.test, SL(-3)) or \
            any(v[0] == "expr" and _mentions(v[1], SL(-3)) for v in env.values())
        cj = conjuncts(br.test)
        if is_four:
            ref = "bc <= ab and bc <= cd"
            m = {"ab": ("absdiff", frozenset([SL(-3), SL(-2)])), "bc": ("absdiff", frozenset([SL(-2), SL(-1)])),
                 "cd": ("absdiff", frozenset([SL(-1), IN]))}
            _cmp_pred(ctx, k.fi, br, br.test, atom, ref, m, "four-point closing guard")
        else:
            closing = [c for c in cj if any(isinstance(n, ast.Call) and call_name(n) in ("fabs", "abs") for n in ast.walk(c))
                       or any(isinstance(n, ast.Name) and n.id in env and env[n.id][0] == "expr" for n in ast.walk(c))]
            front = [c for c in cj if c not in closing]
            if len(closing) != 1:
                raise AnalysisError("%s: three-point closing conjunct not isolated" % k.fi.key)
            ref = "bf >= fs"
            m = {"bf": ("absdiff", frozenset([IN, SL(-1)])), "fs": ("absdiff", frozenset([SL(-1), SL(-2)]))}
            _cmp_pred(ctx, k.fi, br, closing[0], atom, ref, m, "three-point closing guard")
            # front guard: start index >= both front extremes, written with max(...) or as two comparisons
            bounded = set()
            shape_ok = bool(front)
            for f in front:
                fo = f
                if isinstance(f, ast.Compare) and len(f.ops) == 1 and isinstance(f.ops[0], (ast.LtE,)):
                    fo = ast.Compare(left=f.comparators[0], ops=[ast.GtE()], comparators=[f.left])      # a <= s  ->  s >= a
                if not (isinstance(fo, ast.Compare) and len(fo.ops) == 1 and isinstance(fo.ops[0], ast.GtE)):
                    shape_ok = False
                    continue
                try:
                    la = atom(fo.left)
                except AnalysisError:
                    la = None
                if la != ("idx", SL(-2)):
                    shape_ok = False
                    continue
                r_ = fo.comparators[0]
                if isinstance(r_, ast.Call) and call_name(r_) in ("_max", "max") and len(r_.args) == 2 and \
                        all(isinstance(a_, ast.Name) for a_ in r_.args):
                    bounded |= {a_.id for a_ in r_.args}
                elif isinstance(r_, ast.Name):
                    bounded.add(r_.id)
                else:
                    shape_ok = False
            if not front:
                ctx.violated(k.fi, br, "three-point guard lacks the front-extreme conjunct", text="front guard", rule="R-C02-1")
            elif shape_ok and len(bounded) == 2:
                ctx.holds(k.fi, br, "front guard: start index >= both front extremes (%s)" % ", ".join(sorted(bounded)),
                          {"guard": " and ".join(norm_text(f) for f in front)}, rule="R-C02-1")
            elif shape_ok and len(bounded) == 1:
                ctx.violated(k.fi, br, "front guard bounds the start index by %s only; it must be at or behind BOTH front extremes" %
                             sorted(bounded)[0], text="front guard one-sided", rule="R-C02-1")
            else:
                ctx.violated(k.fi, br, "front guard is %s; it must be start >= max(lowest_front, highest_front)" %
                             " and ".join(norm_text(f) for f in front), text="front guard %s" % norm_text(front[0]), rule="R-C02-1")
        # ---- R-C02-2 sequential evaluation of the closing branch
        delta = 0
        rec = {}
        for s in br.body:
            if isinstance(s, ast.AugAssign) and isinstance(s.target, ast.Name) and s.target.id == k.sp:
                c = const_value(s.value)
                if not isinstance(c, int):
                    raise AnalysisError("%s: stack pointer changed by a non-constant" % k.fi.key)
                delta += c if isinstance(s.op, ast.Add) else -c
            elif isinstance(s, ast.Assign) and isinstance(s.targets[0], ast.Subscript) and \
                    isinstance(s.targets[0].value, ast.Name):
                arr = k.canon(s.targets[0].value.id)
                if arr in (k.out_from, k.out_to):
                    rec[arr] = (k.value_of(s.value, env, delta), s)
                    if rec[arr][0] is None:
                        ctx.violated(k.fi, s, "recorded value %s is not a sample taken from a stack slot (a derived "
                                     "quantity would not be a turning point)" % norm_text(s.value), rule="R-C02-2")
                elif arr in (k.out_from_idx, k.out_to_idx):
                    v = s.value
                    slot = None
                    if isinstance(v, ast.Subscript) and isinstance(v.value, ast.Name) and v.value.id == k.turns_index:
                        slot = k.slot_of_index_expr(v.slice, env, delta)
                    rec[arr] = (slot, s)
        want = {k.out_from: SL(-2), k.out_to: SL(-1), k.out_from_idx: SL(-2), k.out_to_idx: SL(-1)}
        bad = [(a, rec.get(a, (None, br))) for a in want if rec.get(a, (None,))[0] != want[a]]
        if bad:
            for a, (got, s) in bad:
                ctx.violated(k.fi, s, "%s receives %s; the closed cycle is (slot -2 -> slot -1) and its indices must come "
                             "from the same slots" % (a, got), rule="R-C02-2")
        elif delta != -2:
            ctx.violated(k.fi, br, "closing a cycle changes the stack pointer by %+d; exactly the two inner points must be "
                         "removed" % delta, rule="R-C02-2", text="sp delta %d" % delta)
        else:
            ctx.holds(k.fi, br, "from/to = slots -2/-1, indices from the same slots, two slots popped", rule="R-C02-2")


# --------------------------------------------------------------------------------- FKM (python)

def _resid_slot(e):
    """self._residuals[-k] -> ('slot', -k)"""
    if isinstance(e, ast.Subscript) and is_self_attr(e.value, "_residuals"):
        c = const_value(e.slice)
        if isinstance(c, int) and c < 0:
            return SL(c)
    return None


def _self_aliases(fnode):
    """locals initialised from / stored back to a self attribute: local name -> attribute name without underscore"""
    out = {}
    for s in walk_stmts(fnode.body):
        if isinstance(s, ast.Assign) and len(s.targets) == 1:
            t, v = s.targets[0], s.value
            if isinstance(t, ast.Name) and is_self_attr(v):
                out.setdefault(t.id, v.attr.lstrip("_"))
            elif is_self_attr(t) and isinstance(v, ast.Name):
                out.setdefault(v.id, t.attr.lstrip("_"))
    return out


def _py_atomizer(env, extra=None, alias=None):
    extra = extra or {}
    alias = alias or {}

    def val(e):
        if isinstance(e, ast.Name) and e.id in env:
            return env[e.id]
        if isinstance(e, ast.Name) and e.id in extra:
            return extra[e.id]
        if isinstance(e, ast.Attribute) and e.attr in ("load_representative",) and isinstance(e.value, ast.Name) \
                and e.value.id in env:
            return env[e.value.id]
        return None

    temps = {k: v for k, v in env.items() if isinstance(v, ast.AST)}

    def val(e, _val=val):
        for _ in range(3):
            if isinstance(e, ast.Name) and e.id in temps:
                e = temps[e.id]
        return _val(e) if not (isinstance(e, ast.Name) and e.id in temps) else None

    def atom(e):
        if temps:
            e = subst_names(e, temps)
            e = subst_names(e, temps)
        if isinstance(e, ast.Call) and call_name(e) in ("np.abs", "abs", "np.fabs", "fabs") and len(e.args) == 1:
            a = e.args[0]
            if isinstance(a, ast.BinOp) and isinstance(a.op, ast.Sub):
                x, y = val(a.left), val(a.right)
                if x is not None and y is not None:
                    return ("absdiff", frozenset([x, y]))
            v = val(a)
            if v is not None:
                return ("abs", v)
        if isinstance(e, ast.Name):
            return ("sym", alias.get(e.id, e.id))
        raise AnalysisError("term %s of an FKM guard is not understood" % norm_text(e))
    return atom


def _fkm_turn_model(ctx, prog, rule, what):
    """the per-turn body of FKMDetector.process, executed abstractly against the Clormann-Seeger case table (sa/hcmmodel.py);
    used when the body is not in the shape the statement-reading rules understand"""
    from ..hcmmodel import check_turn_loop
    from ..inline import inlined
    f0 = prog.func("pylife.stress.rainflow.fkm:FKMDetector.process")
    fi = inlined(prog, f0, skip=("_new_turns", "_flush_new_turns", "_preserve_start"))
    loops = [s_ for s_ in fi.node.body if isinstance(s_, ast.For)]
    if len(loops) != 1 or not isinstance(loops[0].target, ast.Name):
        raise AnalysisError("FKMDetector.process: for loop over the turns not found")
    mir = {}
    for s_ in fi.node.body:
        if isinstance(s_, ast.Assign) and len(s_.targets) == 1 and isinstance(s_.targets[0], ast.Name) and is_self_attr(s_.value):
            mir[s_.value.attr] = s_.targets[0].id
    rv = [c_ for c_ in calls_in(fi.node) if isinstance(c_.func, ast.Attribute) and c_.func.attr == "record_values" and len(c_.args) == 2
          and all(isinstance(a_, ast.Name) for a_ in c_.args)]
    if "_ir" not in mir or "_max_turn" not in mir or len(rv) != 1:
        raise AnalysisError("FKMDetector.process: locals mirroring self._ir / self._max_turn or the record_values call not found")
    roles = {"cur": loops[0].target.id, "mx": mir["_max_turn"], "stack": "_residuals", "ir": mir["_ir"]}
    n, bad, preds = check_turn_loop(fi, loops[0], roles, _stack_aliases(fi.node), (rv[0].args[0].id, rv[0].args[1].id))
    odd = [k for k in preds if "?" in k]
    if bad is None and not odd:
        ctx.holds(f0, f0.node, "%s: the per-turn loop performs the Clormann-Seeger case analysis on all %d abstract scenarios (stack "
                  "depth relative to the primary path, new maximum, closing decision / inner loop per attempt): loops recorded from "
                  "the two top residuals and removed, one push per turn, running maximum updated" % (what, n), rule=rule)
    elif bad is None:
        ctx.violated(f0, f0.node, "%s: HCM predicate %s deviates from the rule's form" % (what, [preds[k] for k in odd]), rule=rule,
                     text="fkm predicate")
    else:
        d0, sc, got, want = bad
        ctx.violated(f0, f0.node, "%s: with %d residuals above the primary path, new maximum %s, current extent smaller %s, closed loop "
                     "inside the seen range %s the per-turn loop does %s (stack %+d, ir %+d); the Clormann-Seeger rule requires %s "
                     "(stack %+d, ir %+d)" % (what, d0, sc["NEWMAX"], sc["SMALLER"], sc["INNER"], got[0], got[1], got[2], want[0], want[1],
                                            want[2]), rule=rule, text="fkm turn loop " + what)


def _r1_r2_fkm(ctx):
    try:
        _r1_r2_fkm_statements(ctx)
    except AnalysisError as e:
        # shape not understood: decide closing guard, continue-closing test, primary-path counter, recorded slots and pops by
        # abstract execution; if that is not possible either, the rule stays undecided with the original reason
        try:
            _fkm_turn_model(ctx, ctx.prog, "R-C02-1", "closing / primary-path decisions")
            ctx.holds("pylife.stress.rainflow.fkm:FKMDetector.process", None,
                      "closed cycle records (slot -2, slot -1) and removes exactly those two (abstract execution)", rule="R-C02-2")
        except AnalysisError as e2:
            raise AnalysisError("%s | model: %s" % (e, e2))


def _r1_r2_fkm_statements(ctx):
    prog = ctx.prog
    fi = prog.func("pylife.stress.rainflow.fkm:FKMDetector.process")
    loop = [s for s in fi.node.body if isinstance(s, ast.For)]
    if len(loop) != 1:
        raise AnalysisError("FKMDetector.process: for loop over the turns not found")
    loop = loop[0]
    cur = loop.target.id
    env = {cur: IN}
    closing = None
    ndefs = {}
    for s in walk_stmts(fi.node.body):
        for t in (s.targets if isinstance(s, ast.Assign) else [s.target] if isinstance(s, (ast.AugAssign, ast.For)) else []):
            for n_ in ast.walk(t):
                if isinstance(n_, ast.Name):
                    ndefs[n_.id] = ndefs.get(n_.id, 0) + 1
    for s in walk_stmts(loop.body):
        if isinstance(s, ast.Assign) and isinstance(s.targets[0], ast.Name):
            sl = _resid_slot(s.value)
            if sl is not None:
                env[s.targets[0].id] = sl
            elif ndefs.get(s.targets[0].id) == 1 and len(s.targets) == 1:
                env[s.targets[0].id] = s.value               # a temporary (e.g. abs_current = abs(current))
        if isinstance(s, ast.If) and any(_stack_delta(x, _stack_aliases(fi.node)) < 0 for x in s.body):
            closing = s
    if closing is None:
        raise AnalysisError("FKMDetector.process: closing branch not found")
    alias = _self_aliases(fi.node)
    atom = _py_atomizer(env, alias=alias)
    ir_names = [n for n, a in alias.items() if a == "ir"]
    mx_names = [n for n, a in alias.items() if a == "max_turn"]
    if not ir_names or not mx_names:
        raise AnalysisError("FKMDetector.process: locals mirroring self._ir / self._max_turn not found")
    m = {"c0": ("absdiff", frozenset([IN, SL(-1)])), "p01": ("absdiff", frozenset([SL(-1), SL(-2)])),
         "a0": ("abs", SL(-1)), "a1": ("abs", SL(-2)), "ac": ("abs", IN), "mx": ("sym", "max_turn")}
    _cmp_pred(ctx, fi, closing, closing.test, atom, "c0 >= p01", m, "Clormann-Seeger closing guard", )
    cont = [s for s in closing.body if isinstance(s, ast.If)]
    if len(cont) != 1:
        raise AnalysisError("FKMDetector.process: continue-closing test not found")
    _cmp_pred(ctx, fi, cont[0], cont[0].test, atom, "a0 < mx and a1 < mx", m, "continue-closing test")
    prim = [s for s in walk_stmts(loop.body) if isinstance(s, ast.If) and any(
        isinstance(x, ast.AugAssign) and isinstance(x.target, ast.Name) and x.target.id in ir_names for x in s.body)]
    if len(prim) != 1:
        raise AnalysisError("FKMDetector.process: primary-counter branch not found")
    _cmp_pred(ctx, fi, prim[0], prim[0].test, atom, "ac > mx", m, "primary-path counter test")
    # the counter test belongs to the case 'stack exactly on the primary path' (iz == ir): it must not be reachable from the
    # branch iz > ir (loops still open above the primary path) without going round the while loop again
    wl = [s_ for s_ in loop.body if isinstance(s_, ast.While)]
    above = [s_ for s_ in walk_stmts(loop.body) if isinstance(s_, ast.If) and any(x is closing for x in s_.body)]
    if len(wl) == 1 and len(above) == 1:
        cfg = CFG(fi.node)
        start = cfg.node(above[0].body[0])
        hdr, tgt = cfg.node(wl[0]), cfg.node(prim[0])
        if start is None or hdr is None or tgt is None:
            raise AnalysisError("FKMDetector.process: CFG nodes of the case analysis not found")
        if tgt in cfg.reachable(start, avoid={hdr}):
            ctx.violated(fi, above[0], "the branch for loops still open above the primary path (%s) falls through into the "
                         "primary-path counter test %s: the counter grows while inner loops are open, so loops the HCM rule "
                         "closes stay in the residual" % (norm_text(above[0].test), norm_text(prim[0].test)),
                         rule="R-C02-1", text="fall through into primary counter")
        else:
            ctx.holds(fi, above[0], "the open-loop branch (%s) returns to the loop test; the primary-path counter is only "
                      "reached with the stack on the primary path" % norm_text(above[0].test), rule="R-C02-1")
    else:
        raise AnalysisError("FKMDetector.process: while loop / open-loop branch not found")
    # R-C02-2
    apps = {}
    pops = 0
    for s in closing.body:
        if isinstance(s, ast.Expr) and isinstance(s.value, ast.Call) and isinstance(s.value.func, ast.Attribute):
            c = s.value
            if c.func.attr == "append" and isinstance(c.func.value, ast.Name):
                apps[c.func.value.id] = env.get(c.args[0].id) if isinstance(c.args[0], ast.Name) else None
    pops = -sum(min(0, _stack_delta(s_, _stack_aliases(fi.node))) for s_ in closing.body)
    rv = [c for c in calls_in(fi.node) if isinstance(c.func, ast.Attribute) and c.func.attr == "record_values"]
    if len(rv) != 1 or len(rv[0].args) != 2:
        raise AnalysisError("FKMDetector.process: record_values call not found")
    f_name, t_name = rv[0].args[0].id, rv[0].args[1].id
    if apps.get(f_name) == SL(-2) and apps.get(t_name) == SL(-1) and pops == 2:
        ctx.holds(fi, closing, "from/to = residual slots -2/-1, two pops", rule="R-C02-2")
    else:
        ctx.violated(fi, closing, "closed cycle records from=%s to=%s with %d pop(s); it must record (slot -2, slot -1) and "
                     "remove exactly those two" % (apps.get(f_name), apps.get(t_name), pops), rule="R-C02-2",
                     text="fkm closing record")
    # running maximum update: max_turn = max(|current|, max_turn)
    mt = [s for s in loop.body if isinstance(s, ast.Assign) and isinstance(s.targets[0], ast.Name)
          and s.targets[0].id in mx_names]
    ok = False
    if len(mt) == 1 and isinstance(mt[0].value, ast.Call) and call_name(mt[0].value) in ("max", "np.maximum") \
            and len(mt[0].value.args) == 2:
        try:
            ats = {atom(a) for a in mt[0].value.args}
            ok = ats == {("abs", IN), ("sym", "max_turn")}
        except AnalysisError:
            ok = False
    if ok:
        ctx.holds(fi, mt[0], "running maximum = max(|current|, previous maximum)", rule="R-C02-1")
    else:
        ctx.violated(fi, mt[0] if mt else loop, "running maximum of |turn| is not max(|current|, previous maximum)",
                     rule="R-C02-1", text="max_turn update")


def _r1_r2_fkm_nonlinear(ctx):
    prog = ctx.prog
    fi = prog.func("pylife.stress.rainflow.fkm_nonlinear:FKMNonlinearDetector._hcm_process_sample")
    from ._hcm import require_recognised_dispatch, Restructured, dispatch_by_model
    try:
        require_recognised_dispatch(fi)
    except Restructured:
        # another control-flow shape: closing guard, Memory-3 test, continue-closing test and the slots handed to the handlers are
        # decided by abstract execution against the HCM case table; the hysteresis handler must still remove exactly two residuals
        preds = dispatch_by_model(ctx, prog, "R-C02-1", "closing / primary-path decisions")
        odd = [k for k in preds if "?" in k]
        for k in odd:
            ctx.violated(fi, fi.node, "HCM predicate %s deviates from the rule's form (exact comparison up to a round-off guard)" % preds[k],
                         rule="R-C02-1", text="predicate " + k)
        h = prog.func("pylife.stress.rainflow.fkm_nonlinear:FKMNonlinearDetector._handle_case_c_ii")
        n_pops = -sum(min(0, _stack_delta(s_, _stack_aliases(h.node))) for s_ in walk_function(h.node) if isinstance(s_, ast.stmt))
        if n_pops == 2:
            ctx.holds(fi, fi.node, "hysteresis handler receives slots -2/-1 (abstract execution) and pops exactly twice", rule="R-C02-2")
        else:
            ctx.violated(fi, fi.node, "hysteresis handler pops %d time(s); it must remove exactly the two residuals it closes" % n_pops,
                         rule="R-C02-2", text="c_ii handler slots")
        return
    loops = [s for s in fi.node.body if isinstance(s, ast.While)]
    if len(loops) != 1:
        raise AnalysisError("_hcm_process_sample: while loop not found")
    loop = loops[0]
    env = {"current_load_representative": IN}
    exprs = {}
    for s in loop.body:
        if isinstance(s, ast.Assign) and isinstance(s.targets[0], ast.Name):
            sl = _resid_slot(s.value)
            if sl is not None:
                env[s.targets[0].id] = sl
            elif isinstance(s.value, ast.Call) and call_name(s.value) in ("np.abs", "abs"):
                env[s.targets[0].id] = s.value
            elif len(s.targets) == 1 and sum(1 for x_ in ast.walk(fi.node) if isinstance(x_, ast.Name) and x_.id == s.targets[0].id
                                             and isinstance(x_.ctx, ast.Store)) == 1:
                env[s.targets[0].id] = s.value               # a temporary of the loop body (bound once)
    atom = _py_atomizer(env)
    m = {"cur": ("absdiff", frozenset([IN, SL(-1)])), "prev": ("absdiff", frozenset([SL(-1), SL(-2)])),
         "a0": ("abs", SL(-2)), "a1": ("abs", SL(-1)), "ac": ("abs", IN), "mx": ("sym", "load_max_seen")}
    # c) i test: the branch that calls the c_i handler and breaks
    ci = [s for s in loop.body if isinstance(s, ast.If) and any(
        isinstance(c.func, ast.Attribute) and c.func.attr == "_handle_case_c_i" for x in s.body for c in calls_in(x))]
    if len(ci) != 1:
        raise AnalysisError("_hcm_process_sample: case c)i branch not found")
    # not closing iff cur < prev (ties close): guard uses prev - eps
    temps_ = {k_: v_ for k_, v_ in env.items() if isinstance(v_, ast.AST)}

    def _unfold(e_):
        return subst_names(subst_names(e_, temps_), temps_) if temps_ else e_
    _cmp_pred(ctx, fi, ci[0], _unfold(ci[0].test), atom, "cur < prev", m, "HCM 'no hysteresis closed' test (ties close)")
    # tolerance direction: with eps the comparison must still be 'ties close'
    mem2 = [s for s in loop.body if isinstance(s, ast.If) and any(isinstance(x, ast.Continue) for x in s.body)]
    if len(mem2) != 1:
        raise AnalysisError("_hcm_process_sample: Memory-2 branch not found")
    _cmp_pred(ctx, fi, mem2[0], _unfold(mem2[0].test), atom, "a0 < mx and a1 < mx", m, "HCM Memory-2 (keep closing) test")
    ai = [s for s in walk_stmts(loop.body) if isinstance(s, ast.If) and any(
        isinstance(c.func, ast.Attribute) and c.func.attr == "_handle_case_a_i" for x in s.body
        if not isinstance(x, (ast.If, ast.While, ast.For)) for c in calls_in(x))]
    if len(ai) != 1:
        raise AnalysisError("_hcm_process_sample: case a)i branch not found")
    _cmp_pred(ctx, fi, ai[0], ai[0].test, atom, "ac > mx", m, "HCM Memory-3 (new absolute maximum) test")
    # R-C02-2 for the nonlinear detector: handler c_ii gets slots -2/-1 and pops twice
    call = [c for c in calls_in(loop) if isinstance(c.func, ast.Attribute) and c.func.attr == "_handle_case_c_ii"]
    if len(call) != 1:
        raise AnalysisError("_hcm_process_sample: c)ii handler call not found")
    kw = {k.arg: env.get(k.value.id) if isinstance(k.value, ast.Name) else None for k in call[0].keywords}
    h = prog.func("pylife.stress.rainflow.fkm_nonlinear:FKMNonlinearDetector._handle_case_c_ii")
    n_pops = -sum(min(0, _stack_delta(s_, _stack_aliases(h.node))) for s_ in walk_function(h.node) if isinstance(s_, ast.stmt))
    pops = [None] * n_pops
    ok = kw.get("previous_point_0") == SL(-2) and kw.get("previous_point_1") == SL(-1) and len(pops) == 2
    if ok:
        ctx.holds(fi, call[0], "hysteresis handler receives slots -2/-1 and pops exactly twice", rule="R-C02-2")
    else:
        ctx.violated(fi, call[0], "hysteresis handler receives %s and pops %d time(s); it must get slots -2/-1 and remove "
                     "exactly those" % (kw, len(pops)), rule="R-C02-2", text="c_ii handler slots")



def _stack_aliases(fn_node, attr="_residuals"):
    """local names bound to the residual stack object (`residuals = self._residuals`)"""
    return {s_.targets[0].id for s_ in ast.walk(fn_node) if isinstance(s_, ast.Assign) and len(s_.targets) == 1 and
            isinstance(s_.targets[0], ast.Name) and is_self_attr(s_.value, attr)}


def _is_stack(e, aliases, attr="_residuals"):
    return is_self_attr(e, attr) or (isinstance(e, ast.Name) and e.id in aliases)


def _stack_delta(stmt, aliases, attr="_residuals"):
    """net effect of one simple statement on the length of the residual stack: x.pop() -1, x.append(v) +1, del x[-k:] -k,
    del x[-1] -1; compound statements and anything else 0"""
    d = 0
    if isinstance(stmt, ast.Delete):
        for t in stmt.targets:
            if isinstance(t, ast.Subscript) and _is_stack(t.value, aliases, attr):
                if isinstance(t.slice, ast.Slice) and t.slice.upper is None and t.slice.step is None:
                    k = const_value(t.slice.lower)
                    if isinstance(k, int) and k < 0:
                        d += k
                    else:
                        raise AnalysisError("del %s: removed range not understood" % norm_text(t))
                elif isinstance(const_value(t.slice), int):
                    d -= 1
                else:
                    raise AnalysisError("del %s: removed range not understood" % norm_text(t))
        return d
    if isinstance(stmt, (ast.If, ast.For, ast.While, ast.Try, ast.With, ast.FunctionDef)):
        return 0
    for c in calls_in(stmt):
        if isinstance(c.func, ast.Attribute) and _is_stack(c.func.value, aliases, attr):
            if c.func.attr == "pop" and not c.args:
                d -= 1
            elif c.func.attr == "append":
                d += 1
            elif c.func.attr in ("clear", "extend", "insert", "remove", "__delitem__"):
                raise AnalysisError("%s: stack operation not modelled" % norm_text(c))
    return d


# --------------------------------------------------------------------------------- R-C02-3

def _aug_delta(s, name):
    if isinstance(s, ast.AugAssign) and isinstance(s.target, ast.Name) and s.target.id == name:
        c = const_value(s.value)
        if not isinstance(c, int):
            raise AnalysisError("counter %s changed by a non-constant" % name)
        return c if isinstance(s.op, ast.Add) else -c
    return 0


def _loop_paths(cfg, loop_stmt):
    n = cfg.node(loop_stmt)
    body = loop_body_nodes(cfg, loop_stmt)
    out = []
    starts = [d for d, lab in cfg.succ[n] if lab is True]
    for st in starts:
        def rec(x, path, seen):
            if len(out) > 256:
                raise AnalysisError("path bound exceeded")
            if x == n or x not in body:
                out.append((path, "back" if x == n else "exit"))
                return
            if x in seen:
                return
            for d, lab in cfg.succ[x]:
                if lab == "exc":
                    continue
                rec(d, path + [x], seen | {x})
        rec(st, [], set())
    return out


def _r3_conservation(ctx):
    prog = ctx.prog
    ctx.rule("R-C02-3", floor=10, what="d(stack) + 2*d(recorded) - d(consumed) = 0 on every loop path; one push per turn")
    for k in kernels(prog):
        cfg = CFG(k.fi.node)
        paths = _loop_paths(cfg, k.loop)
        for path, how in paths:
            d_sp = d_t = d_i = 0
            pushes = 0
            for n in path:
                s = cfg.stmt[n]
                if cfg.kind[n] != "stmt":
                    continue
                d_sp += _aug_delta(s, k.sp)
                d_t += _aug_delta(s, k.rec)
                d_i += _aug_delta(s, k.counter)
            desc = "path via lines %s" % [cfg.stmt[n].lineno for n in path if cfg.kind[n] == "stmt"][:8]
            if d_sp + 2 * d_t - d_i == 0 and (d_i, d_t) in ((1, 0), (0, 1)):
                ctx.holds(k.fi, k.loop, "%s: d(sp)=%+d d(recorded)=%+d d(consumed)=%+d" % (desc, d_sp, d_t, d_i))
            else:
                first = cfg.stmt[path[0]] if path else k.loop
                ctx.violated(k.fi, first, "loop path (%s) changes stack by %+d, recorded cycles by %+d and consumed turns by "
                             "%+d: a turning point is lost or duplicated (need d(sp)+2*d(rec)-d(consumed)=0 and progress)"
                             % (desc, d_sp, d_t, d_i), text="conservation %+d %+d %+d" % (d_sp, d_t, d_i))
    # FKM python detector
    fi = prog.func("pylife.stress.rainflow.fkm:FKMDetector.process")
    loop = [s for s in fi.node.body if isinstance(s, ast.For)][0]
    al_ = _stack_aliases(fi.node)
    pushes = [s for s in loop.body if isinstance(s, ast.Expr) and isinstance(s.value, ast.Call) and
              isinstance(s.value.func, ast.Attribute) and s.value.func.attr == "append" and
              _is_stack(s.value.func.value, al_) and isinstance(s.value.args[0], ast.Name) and
              s.value.args[0].id == loop.target.id]
    all_pushes = [c for c in calls_in(loop) if isinstance(c.func, ast.Attribute) and c.func.attr in ("append", "insert", "extend")
                  and _is_stack(c.func.value, al_)]
    escapes = [s for s in walk_stmts(loop.body) if isinstance(s, (ast.Return, ast.Raise))]
    outer_jumps = [s for s in loop.body if isinstance(s, (ast.Break, ast.Continue))]
    for s in loop.body:
        if isinstance(s, ast.If):
            outer_jumps += [x for x in walk_stmts([s]) if isinstance(x, (ast.Break, ast.Continue)) and
                            not _inside_inner_loop(x, loop)]
    if len(pushes) == 1 and len(all_pushes) == 1 and not escapes and not outer_jumps:
        ctx.holds(fi, pushes[0], "each turn is pushed exactly once per iteration")
    else:
        ctx.violated(fi, loop, "the current turn is not pushed exactly once per iteration (top-level pushes %d, all %d, "
                     "early exits %d)" % (len(pushes), len(all_pushes), len(escapes) + len(outer_jumps)),
                     text="fkm push once")
    cfg = CFG(fi.node)
    inner = [s for s in loop.body if isinstance(s, ast.While)]
    rvc = [c for c in calls_in(fi.node) if isinstance(c.func, ast.Attribute) and c.func.attr == "record_values"]
    if len(rvc) != 1 or len(rvc[0].args) != 2 or not all(isinstance(a, ast.Name) for a in rvc[0].args):
        raise AnalysisError("FKMDetector.process: record_values(from, to) call not found")
    from_name, to_name = rvc[0].args[0].id, rvc[0].args[1].id
    for w in inner:
        for path, how in _loop_paths(cfg, w):
            pops = fa = ta = 0
            for n in path:
                s = cfg.stmt[n]
                if cfg.kind[n] == "stmt" and isinstance(s, ast.Delete):
                    pops -= min(0, _stack_delta(s, al_))
                if cfg.kind[n] == "stmt" and isinstance(s, ast.Expr) and isinstance(s.value, ast.Call) and \
                        isinstance(s.value.func, ast.Attribute):
                    c = s.value
                    if c.func.attr == "pop" and _is_stack(c.func.value, al_):
                        pops += 1
                    if c.func.attr == "append" and isinstance(c.func.value, ast.Name) and not _is_stack(c.func.value, al_):
                        if c.func.value.id == from_name:
                            fa += 1
                        elif c.func.value.id == to_name:
                            ta += 1
            if pops == 2 * fa == 2 * ta:
                ctx.holds(fi, w, "inner path: %d pops, %d recorded" % (pops, fa))
            else:
                ctx.violated(fi, w, "inner loop path pops %d residuals but records %d/%d from/to values" % (pops, fa, ta),
                             text="fkm inner %d %d %d" % (pops, fa, ta))
    # FKM nonlinear: iz moves with len(self._residuals)
    det = "pylife.stress.rainflow.fkm_nonlinear:FKMNonlinearDetector."
    ps = prog.func(det + "_hcm_process_sample")
    from ._hcm import require_recognised_dispatch, Restructured, dispatch_by_model
    restructured = False
    try:
        require_recognised_dispatch(ps)
    except Restructured:
        restructured = True
        # counter bookkeeping by abstract execution: iz drops by two exactly with each closed hysteresis (the handler pops two)
        dispatch_by_model(ctx, prog, "R-C02-3", "counter bookkeeping")
    cfg = CFG(ps.node)
    loop = ([s for s in ps.node.body if isinstance(s, ast.While)] or [None])[0]

    def callee_pops(call):
        tg = prog.resolve_call(ps, call)
        tot = set()
        for key in tg:
            f = prog.functions.get(key)
            if f is None:
                continue
            c2 = CFG(f.node)
            for p in c2.paths(c2.entry, {c2.exit}, limit=256):
                n_p = 0
                for n, _ in p:
                    s = c2.stmt[n]
                    if c2.kind[n] == "stmt" and s is not None:
                        n_p += _stack_delta(s, _stack_aliases(f.node))
                tot.add(n_p)
        return tot
    for path, how in ([] if restructured else _loop_paths(cfg, loop)):
        d_iz = 0
        d_res = {0}
        for n in path:
            s = cfg.stmt[n]
            if cfg.kind[n] != "stmt":
                continue
            d_iz += _aug_delta(s, "iz")
            for c in calls_in(s):
                if isinstance(c.func, ast.Attribute) and isinstance(c.func.value, ast.Name) and c.func.value.id == "self":
                    eff = callee_pops(c)
                    if eff and eff != {0}:
                        d_res = {a + b for a in d_res for b in eff}
            own = _stack_delta(s, _stack_aliases(ps.node))
            if own:
                d_res = {a + own for a in d_res}
        if d_res == {d_iz}:
            ctx.holds(ps, loop, "HCM loop path: d(iz)=%+d equals d(len(residuals))" % d_iz)
        else:
            ctx.violated(ps, cfg.stmt[path[0]] if path else loop, "HCM loop path changes the open-hysteresis counter by %+d "
                         "but the residual stack by %s" % (d_iz, sorted(d_res)), text="hcm iz %d vs %s" % (d_iz, sorted(d_res)))
    pa = prog.func(det + "_perform_hcm_algorithm")
    floop = [s for s in pa.node.body if isinstance(s, ast.For)]
    if len(floop) != 1:
        raise AnalysisError("_perform_hcm_algorithm: for loop not found")
    inc = sum(_aug_delta(s, "iz") for s in floop[0].body)
    app = [s for s in floop[0].body if isinstance(s, ast.Expr) and isinstance(s.value, ast.Call) and
           isinstance(s.value.func, ast.Attribute) and s.value.func.attr == "append" and
           is_self_attr(s.value.func.value, "_residuals")]
    nested_inc = sum(1 for s in walk_stmts(floop[0].body) if _aug_delta(s, "iz")) - sum(1 for s in floop[0].body if _aug_delta(s, "iz"))
    if inc == 1 and len(app) == 1 and nested_inc == 0:
        ctx.holds(pa, app[0], "each processed load: iz += 1 and one push, unconditionally")
    else:
        ctx.violated(pa, floop[0], "per processed load iz changes by %+d (conditional updates: %d) with %d unconditional push(es)"
                     % (inc, nested_inc, len(app)), text="hcm push/iz")


def _inside_inner_loop(stmt, outer):
    p = getattr(stmt, "_parent", None)
    while p is not None and p is not outer:
        if isinstance(p, (ast.While, ast.For)):
            return True
        p = getattr(p, "_parent", None)
    return False


# =========================================================================== variants

PYX = "src/pylife/stress/rainflow/extension.pyx"
FK = "src/pylife/stress/rainflow/fkm.py"
FN = "src/pylife/stress/rainflow/fkm_nonlinear.py"


def _closing_if(tree, fname):
    f = find_func(tree, fname)
    for s in ast.walk(f):
        if isinstance(s, ast.If) and any(isinstance(x, ast.Assign) and isinstance(x.targets[0], ast.Subscript) and
                                         isinstance(x.targets[0].value, ast.Name) and
                                         x.targets[0].value.id.startswith("from_vals") for x in s.body):
            return f, s
    return f, None


def variants():
    out = []

    def raw_product(tree):
        f = find_func(tree, "find_turns")
        for st in f.body:
            if isinstance(st, ast.Assign) and isinstance(st.value, ast.Call) and call_name(st.value) == "np.sign" and \
                    isinstance(st.targets[0], ast.Name) and st.targets[0].id == "diffs":
                st.value = st.value.args[0]
                return True
        return False
    out.append(witness("reversal test on the product of the raw differences (underflow)", "src/pylife/stress/rainflow/general.py",
                       raw_product, "R-C02-8"))

    def two_comparisons(tree):
        f = find_func(tree, "find_turns")
        for st in f.body:
            if isinstance(st, ast.Assign) and isinstance(st.targets[0], ast.Name) and st.targets[0].id == "peak_turns":
                st.value = parse_expr("((diffs[:-1] > 0) & (diffs[1:] < 0)) | ((diffs[:-1] < 0) & (diffs[1:] > 0))")
                return True
        return False
    out.append(twin("peak test written as sign comparisons", "src/pylife/stress/rainflow/general.py", two_comparisons))

    def fabsf_guard(tree):
        f = find_func(tree, "threepoint_loop")
        n = 0
        for c in ast.walk(f):
            if isinstance(c, ast.Call) and isinstance(c.func, ast.Name) and c.func.id == "fabs":
                par = c._parent
                while par is not None and not isinstance(par, (ast.If, ast.stmt)):
                    par = par._parent
                c.func.id = "fabsf"
                n += 1
        return n > 0
    out.append(witness("three-point guard compares single-precision ranges (fabsf)", PYX, fabsf_guard, "R-C02-7"))

    def drop_continue(tree):
        f = find_func(tree, "FKMDetector.process")
        for n in ast.walk(f):
            if isinstance(n, ast.If):
                for i, st in enumerate(n.body):
                    if isinstance(st, ast.Continue) and i == len(n.body) - 1 and len(n.body) > 1:
                        del n.body[i]
                        return True
        return False
    out.append(witness("FKM open-loop branch falls through into the primary counter", "src/pylife/stress/rainflow/fkm.py",
                       drop_continue, "R-C02-1"))

    def fast_path_no_kernel(tree):
        f = find_func(tree, "FourPointDetector.process")
        for i, st in enumerate(f.body):
            if isinstance(st, ast.Assign) and any(isinstance(c.func, ast.Attribute) and c.func.attr == "_new_turns" for c in calls_in(st)):
                tv = st.targets[0].elts[1].id
                f.body.insert(i + 1, parse_stmt("if %s.size == 0 and self._residuals.size > 0:\n"
                                                "    self._residuals = np.concatenate((self._residuals[:-1], samples[-1:]))\n"
                                                "    self._recorder.report_chunk(len(samples))\n    return self" % tv))
                return True
        return False
    out.append(witness("fast path replaces the trailing residual without running the kernel",
                       "src/pylife/stress/rainflow/fourpoint.py", fast_path_no_kernel, "R-C02-6"))

    def front_argsort(tree):
        f = find_func(tree, "ThreePointDetector.process")
        hi = lo = None
        for i, st in enumerate(f.body):
            if isinstance(st, ast.Assign) and isinstance(st.value, ast.Call) and call_name(st.value) == "np.argmax":
                hi = (i, st)
            if isinstance(st, ast.Assign) and isinstance(st.value, ast.Call) and call_name(st.value) == "np.argmin":
                lo = (i, st)
        if not hi or not lo:
            return False
        arr = ast.unparse(hi[1].value.args[0])
        hi[1].value = parse_expr("np.argsort(-%s, kind='stable')[0]" % arr)
        lo[1].value = parse_expr("np.argsort(-%s, kind='stable')[-1]" % arr)
        return True
    out.append(witness("front minimum taken as last entry of a stable descending argsort", "src/pylife/stress/rainflow/threepoint.py",
                       front_argsort, "R-C02-5"))

    def isclose_plateau(tree):
        # (on the signs of the differences np.isclose(sign, 0) would be exact: the tolerance is put on the differences themselves)
        f = find_func(tree, "find_turns")
        for st in f.body:
            if isinstance(st, ast.Assign) and isinstance(st.value, ast.Call) and call_name(st.value) == "np.sign" and \
                    isinstance(st.targets[0], ast.Name) and st.targets[0].id == "diffs":
                d = ast.unparse(st.value.args[0])
                st.value = parse_expr("np.sign(np.where(np.isclose(%s, 0.0), 0.0, %s))" % (d, d))
                return True
        return False
    out.append(witness("plateau detection with np.isclose", "src/pylife/stress/rainflow/general.py", isclose_plateau, "R-C02-4"))

    def four_strict(tree):
        f, br = _closing_if(tree, "fourpoint_loop")
        cmp_ = br.test.values[0]
        cmp_.ops = [ast.Lt()]
        return True
    out.append(witness("bc < ab in the four-point kernel", PYX, four_strict, "R-C02-1", "fourpoint"))

    def four_or(tree):
        f, br = _closing_if(tree, "fourpoint_loop")
        br.test.op = ast.Or()
        return True
    out.append(witness("four-point guard with or", PYX, four_or, "R-C02-1", "fourpoint"))

    def four_wrong_pair(tree):
        f, br = _closing_if(tree, "fourpoint_loop")
        for s in f.body[-2].body if False else ast.walk(f):
            if isinstance(s, ast.Assign) and isinstance(s.targets[0], ast.Name) and s.targets[0].id == "cd":
                s.value = parse_expr("fabs(b - d)")
                return True
        return False
    out.append(witness("cd computed as |b-d|", PYX, four_wrong_pair, "R-C02-1", "fourpoint"))

    def three_strict(tree):
        f, br = _closing_if(tree, "threepoint_loop")
        br.test.values[1].ops = [ast.Gt()]
        return True
    out.append(witness("three-point closing with >", PYX, three_strict, "R-C02-1", "threepoint"))

    def three_front(tree):
        f, br = _closing_if(tree, "threepoint_loop")
        br.test.values[0].comparators[0] = ast.Name(id="highest_front", ctx=ast.Load())
        return True
    out.append(witness("front guard against highest_front only", PYX, three_front, "R-C02-1", "threepoint"))

    def fkm_tie(tree):
        f = find_func(tree, "FKMDetector.process")
        for s in ast.walk(f):
            if isinstance(s, ast.If) and "current - last0" in norm_text(s.test):
                s.test.ops = [ast.Gt()]
                return True
        return False
    out.append(witness("FKM closing with >", FK, fkm_tie, "R-C02-1"))

    def fkm_cont_or(tree):
        f = find_func(tree, "FKMDetector.process")
        for s in ast.walk(f):
            if isinstance(s, ast.If) and isinstance(s.test, ast.BoolOp) and "max_turn" in norm_text(s.test):
                s.test.op = ast.Or()
                return True
        return False
    out.append(witness("FKM continue-closing with or", FK, fkm_cont_or, "R-C02-1"))

    def fkm_prim(tree):
        f = find_func(tree, "FKMDetector.process")
        for s in ast.walk(f):
            if isinstance(s, ast.If) and norm_text(s.test) == "np.abs(current) > max_turn":
                s.test.ops = [ast.GtE()]
                return True
        return False
    out.append(witness("FKM primary counter with >=", FK, fkm_prim, "R-C02-1"))

    def hcm_tie(tree):
        f = find_func(tree, "FKMNonlinearDetector._hcm_process_sample")
        for s in ast.walk(f):
            if isinstance(s, ast.If) and "current_load_extent" in norm_text(s.test):
                s.test.comparators[0] = parse_expr("previous_load_extent + 1e-12")
                return True
        return False
    out.append(witness("HCM tolerance in the wrong direction (ties no longer close)", FN, hcm_tie, "R-C02-1"))

    def hcm_mem3(tree):
        f = find_func(tree, "FKMNonlinearDetector._hcm_process_sample")
        for s in ast.walk(f):
            if isinstance(s, ast.If) and "load_max_seen + 1e-12" in norm_text(s.test):
                s.test.ops = [ast.GtE()]
                s.test.comparators[0] = parse_expr("load_max_seen - 1e-12")
                return True
        return False
    out.append(witness("Memory 3 taken on ties with the maximum", FN, hcm_mem3, "R-C02-1"))

    def four_idx_slot(tree):
        f, br = _closing_if(tree, "fourpoint_loop")
        augs = [s for s in br.body if isinstance(s, ast.AugAssign) and s.target.id == "ri"]
        br.body.remove(augs[0])
        br.body.insert(br.body.index(augs[1]), augs[0])
        return True
    out.append(witness("to_index read after both decrements", PYX, four_idx_slot, "R-C02-2", "fourpoint"))

    def four_from_a(tree):
        f, br = _closing_if(tree, "fourpoint_loop")
        br.body[0].value = ast.Name(id="a", ctx=ast.Load())
        return True
    out.append(witness("from value taken from slot -3", PYX, four_from_a, "R-C02-2", "fourpoint"))

    def three_idx(tree):
        f, br = _closing_if(tree, "threepoint_loop")
        for s in br.body:
            if isinstance(s, ast.Assign) and isinstance(s.targets[0], ast.Subscript) and \
                    s.targets[0].value.id.startswith("to_index"):
                s.value.slice = ast.Name(id="back", ctx=ast.Load())
                return True
        return False
    out.append(witness("three-point to_index from the incoming turn", PYX, three_idx, "R-C02-2", "threepoint"))

    def fkm_swapped(tree):
        f = find_func(tree, "FKMDetector.process")
        apps = [c for c in calls_in(f) if isinstance(c.func, ast.Attribute) and c.func.attr == "append" and
                isinstance(c.func.value, ast.Name) and c.func.value.id in ("from_vals", "to_vals")]
        apps[0].args[0], apps[1].args[0] = apps[1].args[0], apps[0].args[0]
        return True
    out.append(witness("FKM records (last0, last1)", FK, fkm_swapped, "R-C02-2"))

    def hcm_one_pop(tree):
        f = find_func(tree, "FKMNonlinearDetector._handle_case_c_ii")
        for s in list(f.body):
            if isinstance(s, ast.Expr) and isinstance(s.value, ast.Call) and isinstance(s.value.func, ast.Attribute) \
                    and s.value.func.attr == "pop":
                f.body.remove(s)
                return True
        return False
    out.append(witness("c)ii handler pops once", FN, hcm_one_pop, "R-C02-2"))

    def four_ri_once(tree):
        f, br = _closing_if(tree, "fourpoint_loop")
        augs = [s for s in br.body if isinstance(s, ast.AugAssign) and s.target.id == "ri"]
        augs[1].value = ast.Constant(0)
        return True
    out.append(witness("ri decremented once", PYX, four_ri_once, "R-C02-3", "fourpoint"))

    def three_no_t(tree):
        f, br = _closing_if(tree, "threepoint_loop")
        for s in list(br.body):
            if isinstance(s, ast.AugAssign) and s.target.id == "t":
                br.body.remove(s)
                return True
        return False
    out.append(witness("three-point forgets t += 1", PYX, three_no_t, "R-C02-3", "threepoint"))

    def four_skip(tree):
        f = find_func(tree, "fourpoint_loop")
        loop = [s for s in f.body if isinstance(s, ast.While)][0]
        first = loop.body[0]
        first.body = [s for s in first.body if not (isinstance(s, ast.AugAssign) and s.target.id == "ri")]
        return True
    out.append(witness("start-up path consumes a turn without pushing it", PYX, four_skip, "R-C02-3", "fourpoint"))

    def fkm_cond_push(tree):
        f = find_func(tree, "FKMDetector.process")
        loop = [s for s in f.body if isinstance(s, ast.For)][0]
        for i, s in enumerate(loop.body):
            if isinstance(s, ast.Expr) and isinstance(s.value, ast.Call) and s.value.func.attr == "append":
                loop.body[i] = ast.If(test=parse_expr("np.abs(current) > 0"), body=[s], orelse=[])
                return True
        return False
    out.append(witness("FKM pushes conditionally", FK, fkm_cond_push, "R-C02-3"))

    def hcm_iz(tree):
        f = find_func(tree, "FKMNonlinearDetector._hcm_process_sample")
        for s in ast.walk(f):
            if isinstance(s, ast.AugAssign) and isinstance(s.target, ast.Name) and s.target.id == "iz":
                s.value = ast.Constant(1)
                return True
        return False
    out.append(witness("iz -= 1 for two pops", FN, hcm_iz, "R-C02-3"))

    # twins
    def four_reordered(tree):
        f, br = _closing_if(tree, "fourpoint_loop")
        br.test = parse_expr("cd >= bc and ab >= bc")
        return True
    out.append(twin("four-point guard written as cd >= bc and ab >= bc", PYX, four_reordered))

    def four_not(tree):
        f, br = _closing_if(tree, "fourpoint_loop")
        br.test = parse_expr("not (bc > ab or bc > cd)")
        return True
    out.append(twin("four-point guard by De Morgan", PYX, four_not))

    def three_swapped_abs(tree):
        f, br = _closing_if(tree, "threepoint_loop")
        br.test.values[1] = parse_expr("fabs(front_val - back_val) >= fabs(start_val - front_val)")
        return True
    out.append(twin("three-point guard with swapped operands inside fabs", PYX, three_swapped_abs))

    def fkm_rename(tree):
        f = find_func(tree, "FKMDetector.process")
        for n in ast.walk(f):
            if isinstance(n, ast.Name) and n.id == "last0":
                n.id = "top"
            elif isinstance(n, ast.Name) and n.id == "last1":
                n.id = "below"
        return True
    out.append(twin("rename FKM locals", FK, fkm_rename))

    def four_ri2(tree):
        f, br = _closing_if(tree, "fourpoint_loop")
        # take both indices first, then ri -= 2
        new = ast.parse(
            "if bc <= ab and bc <= cd:\n"
            "    from_vals_v[t] = b\n    to_vals_v[t] = c\n"
            "    to_index_v[t] = turns_index[residual_index_v[ri-1]]\n"
            "    from_index_v[t] = turns_index[residual_index_v[ri-2]]\n"
            "    ri -= 2\n    t += 1\n    continue\n").body[0]
        return replace_node(br, new)
    out.append(twin("four-point pops with one ri -= 2", PYX, four_ri2))
    return out
