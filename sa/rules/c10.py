"""C10 — FKM-nonlinear assessment: batch independence (structural clauses).

R-C10-1 reductions over point-indexed values are grouped per assessment point;
R-C10-2 the per-point maximum option reaches the table constructors;
R-C10-3 duplicated blocks agree.  Not decided: sample insensitivity,
monotonicity in load/roughness/probability, N10 <= N50 <= N90.
"""
from __future__ import annotations

import ast

from ..astutil import (assigned_targets, call_name, calls_in, const_value, find_func, is_self_attr, names_in, parse_expr,
                       parse_stmt, replace_node, tuple_assign_pairs, enclosing_stmt)
from ..frontend import AnalysisError, Program, Module, set_parents, walk_function, walk_stmts
from ..report import norm_text
from ..sibling import diff_blocks
from ..witness import witness, twin

LEVEL = "other"
EXPLANATION = (
    "Static decision of the batch-independence clause of C10. R-C10-1: in the FKM-nonlinear strength modules values are "
    "typed by whether they carry the assessment-point axis (seeded from the hysteresis collective held by the damage "
    "parameter / damage calculator classes, from groups of it, from the node-indexed load sequence and from per-point "
    "results; propagated through column access, masks, arithmetic and element-wise functions). Every reduction over such "
    "a value (max/min/sum/mean/any/all/..., builtin and numpy forms without axis) must be grouped by the point level, or "
    "lie in a branch that is single-point by its guard, or only feed an assert; two named exceptions: the documented "
    "batch-wide maximum load when per-point maxima are NOT requested (the property's own proviso) and a loop bound whose "
    "body is masked per point. R-C10-2: the per-point option flows from the assessment parameters into "
    "maximum_absolute_load and its result reaches both Binned constructors unreduced along every call chain. R-C10-3: the "
    "duplicated class-limit block in the crack-opening loop and the duplicated index-normalisation helper of the two "
    "damage calculators agree statement by statement. Not decided: insensitivity to non-reversal samples, monotonicity, "
    "ordering of the 10/50/90 % lifetimes.")
EXPLANATION += (" R-C10-4: per-point knee values spread over the hysteresis table follow the table's index layout (hysteresis_index outermost, assessment_point_index fastest), by a shape algebra over ones/array/tile/repeat/flatten. R-C10-5: the lifetime branches switch at the end of the table the failure position refers to (shared with R-C09-6) - needed for monotonicity in the load level.")
EXPLANATION += (' R-C10-6: in the damage modules the per-point assessment and component-curve parameters are neither reduced over the batch (np.min/np.max/.min()/...) nor re-ordered by their index labels (sort_index/sort_values/reindex).')
EXPLANATION += (' R-C10-7: incremental sums over classes (outer loop over j, inner loop from a carried start to U(j)) carry exactly the end of the processed range (affine equality), so every class is added once whatever class the loop starts at, and a loop start derived from a minimum over the points is clamped to a valid class index.')
EXPLANATION += (' R-C10-8: the per-node maximum load (paired by position with the nodes of a load step by the binned laws) is computed with a groupby that keeps the order of appearance (sort=False); order-class analysis.')
EXPLANATION += (' R-C10-9 (shared with R-C07-8 / R-C05-12): the per-point look-up tables of the binned law are never replaced or re-ordered after their construction; their rows are paired with the points of a load step by position.')
EXPLANATION += (' R-C10-10: the rule R-C04-1 evaluated for this property (sample insensitivity rests on the junction of the two HCM passes: flush decision on the look-ahead sequence, trailing plateau taken at its first sample, second pass flushes); its open known finding is listed for C10 too.')
EXPLANATION += (' R-C10-11: with per-point look-up tables of the binned law the class of every point is searched in that point\'s own table; a search with the first point\'s load whose result selects the rows of all points is reported (open known finding: four look-up methods).')
EXPLANATION += (" R-C10-12: no method of FKMNonlinearDetector, no function of the assessment driver and no load-sequence accessor re-orders pandas data by labels or values (sort_index, sort_values, reindex, sample); the rows of a load step are paired by position with per-point tables that keep the order of appearance (expected count zero, built-in example).")
ASSUMPTIONS = [
    "pandas groupby(level).reduction() reduces within each group only; element-wise numpy/pandas operations keep rows apart",
]

MODS = ("pylife.strength.damage_parameter", "pylife.strength.fkm_nonlinear.damage_calculator",
        "pylife.strength.fkm_nonlinear.damage_calculator_praj_miner", "pylife.strength.fkm_load_distribution",
        "pylife.strength.fkm_nonlinear.assessment_nonlinear_standard")
POINT_LEVELS = ("assessment_point_index", "node_id")
REDUCERS = ("max", "min", "sum", "mean", "median", "std", "var", "prod", "any", "all", "idxmax", "idxmin", "argmax",
            "argmin", "nunique", "cumsum_total")
NP_REDUCERS = ("np.max", "np.min", "np.sum", "np.mean", "np.any", "np.all", "np.nanmax", "np.nanmin", "np.nansum",
               "np.amax", "np.amin", "np.median", "np.prod", "np.std", "np.nanstd", "np.nanmean", "np.argmax", "np.argmin")
ELEMENTWISE_METHODS = ("abs", "mask", "where", "to_numpy", "astype", "copy", "fillna", "reset_index", "droplevel", "squeeze",
                       "apply", "isin", "shift", "round", "clip", "reorder_levels", "sort_index", "flatten", "loc", "iloc",
                       "values", "dropna", "rename", "set_index", "transform", "map", "mul", "add", "sub", "div", "pow")


class PointAxis:
    """P = carries the assessment-point axis (possibly with more axes); G = grouped-by-point (GroupBy object)."""

    def __init__(self, prog, modules):
        self.prog = prog
        self.modules = modules
        self.sites = []    # (fi, stmt, call node, kind, receiver text)
        self.attr = {}

    def seed_attr(self, ci, attr):
        if attr == "_collective":
            return "P"
        if attr == "_obj" and ci is not None and any(a[1] == "fkm_load_sequence" for a in [ci.accessor] if a):
            return "P"
        return self.attr.get((ci.key if ci else None, attr))

    def k(self, e, env, ci):
        if isinstance(e, ast.Name):
            return env.get(e.id)
        if is_self_attr(e):
            return self.seed_attr(ci, e.attr)
        if isinstance(e, ast.Attribute):
            b = self.k(e.value, env, ci)
            if b == "P":
                if e.attr in ("index", "shape", "size", "columns", "name", "names", "dtype"):
                    return None
                return "P"
            return None
        if isinstance(e, ast.Subscript):
            b = self.k(e.value, env, ci)
            if b in ("P", "G"):
                return b
            return None
        if isinstance(e, (ast.BinOp,)):
            return "P" if "P" in (self.k(e.left, env, ci), self.k(e.right, env, ci)) else None
        if isinstance(e, ast.UnaryOp):
            return self.k(e.operand, env, ci)
        if isinstance(e, ast.Compare):
            ks = [self.k(e.left, env, ci)] + [self.k(c, env, ci) for c in e.comparators]
            return "P" if "P" in ks else None
        if isinstance(e, ast.BoolOp):
            return "P" if any(self.k(v, env, ci) == "P" for v in e.values) else None
        if isinstance(e, ast.IfExp):
            return "P" if "P" in (self.k(e.body, env, ci), self.k(e.orelse, env, ci)) else None
        if isinstance(e, ast.Call):
            fn = call_name(e) or ""
            f = e.func
            if isinstance(f, ast.Attribute):
                recv = self.k(f.value, env, ci)
                if f.attr == "groupby" and recv == "P":
                    by = e.args[0] if e.args else next((k.value for k in e.keywords if k.arg in ("by", "level")), None)
                    if by is not None and const_value(by) in POINT_LEVELS:
                        return "G"
                    if by is not None and isinstance(by, ast.List) and any(const_value(x) in POINT_LEVELS for x in by.elts):
                        return "G"
                    if any(k.arg == "level" for k in e.keywords) and not isinstance(const_value(by), str):
                        return "G"       # grouped by leading levels of the load sequence (everything but load_step)
                    return ("H", "P")   # grouped by something else: groups still carry the point axis
                if recv == "G":
                    return "P"           # per-point result
                if isinstance(recv, tuple) and recv[0] == "H":
                    return "P" if f.attr not in REDUCERS else "P"
                if recv == "P":
                    if f.attr in REDUCERS:
                        return None
                    return "P"
            if fn in ("np.where", "np.minimum", "np.maximum", "np.abs", "np.log", "np.log10", "np.exp", "np.power", "np.sqrt",
                      "np.isnan", "np.isinf", "np.asarray", "np.array", "abs", "np.logical_and", "np.logical_or", "np.sign",
                      "pd.concat", "np.flip"):
                if any(self.k(a, env, ci) == "P" for a in e.args):
                    return "P"
            if fn == "pd.Series":
                idx = next((k.value for k in e.keywords if k.arg == "index"), None)
                if idx is not None and isinstance(idx, ast.Name) and "assessment_point" in idx.id:
                    return "P"
            return None
        return None

    def scan(self, fi):
        ci = fi.cls or (fi.parent.cls if fi.parent else None)
        env = {}

        def assign(s):
            if isinstance(s, ast.Assign):
                for t, v in tuple_assign_pairs(s):
                    k = self.k(v, env, ci)
                    if isinstance(t, ast.Name):
                        if k is not None:
                            env[t.id] = k
                        else:
                            env.pop(t.id, None)
                    elif is_self_attr(t) and k == "P":
                        self.attr[(ci.key if ci else None, t.attr)] = "P"
            elif isinstance(s, ast.For):
                k = self.k(s.iter, env, ci)
                if isinstance(k, tuple) and k[0] == "H" and isinstance(s.target, ast.Tuple) and len(s.target.elts) == 2 \
                        and isinstance(s.target.elts[1], ast.Name):
                    env[s.target.elts[1].id] = "P"

        def sites(s):
            if isinstance(s, (ast.If, ast.While)):
                roots = [s.test]
            elif isinstance(s, ast.For):
                roots = [s.iter]
            elif isinstance(s, (ast.FunctionDef, ast.ClassDef, ast.With, ast.Try)):
                roots = []
            else:
                roots = [s]
            for r in roots:
                for c in [n for n in ast.walk(r) if isinstance(n, ast.Call)]:
                    f = c.func
                    fn = call_name(c) or ""
                    if isinstance(f, ast.Attribute) and f.attr in REDUCERS and fn not in NP_REDUCERS and \
                            not any(k.arg == "axis" for k in c.keywords):
                        recv = self.k(f.value, env, ci)
                        if recv == "G":
                            self.sites.append((fi, s, c, "grouped", norm_text(f.value)))
                        elif recv == "P":
                            self.sites.append((fi, s, c, "ungrouped", norm_text(f.value)))
                    elif (fn in NP_REDUCERS or (fn in ("max", "min", "sum", "any", "all") and len(c.args) == 1)) and \
                            not any(k.arg == "axis" for k in c.keywords) and c.args:
                        if self.k(c.args[0], env, ci) == "P":
                            self.sites.append((fi, s, c, "ungrouped", norm_text(c.args[0])))
        # warm-up pass (loop-carried names), then the sequential pass that records sites with the
        # kinds valid *at* each statement
        for s in walk_stmts(fi.node.body):
            assign(s)
        for s in walk_stmts(fi.node.body):
            sites(s)
            assign(s)
            # a property that returns a per-point value is a per-point attribute for its readers (self.lifetime_n_cycles)
            if isinstance(s, ast.Return) and s.value is not None and fi.is_property() and ci is not None and \
                    self.k(s.value, env, ci) == "P":
                self.attr[(ci.key, fi.name)] = "P"
        return env


def _single_point_guard(site_stmt, call):
    """Is the site inside a branch that is single-point by its guard?"""
    p = site_stmt
    child = site_stmt
    while p is not None:
        parent = getattr(p, "_parent", None)
        if isinstance(parent, ast.If):
            t = norm_text(parent.test)
            in_body = any(x is p for x in parent.body)
            multi_test = "isinstance(" in t and "MultiIndex" in t
            single_test = ("len(" in t and ".index.names) == 1" in t) or ("len(" in t and ".names) == 1" in t)
            if multi_test and not in_body and not t.startswith("not "):
                return "else-branch of %s" % t
            if multi_test and in_body and t.startswith("not "):
                return "branch %s" % t
            if single_test and in_body:
                return "branch %s" % t
        p = parent
    return None


def _feeds_only_assert(stmt):
    return isinstance(stmt, ast.Assert)


def _option_false_guard(fi, stmt, call):
    """`if <bool param>: return X` precedes the site in the same block: site runs only when the option is off."""
    params = set(fi.params)
    blk = getattr(stmt, "_parent", None)
    body = None
    for name in ("body", "orelse"):
        b = getattr(blk, name, None)
        if isinstance(b, list) and stmt in b:
            body = b
    if body is None:
        return None
    for s in body[: body.index(stmt)]:
        if isinstance(s, ast.If) and isinstance(s.test, ast.Name) and s.test.id in params and \
                "independent" in s.test.id and s.body and isinstance(s.body[-1], ast.Return):
            return s.test.id
    return None


def _loop_bound_masked(fi, stmt, call):
    """builtin min/max used (directly or through locals) as range() bound of a loop whose body compares the loop variable with
    the same value, i.e. every use inside the loop is masked per point."""
    if not (call.args and isinstance(call.args[0], ast.Name)):
        return False
    q = call.args[0].id
    loops = []
    if isinstance(stmt, ast.For):
        if any(call is x for a in getattr(stmt.iter, "args", []) for x in ast.walk(a)):
            loops.append(stmt)
    elif isinstance(stmt, ast.Assign) and len(stmt.targets) == 1 and isinstance(stmt.targets[0], ast.Name):
        carried = {stmt.targets[0].id}
        uses = []
        for s_ in walk_function(fi.node):
            if s_ is stmt:
                continue
            used_here = {n_.id for n_ in ast.walk(s_) if isinstance(n_, ast.Name) and isinstance(n_.ctx, ast.Load)} & carried \
                if not isinstance(s_, (ast.For, ast.While, ast.If, ast.With, ast.Try, ast.FunctionDef)) else set()
            if isinstance(s_, ast.For) and isinstance(s_.iter, ast.Call) and call_name(s_.iter) == "range" and \
                    {n_.id for a_ in s_.iter.args for n_ in ast.walk(a_) if isinstance(n_, ast.Name)} & carried:
                loops.append(s_)
            elif isinstance(s_, (ast.If, ast.IfExp)):
                pass
            elif used_here:
                uses.append(s_)
        # every other use of the bound must itself be a comparison with the loop bound (e.g. `f(first_j) if first_j < n else None`)
        for u in uses:
            ok_use = all(isinstance(getattr(n_, "_parent", None), (ast.Compare, ast.Call, ast.IfExp)) or
                         not (isinstance(n_, ast.Name) and n_.id in carried) for n_ in ast.walk(u))
            if not ok_use:
                return False
    for lp in loops:
        if not isinstance(lp.target, ast.Name) or call_name(lp.iter) != "range":
            return False
        j = lp.target.id
        if not any(isinstance(n, ast.Compare) and {norm_text(n.left), norm_text(n.comparators[0])} == {j, q} for n in ast.walk(lp)):
            return False
    return bool(loops)


REORDERERS = ("sort_index", "sort_values", "sortlevel", "reindex", "reindex_like", "sample", "swaplevel_sorted")


def label_reorderings(cls_node):
    """calls that re-order the rows of a pandas object by its labels / values: [(call, text)]"""
    out = []
    for c in ast.walk(cls_node):
        if isinstance(c, ast.Call) and isinstance(c.func, ast.Attribute) and c.func.attr in REORDERERS:
            out.append((c, norm_text(c)[:70]))
        # `<index>.levels[...]`: the categories of a MultiIndex level are kept SORTED by pandas - not the labels in their order of
        # appearance, which is what `get_level_values(...).unique()` gives
        if isinstance(c, ast.Attribute) and c.attr == "levels" and isinstance(c.ctx, ast.Load) and \
                isinstance(getattr(c, "_parent", None), ast.Subscript):
            out.append((c, norm_text(c._parent)[:70] + " (sorted categories of the level)"))
    return out


def _r12(ctx):
    """R-C10-12: the FKM nonlinear detector takes the load sequence in the caller's row order.  The per-point look-up tables of the
    binned notch law list the points in their order of appearance (R-C10-8, R-C10-9) and are paired with the points of a load step
    by POSITION; the detector's representative point is the first row of a load step.  Re-ordering the incoming sequence by its
    labels inside the detector (sort_index for a 'lexsorted, faster .loc') pairs the loads of one point with the table of another
    whenever the node ids do not ascend - the lifetime of a point then depends on the other points of the batch."""
    prog = ctx.prog
    ctx.rule("R-C10-12", floor=1, what="the FKM nonlinear detector does not re-order the load sequence by its labels")
    ex = ast.parse("class D:\n    def process(self, samples):\n        if not samples.index.is_monotonic_increasing:\n            samples = samples.sort_index()\n        return samples.groupby('load_step', sort=False).first()\n").body[0]
    if len(label_reorderings(ex)) != 1:
        raise AnalysisError("R-C10-12 built-in example not matched")
    ci = prog.cls("pylife.stress.rainflow.fkm_nonlinear:FKMNonlinearDetector")
    hits = []
    for name, defs in sorted(ci.methods.items()):
        fi = defs[-1]
        for c, text in label_reorderings(fi.node):
            hits.append(c)
            ctx.violated(fi, c, "FKMNonlinearDetector.%s re-orders pandas data by labels (%s): the rows of a load step are paired by position "
                         "with the per-point look-up tables, which keep the order in which the points appear in the load sequence"
                         % (name, text), text="label re-ordering in " + name)
    if not hits:
        ctx.holds(ci.key, None, "%d methods of the detector: no sort_index / sort_values / reindex" % len(ci.methods))
    # ... and neither do the assessment driver nor the load-sequence accessor, where the per-point maximum loads that the tables
    # are built from come into being: sorted by node id they no longer line up with the points of a load step
    n2 = 0
    for key, fi in sorted(prog.functions.items()):
        if fi.module.name not in ("pylife.strength.fkm_nonlinear.assessment_nonlinear_standard", "pylife.strength.fkm_load_distribution") or fi.parent is not None:
            continue
        n2 += 1
        for c, text in label_reorderings(fi.node):
            hits.append(c)
            ctx.violated(fi, c, "%s re-orders pandas data by labels (%s): the per-point maximum loads / parameters are paired by position with "
                         "the points of a load step, in their order of appearance" % (fi.qualname, text), text="label re-ordering in " + fi.qualname)
    ctx.holds("pylife.strength.fkm_nonlinear", None, "%d functions of the assessment driver and the load-sequence accessors scanned" % n2)


def run(ctx):
    ctx.attempt(_r12)
    ctx.attempt(_r1)
    ctx.attempt(_r2)
    ctx.attempt(_r3)
    ctx.attempt(_r4)
    ctx.attempt(_r5)
    ctx.attempt(_r6)
    ctx.attempt(_r7)
    ctx.attempt(_r8)
    ctx.attempt(_r9)
    ctx.attempt(_r10)
    ctx.attempt(_r11)


def _r11(ctx):
    """R-C10-11 (helper `c07.first_point_searches`): with per-point look-up tables the class of a load is searched per point, in
    that point's own table - not once, with the first point's load, for all points of the batch."""
    from .c07 import first_point_searches
    ctx.rule("R-C10-11", floor=1, what="per-point look-up tables: the class of every point is searched in that point's own table")
    first_point_searches(ctx)


def _r10(ctx):
    """R-C10-10 (the rule R-C04-1, evaluated for this property): 'the lifetime does not change when non-reversal samples or
    repeated values are added' rests on the junction of the two HCM passes - which samples pass 1 processes (flush decision on
    the look-ahead sequence, a trailing plateau taken at its first sample) and that pass 2 flushes.  The open known finding of
    R-C04-1 (look-ahead over the zero-prefixed samples) is a violation of this clause too and is listed for C10 as well."""
    from .c04 import _r1
    _r1(ctx, "R-C10-10")


def _r9(ctx):
    """With per-point load maxima every point has look-up tables of its own, and the binned law pairs their rows with the
    points of a load step by position.  The tables must keep the row order in which they were built - re-ordered tables give a
    point the values of another point of the same batch (shared with R-C07-8 / R-C05-12)."""
    from .c07 import tables_fixed
    prog = ctx.prog
    ctx.rule("R-C10-9", floor=4, what="per-point look-up tables are never re-ordered after construction (shared with R-C07-8)")
    tables_fixed(ctx, prog.cls("pylife.materiallaws.notch_approximation_law:Binned"))


def _r8(ctx):
    """The per-node maximum load is handed to the binned notch laws, which pair it by POSITION with the nodes of a load step
    (R-C07-7).  It must therefore list the nodes in the order in which they appear in the load sequence (groupby(...,
    sort=False)); the default key-sorted groupby gives ascending node ids, which is another order unless the ids happen to
    ascend."""
    from ..orders import Orders
    prog = ctx.prog
    ctx.rule("R-C10-8", floor=1, what="per-node maximum load keeps the node order of the load sequence (order-class agreement)")
    f = prog.func("pylife.strength.fkm_load_distribution:FKMLoadSequence.maximum_absolute_load") if \
        "pylife.strength.fkm_load_distribution:FKMLoadSequence.maximum_absolute_load" in prog.functions else None
    if f is None:
        cands = [fi for k, fi in prog.functions.items() if k.startswith("pylife.strength.fkm_load_distribution:") and
                 fi.name == "maximum_absolute_load"]
        if len(cands) != 1:
            raise AnalysisError("maximum_absolute_load not found")
        f = cands[0]
    o = Orders(prog, [f.module.name], row_source=lambda e, fi: is_self_attr(e, "_obj"))
    n = 0
    for st in walk_function(f.node):
        if isinstance(st, ast.Assign) and any(isinstance(c.func, ast.Attribute) and c.func.attr == "groupby" and
                                              any(const_value(a) == "node_id" for a in c.args) for c in calls_in(st.value)):
            from ..astutil import inline_single_defs
            k = o.oc(inline_single_defs(f.node, st.value), {}, f)
            n += 1
            if k in ("ROWG", "ROW"):
                ctx.holds(f, st, "per-node maxima %s: nodes in order of appearance" % norm_text(st.value))
            elif k in ("GROUPED", "SORTED"):
                ctx.violated(f, st, "the per-node maximum loads %s come in ascending node id order, but they are paired by position "
                             "with the nodes of a load step: for node ids that are not ascending every point is binned with "
                             "another point's maximum (or the assessment raises)" % norm_text(st.value), text="per-node maxima order")
            else:
                raise AnalysisError("maximum_absolute_load: order class of %s unknown" % norm_text(st.value))
    if n == 0:
        raise AnalysisError("maximum_absolute_load: per-node reduction not found")


def _r7(ctx):
    """Incremental sums over classes shared by all points of a batch.  A loop `for j in range(a, b): for i in range(p, U(j)):
    ...; p = E(j)` adds every class exactly once - whatever class it starts at, i.e. whatever the other points of the batch
    are - iff the carried start equals the end of the range just processed (E(j) == U(j), affine equality); and a start value
    derived from a per-point minimum must be clamped to a valid class index (>= 0)."""
    from ..domains import affine_eval
    prog = ctx.prog
    ctx.rule("R-C10-7", floor=1, what="incremental class sums carry 'next unprocessed class' and start at a valid class")
    mods = ("pylife.strength.damage_parameter", "pylife.strength.fkm_nonlinear.damage_calculator",
            "pylife.strength.fkm_nonlinear.damage_calculator_praj_miner")
    n = 0
    for key, fi in sorted(prog.functions.items()):
        if fi.module.name not in mods:
            continue
        for outer in [x for x in walk_function(fi.node) if isinstance(x, ast.For) and isinstance(x.target, ast.Name) and
                      isinstance(x.iter, ast.Call) and call_name(x.iter) == "range"]:
            jv = outer.target.id
            for inner in [x for x in outer.body if isinstance(x, ast.For) and isinstance(x.iter, ast.Call) and
                          call_name(x.iter) == "range" and len(x.iter.args) == 2 and isinstance(x.iter.args[0], ast.Name)]:
                pv = inner.iter.args[0].id
                upd = [x for x in outer.body if isinstance(x, ast.Assign) and isinstance(x.targets[0], ast.Name) and
                       x.targets[0].id == pv and outer.body.index(x) > outer.body.index(inner)]
                if not upd:
                    continue
                n += 1
                atom = lambda e: e.id if isinstance(e, ast.Name) else None
                U = affine_eval(inner.iter.args[1], atom)
                E = affine_eval(upd[0].value, atom)
                if U is not None and E is not None and U == E:
                    ctx.holds(fi, upd[0], "%s: carried start %s = %s equals the end of the processed range: every class is added once"
                              % (fi.name, pv, norm_text(upd[0].value)))
                else:
                    ctx.violated(fi, upd[0], "%s: the inner loop processes classes %s..%s-1 and then carries %s = %s: classes are added "
                                 "again in the next round (or skipped), and how often depends on the class the outer loop started "
                                 "at - i.e. on the other points of the batch" %
                                 (fi.name, pv, norm_text(inner.iter.args[1]), pv, norm_text(upd[0].value)), text="carried start " + fi.name)
                lo = outer.iter.args[0] if len(outer.iter.args) >= 2 else None
                if lo is not None and any(isinstance(x, ast.Call) and call_name(x) in ("min", "np.min") for x in ast.walk(lo)):
                    clamped = isinstance(lo, ast.Call) and call_name(lo) in ("max", "np.maximum") and \
                        any(const_value(a) == 0 for a in lo.args)
                    if clamped:
                        ctx.holds(fi, outer, "%s: outer loop starts at %s: a valid class index" % (fi.name, norm_text(lo)))
                    else:
                        ctx.violated(fi, outer, "%s: the outer loop starts at %s, which is -1 for a point whose endurance limit lies above "
                                     "all its classes: class index -1 wraps around to the last class" % (fi.name, norm_text(lo)),
                                     text="loop start " + fi.name)
    if n == 0:
        raise AnalysisError("no incremental class sum found in the damage modules")


def _r6(ctx):
    """Per-point parameters.  With a per-point stress gradient the derived assessment parameters and the component curve
    parameters are one value per assessment point, in assessment-point order.  In the damage modules they must neither be
    reduced over the batch (np.min/np.max/... of a parameter gives every point another point's limit) nor re-ordered by their
    index labels (sort_index / sort_values: the labels of the user's G series are irrelevant, positions pair them with the
    points)."""
    prog = ctx.prog
    ctx.rule("R-C10-6", floor=3, what="per-point parameters are neither reduced over the batch nor re-ordered by label")
    mods = ("pylife.strength.damage_parameter", "pylife.strength.fkm_nonlinear.damage_calculator",
            "pylife.strength.fkm_nonlinear.damage_calculator_praj_miner")
    n = 0

    def per_point(e, loc):
        while isinstance(e, ast.Call) and isinstance(e.func, ast.Attribute) and e.func.attr in ("to_numpy", "copy", "astype", "abs"):
            e = e.func.value
        if isinstance(e, ast.Attribute) and e.attr == "values":
            e = e.value
        if isinstance(e, ast.Name):
            return loc.get(e.id, False)
        if isinstance(e, ast.Attribute) and isinstance(e.value, ast.Attribute) and is_self_attr(e.value) and \
                (e.value.attr == "_assessment_parameters" or e.value.attr.startswith("_component_woehler_curve")):
            return True
        return False
    for key, fi in sorted(prog.functions.items()):
        if fi.module.name not in mods:
            continue
        loc = {}
        for st in walk_function(fi.node):
            if isinstance(st, ast.Assign) and isinstance(st.targets[0], ast.Name) and per_point(st.value, loc):
                loc[st.targets[0].id] = True
        for c in calls_in(fi.node):
            fn = call_name(c) or ""
            st = c
            while not isinstance(st, ast.stmt):
                st = st._parent
            target = None
            what = None
            if fn in NP_REDUCERS and len(c.args) == 1 and not any(k.arg == "axis" for k in c.keywords):
                target, what = c.args[0], "reduced over the batch (%s)" % fn
            elif isinstance(c.func, ast.Attribute) and c.func.attr in ("min", "max", "sum", "mean", "median") and not c.args and \
                    not fn.startswith("np."):
                target, what = c.func.value, "reduced over the batch (.%s())" % c.func.attr
            elif isinstance(c.func, ast.Attribute) and c.func.attr in ("sort_index", "sort_values", "reindex"):
                target, what = c.func.value, "re-ordered by label (.%s())" % c.func.attr
            if target is None or not per_point(target, loc):
                continue
            # the documented reduction to the weakest point for the 'minimum lifetime' curve is the one named exception
            if fi.name.startswith("get_woehler_curve_minimum_lifetime"):
                continue
            n += 1
            ctx.violated(fi, st, "%s: the per-point parameter %s is %s: with a per-point stress gradient every assessment point "
                         "then works with another point's value, so its result depends on which points share the call" %
                         (fi.name, norm_text(target), what), text=norm_text(c)[:80])
        uses = [x for x in ast.walk(fi.node) if isinstance(x, ast.Attribute) and per_point(x, {})]
        if uses and not any(f_.construct == fi.key and f_.rule == "R-C10-6" for f_ in ctx.findings):
            ctx.holds(fi, fi.node, "%s: %d reads of per-point parameters, none reduced or re-ordered" % (fi.name, len(uses)))


def _r5(ctx):
    """Monotonicity in the load level needs the early-failure branch and the regular branch of the lifetime to switch at the
    end of the hysteresis table and both lifetime properties to agree (analysis shared with R-C09-6)."""
    ctx.rule("R-C10-5", floor=8, what="lifetime branches switch at the end of the table the failure position refers to (shared with R-C09-6)")
    from .c09 import _accumulation_core
    _accumulation_core(ctx)


_AXES = {"hysteresis_index": "H", "assessment_point_index": "P"}


def _count_axis(e, env):
    """the axis whose length a count expression is: a local bound to it, or len(<index>.get_level_values('<level>').unique())
    written in place"""
    if isinstance(e, ast.Name) and isinstance(env.get(e.id), str):
        return env[e.id]
    if isinstance(e, ast.Call) and call_name(e) == "len" and e.args:
        t = norm_text(e.args[0]).replace('"', "'")
        for lvl, ax in _AXES.items():
            if "get_level_values('%s')" % lvl in t and "unique" in t:
                return ax
    return None


def _layout(e, env):
    """Axis order of an array expression; ('flat', axes) after flattening.  None: unknown."""
    if isinstance(e, ast.Name):
        return env.get(e.id)
    if is_self_attr(e):
        return env.get("self." + e.attr)
    if isinstance(e, ast.Constant) and isinstance(e.value, (int, float)):
        return ()
    if isinstance(e, ast.Attribute) and e.attr in ("values", "T"):
        b = _layout(e.value, env)
        return b if e.attr == "values" or b is None else tuple(reversed(b))
    if isinstance(e, ast.BinOp) and isinstance(e.op, (ast.Mult, ast.Add)):
        a, b = _layout(e.left, env), _layout(e.right, env)
        if a is None or b is None or (a and a[0] == "flat") or (b and b[0] == "flat"):
            return None
        n = max(len(a), len(b))
        a, b = ("1",) * (n - len(a)) + tuple(a), ("1",) * (n - len(b)) + tuple(b)
        out = []
        for x, y in zip(a, b):
            if x == "1":
                out.append(y)
            elif y == "1" or x == y:
                out.append(x)
            else:
                return None
        return tuple(out)
    if isinstance(e, ast.Call):
        fn = call_name(e) or ""
        f = e.func
        if isinstance(f, ast.Attribute) and f.attr in ("to_numpy", "copy", "astype", "squeeze") and fn not in ("np.copy",):
            return _layout(f.value, env)
        if isinstance(f, ast.Attribute) and f.attr in ("flatten", "ravel") and not fn.startswith("np."):
            b = _layout(f.value, env)
            return None if b is None else ("flat", tuple(x for x in b if x != "1"))
        if fn in ("np.asarray", "np.array") and e.args:
            a = e.args[0]
            if isinstance(a, (ast.List, ast.Tuple)) and len(a.elts) == 1:
                b = _layout(a.elts[0], env)
                return None if b is None else ("1",) + tuple(b)
            return _layout(a, env)
        if fn in ("np.ones", "np.full", "np.zeros", "np.empty") and e.args and not isinstance(e.args[0], (ast.List, ast.Tuple)) and \
                _count_axis(e.args[0], env) is not None:
            return (_count_axis(e.args[0], env),)                  # one-dimensional: np.ones(n)
        if fn in ("np.ones", "np.full", "np.zeros", "np.empty") and e.args and isinstance(e.args[0], (ast.List, ast.Tuple)):
            dims = []
            for d in e.args[0].elts:
                if const_value(d) == 1:
                    dims.append("1")
                elif _count_axis(d, env) is not None:
                    dims.append(_count_axis(d, env))
                else:
                    return None
            return tuple(dims)
        if fn in ("np.tile", "np.repeat") and len(e.args) == 2 and not e.keywords:
            b = _layout(e.args[0], env)
            n = e.args[1]
            cnt = _count_axis(n, env)
            if b is None or len(b) != 1 or not isinstance(cnt, str):
                return None
            return ("flat", (cnt, b[0])) if fn == "np.tile" else ("flat", (b[0], cnt))
        if fn in ("np.outer",) and len(e.args) == 2:
            a, b = _layout(e.args[0], env), _layout(e.args[1], env)
            if a is not None and b is not None and len(a) == 1 and len(b) == 1:
                return (a[0], b[0])
    return None


def _r4(ctx, rule="R-C10-4"):
    """Per-point curve values spread over the hysteresis table must be laid out like the table's index
    (hysteresis_index outermost, assessment_point_index fastest)."""
    prog = ctx.prog
    ctx.rule(rule, floor=2, what="per-point values spread over the hystereses follow the index layout (hysteresis-major, point fastest)")
    f = prog.func("pylife.strength.fkm_nonlinear.damage_calculator:DamageCalculatorPRAM._initialize_P_RAM_Z_index")
    # level order of the table index as asserted by the calculator
    init = prog.func("pylife.strength.fkm_nonlinear.damage_calculator:DamageCalculatorPRAM._initialize_collective_index")
    order = None
    for st in walk_stmts(init.node.body):
        if isinstance(st, ast.Assert) and isinstance(st.test, ast.Compare) and "index.names" in norm_text(st.test.left):
            v = st.test.comparators[0]
            if isinstance(v, ast.List):
                order = [const_value(x) for x in v.elts]
    if order is None:
        raise AnalysisError("asserted level order of the collective index not found")
    axis = {"hysteresis_index": "H", "assessment_point_index": "P"}
    want = tuple(axis.get(x) for x in order)
    ctx.holds(init, init.node, "table index levels are %s" % order)
    env = {}
    stores = []
    for st in walk_stmts(f.node.body):
        if isinstance(st, ast.Assign) and isinstance(st.targets[0], ast.Name) and isinstance(st.value, ast.Call) and \
                call_name(st.value) == "len":
            t = norm_text(st.value.args[0])
            for lvl, ax in axis.items():
                if "get_level_values('%s')" % lvl in t.replace('"', "'") and "unique" in t:
                    env[st.targets[0].id] = ax
        if isinstance(st, ast.Assign) and is_self_attr(st.targets[0]) and isinstance(st.value, ast.Call) and \
                call_name(st.value) == "pd.Series":
            stores.append(st)
    if len(stores) != 1:
        raise AnalysisError("_initialize_P_RAM_Z_index: the re-indexed Series not found")
    st = stores[0]
    attr = st.targets[0].attr
    env["self." + attr] = ("P",)          # one value per assessment point (guarded by the isinstance tests above it)
    data = next((k.value for k in st.value.keywords if k.arg == "data"), st.value.args[0] if st.value.args else None)
    idx = next((k.value for k in st.value.keywords if k.arg == "index"), None)
    if data is None or idx is None or norm_text(idx) != "self._collective.index":
        raise AnalysisError("_initialize_P_RAM_Z_index: data/index of the Series not found")
    lay = _layout(data, env)
    if lay is None:
        raise AnalysisError("_initialize_P_RAM_Z_index: layout of %s unknown" % norm_text(data))
    if lay == ("flat", want):
        ctx.holds(f, st, "%s spread as %s: axes %s, matching the index layout" % (attr, norm_text(data), "x".join(want)))
    else:
        ctx.violated(f, st, "the per-point values %s are spread over the table as %s with axis order %s, but the table index is "
                     "laid out %s (point index fastest): every hysteresis row is evaluated against another point's curve" %
                     (attr, norm_text(data), lay, "x".join(want)), text="P_RAM_Z layout")


def _r1(ctx):
    prog = ctx.prog
    ctx.rule("R-C10-1", floor=14, what="reductions over point-indexed values are grouped per assessment point")
    mods = [m for m in MODS if m in prog.modules]
    if len(mods) < 5:
        raise AnalysisError("FKM-nonlinear strength modules missing: %s" % sorted(set(MODS) - set(mods)))
    pa = PointAxis(prog, mods)
    funcs = [fi for fi in prog.functions.values() if fi.module.name in mods]
    for fi in funcs:
        pa.scan(fi)
    pa.sites = []
    for fi in funcs:
        pa.scan(fi)
    seen = set()
    n_grouped = 0
    for fi, stmt, call, kind, recv in pa.sites:
        key = (fi.key, id(call))
        if key in seen:
            continue
        seen.add(key)
        what = norm_text(call)
        if kind == "grouped":
            n_grouped += 1
            ctx.holds(fi, stmt, "grouped per point: %s" % what[:110])
            continue
        g = _single_point_guard(stmt, call)
        if g:
            ctx.holds(fi, stmt, "single-point by guard (%s): %s" % (g, what[:80]))
            continue
        if _feeds_only_assert(stmt):
            ctx.holds(fi, stmt, "feeds only an assert: %s" % what[:90])
            continue
        opt = _option_false_guard(fi, stmt, call)
        if opt:
            ctx.holds(fi, stmt, "named exception: batch-wide maximum only when %s is off (the property's proviso): %s" %
                      (opt, what[:60]))
            continue
        if _loop_bound_masked(fi, stmt, call):
            ctx.holds(fi, stmt, "named exception: loop bound %s, loop body masked per point" % what)
            continue
        ctx.violated(fi, stmt, "reduction %s runs over all assessment points of the batch: the result of a point then "
                     "depends on which other points are assessed with it (group by the point level)" % what, text=what)
    if n_grouped < 6:
        raise AnalysisError("only %d grouped reductions recognised; point-axis typing lost its seeds" % n_grouped)
    # positive example
    src = ("class P:\n    def f(self):\n        a = self._collective.S_max.abs().max()\n"
           "        b = self._collective.S_max.abs().groupby('assessment_point_index').max()\n"
           "        for i, group in self._collective.groupby('hysteresis_index'):\n            c = group.P.sum()\n")
    tree = set_parents(ast.parse(src))
    p = object.__new__(Program)
    p.root, p.overrides, p._base = "", {}, None
    p.modules = {"ex": Module("ex", "ex.py", src, tree, "0")}
    p.modules["ex"].pysource = src
    p.functions, p.classes, p.accessors, p._subclasses = {}, {}, {}, {}
    p._index()
    pe = PointAxis(p, ["ex"])
    pe.scan(p.functions["ex:P.f"])
    got = sorted((k, norm_text(c)) for _, _, c, k, _ in pe.sites)
    want = [("grouped", "self._collective.S_max.abs().groupby('assessment_point_index').max()"),
            ("ungrouped", "group.P.sum()"), ("ungrouped", "self._collective.S_max.abs().max()")]
    if got != want:
        raise AnalysisError("point-axis positive example failed: %s" % got)
    ctx.holds("selftest:positive-example", None, "un-grouped reductions fire on the built-in example, the grouped one does not")


def _r2(ctx):
    prog = ctx.prog
    ctx.rule("R-C10-2", floor=3, what="per-point option reaches maximum_absolute_load; its result reaches both Binned constructors")
    A = "pylife.strength.fkm_nonlinear.assessment_nonlinear_standard"
    m = prog.module(A)
    # (a) option flows into maximum_absolute_load
    opt_calls = []
    for key, fi in prog.functions.items():
        if fi.module is not m:
            continue
        for c in calls_in(fi.node):
            if isinstance(c.func, ast.Attribute) and c.func.attr == "maximum_absolute_load":
                opt_calls.append((fi, c))
    if not opt_calls:
        raise AnalysisError("call of maximum_absolute_load not found")
    for fi, c in opt_calls:
        v = next((k.value for k in c.keywords if k.arg == "max_load_independently_for_nodes"), c.args[0] if c.args else None)
        ok = v is not None and "max_load_independently_for_nodes" in norm_text(v) and \
            any(isinstance(n, ast.Name) and n.id in fi.params for n in ast.walk(v))
        if ok:
            ctx.holds(fi, c, "option max_load_independently_for_nodes is forwarded from the assessment parameters")
        else:
            ctx.violated(fi, c, "maximum_absolute_load is called with %s instead of the requested per-point option" %
                         (norm_text(v) if v is not None else "its default"))
    src_fn = opt_calls[0][0]
    # the function must return the call result unchanged
    rets = [s for s in walk_function(src_fn.node) if isinstance(s, ast.Return)]
    # (b) Binned constructor second argument traces back to that function's result
    binned = []
    for key, fi in prog.functions.items():
        if fi.module is not m:
            continue
        for c in calls_in(fi.node):
            if (call_name(c) or "").endswith("Binned") and len(c.args) >= 2:
                binned.append((fi, c))
    if len(binned) < 1:
        raise AnalysisError("no Binned constructor call found")
    single_site = len(binned) == 1           # the common set-up of the P_RAM / P_RAJ runs may live in one private helper

    def trace(fi, expr, depth=0):
        """-> list of (ok, message) over all call chains"""
        if depth > 6:
            return [(False, "call chain too deep")]
        if isinstance(expr, ast.Call):
            tg = prog.resolve_call(fi, expr)
            if src_fn.key in tg:
                return [(True, "result of %s" % src_fn.name)]
            if isinstance(expr.func, ast.Attribute) and expr.func.attr == "maximum_absolute_load":
                return [(True, "result of maximum_absolute_load")]
            return [(False, "passes through %s" % norm_text(expr)[:60])]
        if isinstance(expr, ast.Name):
            # local definition?
            defs = [s for s in walk_function(fi.node) if isinstance(s, ast.Assign) and
                    any(isinstance(t, ast.Name) and t.id == expr.id for t in s.targets)]
            if defs:
                out = []
                for d in defs:
                    out += trace(fi, d.value, depth + 1)
                return out
            if expr.id in fi.params:
                i = fi.params.index(expr.id)
                out = []
                callers = 0
                for k2, f2 in prog.functions.items():
                    for c2 in calls_in(f2.node):
                        if fi.key in prog.resolve_call(f2, c2):
                            callers += 1
                            a = c2.args[i] if i < len(c2.args) else next((k.value for k in c2.keywords if k.arg == expr.id), None)
                            if a is None:
                                out.append((False, "caller %s does not pass %s" % (f2.name, expr.id)))
                            else:
                                out += trace(f2, a, depth + 1)
                if callers == 0:
                    out.append((False, "no caller passes %s" % expr.id))
                return out
        return [(False, "value %s is not the maximum-load result" % norm_text(expr)[:60])]
    for fi, c in binned:
        res = trace(fi, c.args[1])
        bad = [msg for ok, msg in res if not ok]
        if bad:
            ctx.violated(fi, c, "Binned table maximum does not come unreduced from maximum_absolute_load: %s" % "; ".join(bad))
        elif single_site and len(res) < 2:
            raise AnalysisError("one Binned constructor call reached along %d call chain(s); expected the P_RAM and the P_RAJ run" % len(res))
        else:
            for _ in range(2 if single_site else 1):
                ctx.holds(fi, c, "table maximum = %s along %d call chain(s)" % (res[0][1], len(res)))


def _r3(ctx):
    prog = ctx.prog
    ctx.rule("R-C10-3", floor=2, what="duplicated blocks agree")
    f = prog.func("pylife.strength.damage_parameter:P_RAJ._compute_crack_opening_loop")
    blocks = []
    for s in walk_stmts(f.node.body):
        if isinstance(s, ast.If):
            for blk in (s.body, s.orelse):
                if any(isinstance(x, ast.Assign) and any(isinstance(t, ast.Attribute) and t.attr == "P_RAJ_klass_max"
                                                         for t in x.targets) for x in blk):
                    blocks.append((s, blk))
    shared_ok = False
    if len(blocks) == 0:
        # de-duplicated: the class-limit block lives in one helper method that every site calls
        helpers = {}
        for c in calls_in(f.node):
            if isinstance(c.func, ast.Attribute) and is_self_attr(c.func):
                h = prog.lookup_method(f.cls, c.func.attr)
                if h is not None and any(isinstance(x, ast.Assign) and any(isinstance(t, ast.Attribute) and t.attr == "P_RAJ_klass_max"
                                                                           for t in x.targets) for x in walk_function(h.node)):
                    helpers.setdefault(h.key, []).append(c)
        if len(helpers) == 1 and len(next(iter(helpers.values()))) >= 1:
            hk, cs = next(iter(helpers.items()))
            argsets = {tuple(norm_text(a) for a in c.args) + tuple(sorted((k.arg, norm_text(k.value)) for k in c.keywords)) for c in cs}
            if len(argsets) == 1:
                ctx.holds(f, cs[0], "the class-limit block is one shared helper (%s) called with the same arguments at %d site(s)" %
                          (hk.split(".")[-1], len(cs)))
                shared_ok = True
            else:
                ctx.violated(f, cs[0], "the sites of the class-limit computation call %s with different arguments %s" %
                             (hk.split(".")[-1], sorted(argsets)), text="class-limit copies")
                shared_ok = True
    if not shared_ok and len(blocks) != 2:
        raise AnalysisError("expected the class-limit block twice in the crack opening loop, found %d" % len(blocks))

    def core(blk):
        # from the l_star definition to the class maximum
        st = next((x for x in blk if isinstance(x, ast.Assign) and isinstance(x.targets[0], ast.Attribute) and
                   x.targets[0].attr == "l_star" and isinstance(x.value, ast.Name)), None)
        loc = st.value.id if st is not None else None
        start = next((i for i, x in enumerate(blk) if isinstance(x, ast.Assign) and isinstance(x.targets[0], ast.Name)
                      and x.targets[0].id == loc), None)
        if start is None:
            raise AnalysisError("class-limit block without l_star definition")
        return blk[start:]
    if not shared_ok:
        d, na, nb = diff_blocks(core(blocks[0][1]), core(blocks[1][1]))
        if not d:
            ctx.holds(f, blocks[1][0], "the two copies of the class-limit block agree (%d statements)" % na)
        else:
            tag, ta, sa, tb, sb = d[0]
            ctx.violated(f, sb or sa or blocks[1][0], "the two copies of the class-limit block differ: %s  vs  %s" %
                         (" ; ".join(ta) or "(nothing)", " ; ".join(tb) or "(nothing)"), text="class-limit copies")
    a = prog.func("pylife.strength.fkm_nonlinear.damage_calculator:DamageCalculatorPRAM._initialize_collective_index")
    b = prog.func("pylife.strength.fkm_nonlinear.damage_calculator:DamageCalculatorPRAJ._initialize_collective_index")
    # what the two methods do to the table, not how they are written: the index they give an un-indexed table and the row count
    # they store, with private helpers expanded and temporaries removed
    from ..inline import inlined
    from ..astutil import inline_single_defs

    def facts_of(fi_):
        fx = inlined(prog, fi_)
        idx, cnt = [], []
        for st_ in walk_stmts(fx.node.body):
            if isinstance(st_, ast.Assign) and len(st_.targets) == 1:
                t_ = st_.targets[0]
                if isinstance(t_, ast.Attribute) and t_.attr == "index" and is_self_attr(t_.value, "_collective"):
                    guard = getattr(st_, "_parent", None)
                    idx.append((norm_text(inline_single_defs(fx.node, st_.value)),
                                norm_text(guard.test) if isinstance(guard, ast.If) else ""))
                if is_self_attr(t_, "_n_hystereses"):
                    cnt.append(norm_text(inline_single_defs(fx.node, st_.value)))
        return idx, cnt
    fa_, fb_ = facts_of(a), facts_of(b)
    if not fa_[0] or not fb_[0] or not fa_[1] or not fb_[1]:
        raise AnalysisError("_initialize_collective_index: index creation / hysteresis count not found in both calculators")
    if fa_ == fb_:
        ctx.holds(b, b.node, "index normalisation of the two calculators agrees (same index for an un-indexed table, same row count)")
    else:
        ctx.violated(b, b.node, "index normalisation of the two damage calculators differs: %s  vs  %s" % (fb_, fa_),
                     text="collective index")


# =========================================================================== variants

DP = "src/pylife/strength/damage_parameter.py"
DC = "src/pylife/strength/fkm_nonlinear/damage_calculator.py"
AS = "src/pylife/strength/fkm_nonlinear/assessment_nonlinear_standard.py"
LD = "src/pylife/strength/fkm_load_distribution.py"


def variants():
    out = []

    def sorted_node_maxima(tree):
        f = find_func(tree, "FKMLoadSequence.maximum_absolute_load")
        for c in calls_in(f):
            if isinstance(c.func, ast.Attribute) and c.func.attr == "groupby":
                c.keywords = [k for k in c.keywords if k.arg != "sort"]
                return True
        return False
    out.append(witness("per-node maxima from a key-sorted groupby", LD, sorted_node_maxima, "R-C10-8"))

    def carry_j(tree):
        f = find_func(tree, "DamageCalculatorPRAJ._compute_xbar_minus_2")
        for n in ast.walk(f):
            if isinstance(n, ast.Assign) and isinstance(n.targets[0], ast.Name) and n.targets[0].id == "previous_j" and \
                    isinstance(n.value, ast.BinOp):
                n.value = n.value.left
                return True
        return False
    out.append(witness("carried start is j instead of j + 1", DC, carry_j, "R-C10-7"))

    def start_unclamped(tree):
        f = find_func(tree, "DamageCalculatorPRAJ._compute_xbar_minus_2")
        for n in ast.walk(f):
            if isinstance(n, ast.For) and isinstance(n.iter, ast.Call) and n.iter.args and isinstance(n.iter.args[0], ast.Call) and \
                    call_name(n.iter.args[0]) == "max":
                n.iter.args[0] = n.iter.args[0].args[0]
                return True
        return False
    out.append(witness("outer loop starts at min(q) without clamping", DC, start_unclamped, "R-C10-7"))

    def min_over_points(tree):
        f = find_func(tree, "DamageCalculatorPRAJ._initialize_binning")
        for st in f.body:
            if isinstance(st, ast.Assign) and isinstance(st.value, ast.Attribute) and st.value.attr == "P_RAJ_D_e":
                st.value = parse_expr("np.min(self._assessment_parameters.P_RAJ_D_e)")
                return True
        return False
    out.append(witness("lower class limit = minimum over all points", DC, min_over_points, "R-C10-6"))

    def sort_limits(tree):
        f = find_func(tree, "DamageCalculatorPRAM.is_life_infinite")
        for i, st in enumerate(f.body):
            if isinstance(st, ast.If) and "reset_index" in ast.unparse(st):
                st.body = [parse_stmt("fatigue_strength_limit = fatigue_strength_limit.sort_index().reset_index(drop=True)")]
                return True
        return False
    out.append(witness("endurance limits sorted by the labels of the G series", DC, sort_limits, "R-C10-6"))

    def z_repeat(tree):
        f = find_func(tree, "DamageCalculatorPRAM._initialize_P_RAM_Z_index")
        for c in calls_in(f):
            if call_name(c) == "pd.Series":
                for k in c.keywords:
                    if k.arg == "data":
                        k.value = parse_expr("np.repeat(self._P_RAM_Z.to_numpy(), n_hystereses)")
                        return True
        return False
    out.append(witness("per-point knee values repeated point-major", DC, z_repeat, "R-C10-4"))

    def z_tile(tree):
        f = find_func(tree, "DamageCalculatorPRAM._initialize_P_RAM_Z_index")
        for c in calls_in(f):
            if call_name(c) == "pd.Series":
                for k in c.keywords:
                    if k.arg == "data":
                        k.value = parse_expr("np.tile(self._P_RAM_Z.to_numpy(), n_hystereses)")
                        return True
        return False
    out.append(twin("per-point knee values tiled with np.tile", DC, z_tile))

    def early_bound_run2(tree):
        f = find_func(tree, "DamageCalculatorPRAM.lifetime_n_cycles")
        for n in ast.walk(f):
            if isinstance(n, ast.Compare) and is_self_attr(n.comparators[0], "_n_hystereses"):
                n.comparators[0].attr = "_n_hystereses_run_2"
                return True
        return False
    out.append(witness("early-failure bound is the pass-2 count", DC, early_bound_run2, "R-C10-5"))

    def ungroup_one(tree):
        f = find_func(tree, "P_RAJ._compute_crack_opening_loop")
        for c in calls_in(f, attr="max"):
            if isinstance(c.func.value, ast.Call) and isinstance(c.func.value.func, ast.Attribute) and \
                    c.func.value.func.attr == "groupby":
                c.func.value = c.func.value.func.value
                return True
        return False
    out.append(witness("class maximum over the whole batch (one copy)", DP, ungroup_one, "R-C10-1"))

    def new_max(tree):
        f = find_func(tree, "DamageCalculatorPRAJ._initialize_binning")
        f.body.insert(1, parse_stmt("upper = self._collective.P_RAJ.max()"))
        return True
    out.append(witness("new un-grouped P_RAJ.max()", DC, new_max, "R-C10-1"))

    def pram_max(tree):
        f = find_func(tree, "DamageCalculatorPRAM.P_RAM_max")
        for c in calls_in(f, attr="max"):
            c.func.value = c.func.value.func.value
            return True
        return False
    out.append(witness("P_RAM_max without groupby", DC, pram_max, "R-C10-1"))

    def dsum(tree):
        f = find_func(tree, "DamageCalculatorPRAM.lifetime_n_times_load_sequence")
        for c in calls_in(f, attr="sum"):
            c.func.value = c.func.value.func.value
            return True
        return False
    out.append(witness("first-run damage summed over all points", DC, dsum, "R-C10-1"))

    def group_reduce(tree):
        f = find_func(tree, "P_RAJ._compute_crack_opening_loop")
        loop = [s for s in f.body if isinstance(s, ast.For)][0]
        loop.body.insert(1, parse_stmt("eps_ref = group.epsilon_max.max()"))
        return True
    out.append(witness("reduction over the per-hysteresis group (across points)", DP, group_reduce, "R-C10-1"))

    def np_any(tree):
        f = find_func(tree, "DamageCalculatorPRAJ._initialize_binning")
        f.body.insert(1, parse_stmt("if np.any(self._collective.P_RAJ > 1e3):\n    pass"))
        return True
    out.append(witness("np.any over the collective steering control flow", DC, np_any, "R-C10-1"))

    def opt_default(tree):
        f = find_func(tree, "_get_maximum_absolute_load")
        for c in calls_in(f, attr="maximum_absolute_load"):
            c.keywords = []
            return True
        return False
    out.append(witness("per-point option not forwarded", AS, opt_default, "R-C10-2"))

    def binned_float(tree):
        f = find_func(tree, "_compute_hcm_RAJ")
        for c in calls_in(f):
            if (call_name(c) or "").endswith("Binned"):
                c.args[1] = parse_expr("float(np.max(maximum_absolute_load))")
                return True
        return False
    out.append(witness("Binned(..., float(max)) drops the per-point series", AS, binned_float, "R-C10-2"))

    def other_source(tree):
        f = find_func(tree, "_compute_lifetimes_P_RAM")
        for c in calls_in(f, name="_compute_hcm_RAM"):
            c.args[2] = parse_expr("scaled_load_sequence.abs().max()")
            return True
        return False
    out.append(witness("P_RAM path recomputes a batch-wide maximum", AS, other_source, "R-C10-2"))

    def copy_diverges(tree):
        f = find_func(tree, "P_RAJ._compute_crack_opening_loop")
        hits = [s for s in ast.walk(f) if isinstance(s, ast.Assign) and isinstance(s.targets[0], ast.Name)
                and s.targets[0].id == "delta_stress" and isinstance(s.value, ast.BinOp)]
        if len(hits) < 2:
            return False
        hits[-1].value.left = ast.Constant(1)
        return True
    out.append(witness("second copy uses delta_stress = 1*max", DP, copy_diverges, "R-C10-3"))

    def index_copy(tree):
        f = find_func(tree, "DamageCalculatorPRAJ._initialize_collective_index")
        for n in ast.walk(f):
            if isinstance(n, ast.List) and [const_value(x) for x in n.elts] == [0]:
                n.elts = [ast.Constant(1)]
                return True
        return False
    out.append(witness("P_RAJ calculator numbers the single point 1", DC, index_copy, "R-C10-3"))

    # twins
    def level_kw(tree):
        f = find_func(tree, "DamageCalculatorPRAM.P_RAM_max")
        for c in calls_in(f, attr="groupby"):
            c.keywords = [ast.keyword(arg="level", value=c.args[0])]
            c.args = []
            return True
        return False
    out.append(twin("groupby(level='assessment_point_index')", DC, level_kw))

    def rename_loc(tree):
        f = find_func(tree, "P_RAJ._compute_crack_opening_loop")
        for n in ast.walk(f):
            if isinstance(n, ast.Name) and n.id == "max_abs_S_max":
                n.id = "smax"
        return True
    out.append(twin("rename a local in both copies", DP, rename_loc))

    def assert_reduce(tree):
        f = find_func(tree, "DamageCalculatorPRAJ._initialize_binning")
        f.body.insert(1, parse_stmt("assert (self._collective.P_RAJ >= 0).all()"))
        return True
    out.append(twin("un-grouped reduction inside an assert", DC, assert_reduce))
    return out
