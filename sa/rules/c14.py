"""C14 — load collectives and histograms: consistency identities and write sets."""
from __future__ import annotations

import ast

from ..astutil import (call_name, calls_in, const_value, find_func, is_self_attr, names_in, parse_expr, parse_stmt,
                       replace_node, subst_names)
from ..cfg import CFG
from ..dataflow import inline_env
from ..frontend import AnalysisError, walk_function
from ..nf import RF, Translator, NFUnsupported, to_nf
from ..report import norm_text
from ..witness import witness, twin

LEVEL = "other"
LC = "pylife.stress.collective.load_collective:LoadCollective"
LH = "pylife.stress.collective.load_histogram"
AB = "pylife.stress.collective.abstract_load_collective:AbstractLoadCollective"
EXPLANATION = (
    "Static decision of the consistency and write-set clauses of C14. R-C14-1: the property bodies of LoadCollective, "
    "LoadHistogram (both matrix layouts) and the abstract defaults are translated from their syntax trees into piecewise "
    "normal forms over the symbols from/to (resp. range/mean), with an order split on from <= to / from > to for abs, max and "
    "min; discharged identities: upper - lower == 2*amplitude, (upper + lower)/2 == meanstress, R == lower/upper, the "
    "from/to histogram layout agrees with the collective, the range/mean layout gives amplitude == range/2 and meanstress == "
    "mean, and range/mean input is converted to from/to such that amplitude == range/2 and meanstress == mean. R-C14-2: "
    "write-set analysis of scale/shift - the collective rewrites exactly the columns from/to from those same columns "
    "(multiply resp. add), the histogram passes the cycle values through unchanged and rebuilds only the load interval "
    "levels (shift leaves the range level alone). Not decided: histogram and re-binning conservation (numpy.histogram "
    "semantics, value-dependent overlap arithmetic).")
EXPLANATION += (" R-C14-3: histogram combination aggregates the concatenated histograms per class with the requested method; the overlap share telescopes on every ordering of the interval bounds. R-C14-4: the range/mean histogram is fed with 2*amplitude and meanstress on both orderings of from/to, the range histogram counts 2*amplitude of the same collective, and re-binning selects each level's binning by the level's name.")
EXPLANATION += (' R-C14-5: the histogram utilities (re-binning, combination) apply no constant positional access or order-sensitive operation to the source histogram or its index (order-class analysis), so the result does not depend on the order in which the source classes are listed.')
EXPLANATION += (" R-C14-6: np.histogram / np.histogram2d in LoadCollective.range_histogram and .histogram are called with weights derived from the collective's cycles.")
EXPLANATION += (" R-C14-7 (memo rule): no caching decorator or unreset memo attribute in the collective / histogram accessor classes, including writes by the owner object into its implementation object (use_class_left/right set _impl._class_location). R-C14-8: the class counts returned by np.histogram / np.histogram2d reach the returned series without integer coercion or rounding (astype(int...), int(), floor/round, //, dtype=int).")
EXPLANATION += (" R-C14-9: the validity tests of a binning do not use is_monotonic_decreasing as a stand-in for 'not increasing' (pandas reports an index of one class as both), so single-class target binnings are accepted.")
EXPLANATION += (' R-C14-10: no absolute tolerance on loads, class widths, overlaps or cycle counts in the collective and histogram modules (np.isclose / allclose with an absolute part, rounding to fixed digits, comparison with or addition of a small fixed number); zero instances expected, built-in example with one instance of each kind.')
EXPLANATION += (' R-C14-11 (shared with R-C13-9): the two results of a broadcast in scale / shift stay paired - neither is re-ordered on its own before they are combined row by row.')
EXPLANATION += (' R-C14-12: class edges reach np.histogram2d as an explicit pair of edge arrays; a caller\'s sequence handed over as it is would be read as a pair of class counts when it has two entries (built-in example).')
EXPLANATION += (" R-C14-13: each axis of the range/mean histogram is labelled with the class edges np.histogram2d returned for that axis (no edge array thrown away, level i of MultiIndex.from_product built from edge array i). R-C14-14: an axis / level argument naming one index level is not used as the right operand of `in` / `not in` unless it was wrapped into a list first (substring test for a string).")
ASSUMPTIONS = ["DataFrame.max(axis=1)/min(axis=1) over the two columns is the row-wise max/min", "range >= 0",
               "pandas reports an index of a single element as is_monotonic_increasing and is_monotonic_decreasing"]


class PropNF:
    """Closed normal form of a property of the collective classes, in the symbols given by ``leaf``."""

    def __init__(self, prog, order_case):
        self.prog = prog
        self.case = order_case    # 'le' (fr <= to) or 'gt'
        self.depth = 0

    def order(self, a, b):
        d = a - b
        # decide the sign of d under the case assumption, d must be c*(to-fr) or constant
        s = _sign_under(d, self.case)
        return s

    def prop(self, ci, name, leaf):
        fi = self.prog.lookup_method(ci, name)
        if fi is None:
            raise AnalysisError("%s.%s not found" % (ci.name, name))
        self.depth += 1
        if self.depth > 6:
            raise AnalysisError("property chain too deep")
        try:
            ret = [s for s in fi.node.body if isinstance(s, ast.Return)]
            if len(ret) != 1:
                raise NFUnsupported("%s has %d returns" % (fi.key, len(ret)))
            cfg = CFG(fi.node)
            env = inline_env(cfg, ret[0])
            env.pop("__ambiguous__")
            R = subst_names(ret[0].value, env)
            return self.tr(R, ci, leaf)
        finally:
            self.depth -= 1

    def tr(self, e, ci, leaf):
        me = self

        def atom(x):
            l = leaf(x)
            if l is not None:
                return l
            if is_self_attr(x) and x.attr in ("amplitude", "meanstress", "upper", "lower", "R", "cycles"):
                return me.prop(ci, x.attr, leaf)
            return None

        def strip(x):
            while True:
                if isinstance(x, ast.Call) and call_name(x) in ("pd.Series", "pd.DataFrame") and x.args:
                    x = x.args[0]
                elif isinstance(x, ast.Call) and isinstance(x.func, ast.Attribute) and x.func.attr in ("fillna", "copy", "to_numpy", "rename", "rename_axis", "astype"):
                    x = x.func.value                    # value-preserving methods (a name or dtype is not a value)
                elif isinstance(x, ast.Attribute) and x.attr == "values":
                    x = x.value
                else:
                    return x

        def call(fn, c, tr):
            f = c.func
            if isinstance(f, ast.Attribute) and f.attr in ("max", "min") and any(k.arg == "axis" and const_value(k.value) == 1
                                                                                   for k in c.keywords):
                base = f.value
                if isinstance(base, ast.Subscript) and isinstance(base.slice, ast.Tuple) and isinstance(base.slice.elts[1], ast.List):
                    cols = [const_value(x) for x in base.slice.elts[1].elts]
                elif isinstance(base, ast.Subscript) and isinstance(base.slice, ast.List):
                    cols = [const_value(x) for x in base.slice.elts]
                else:
                    return None
                vals = [tr.tr(ast.Subscript(value=ast.Attribute(value=ast.Name(id="self", ctx=ast.Load()), attr="_obj",
                                                                ctx=ast.Load()), slice=ast.Constant(cn), ctx=ast.Load()))
                        for cn in cols]
                out = vals[0]
                for v in vals[1:]:
                    c_ = tr.compare(out, v)
                    if f.attr == "max":
                        out = out if c_ >= 0 else v
                    else:
                        out = out if c_ <= 0 else v
                return out
            return None
        t = Translator(atom=atom, strip=strip, order=self.order, positive=lambda x: _sign_under(x, me.case), call=call)
        return t.tr(e)


def _sign_under(d: RF, case):
    """sign of d assuming fr < to ('le': fr <= to) or fr > to; d must be a multiple of (to - fr) or range-like positive"""
    if d.is_zero():
        return 0
    c = d.as_const()
    if c is not None:
        return 1 if c > 0 else -1
    base = RF.sym("to") - RF.sym("fr")
    dc = d.den.as_const()
    if dc is not None:
        k = d.num.terms.get((("to", 1),))
        if k is not None:
            k = k / dc
            if d == base * RF.const(k):
                s = 1 if k > 0 else -1
                return s if case == "le" else -s
    # positive symbols (range)
    if d.den.as_const() is not None:
        signs = {1 if v > 0 else -1 for v in d.num.terms.values()}
        atoms = d.atoms()
        if atoms <= {"range", "rng"} and len(signs) == 1:
            return signs.pop() * (1 if d.den.as_const() > 0 else -1)
    return None


def _leaf_fromto(x):
    if isinstance(x, ast.Subscript) and is_self_attr(x.value, "_obj") and const_value(x.slice) in ("from", "to"):
        return "fr" if const_value(x.slice) == "from" else "to"
    return None


def run(ctx):
    ctx.attempt(_r1)
    ctx.attempt(_r2)
    ctx.attempt(_r3)
    ctx.attempt(_r4)
    ctx.attempt(_r5)
    ctx.attempt(_r6)
    ctx.attempt(_r7)
    ctx.attempt(_r8)
    ctx.attempt(_r9)
    ctx.attempt(_r10)
    ctx.attempt(_r11)
    ctx.attempt(_r12)
    ctx.attempt(_r13)
    ctx.attempt(_r14)


def ambiguous_2d_bins(outer_fn):
    """np.histogram2d(x, y, B): numpy reads a B of exactly two numbers as the pair of class COUNTS of the two axes.  If B is a
    bin specification taken over from the caller, the two edges of a single class are such a pair.  Unambiguous: a literal pair
    `[ex, ey]`, or a name that is re-bound to such a pair (for the non-scalar case) in the function or an enclosing one."""
    out = []
    for c in ast.walk(outer_fn):
        if isinstance(c, ast.Call) and (call_name(c) or "").endswith("histogram2d"):
            b = c.args[2] if len(c.args) > 2 else next((k.value for k in c.keywords if k.arg == "bins"), None)
            if b is None:
                continue
            if isinstance(b, (ast.List, ast.Tuple)) and len(b.elts) == 2:
                continue
            if isinstance(b, ast.Name):
                pairs = [st for st in ast.walk(outer_fn) if isinstance(st, ast.Assign) and
                         any(isinstance(t, ast.Name) and t.id == b.id for t in st.targets) and
                         isinstance(st.value, (ast.List, ast.Tuple)) and len(st.value.elts) == 2]
                if pairs:
                    continue
            out.append((c, norm_text(b)))
    return out


def axis_edge_mismatches(fn_node):
    """np.histogram2d / np.histogramdd return the counts and ONE edge array per axis.  [(node, message)] where an edge array is
    thrown away, or the class index of axis i of the result (pd.MultiIndex.from_product([...])) is not built from edge array i"""
    from ..astutil import inline_single_defs
    out = []
    for st in ast.walk(fn_node):
        if not (isinstance(st, ast.Assign) and isinstance(st.value, ast.Call) and (call_name(st.value) or "").endswith("histogram2d") and
                len(st.targets) == 1 and isinstance(st.targets[0], ast.Tuple) and len(st.targets[0].elts) == 3):
            continue
        edges = [t.id if isinstance(t, ast.Name) else None for t in st.targets[0].elts[1:]]
        scope = st
        while not isinstance(scope, ast.FunctionDef):
            scope = scope._parent
        for i, e in enumerate(edges):
            used = e is not None and any(isinstance(n, ast.Name) and n.id == e and isinstance(n.ctx, ast.Load) for n in ast.walk(scope))
            if not used:
                out.append((st, "the class edges numpy returns for axis %d are not used" % i))
        for c in ast.walk(scope):
            if isinstance(c, ast.Call) and (call_name(c) or "").endswith("MultiIndex.from_product") and c.args and \
                    isinstance(c.args[0], (ast.List, ast.Tuple)) and len(c.args[0].elts) == 2:
                for i, el in enumerate(c.args[0].elts):
                    full = inline_single_defs(scope, el, depth=4)
                    names = {n.id for n in ast.walk(full) if isinstance(n, ast.Name)}
                    if edges[i] is not None and edges[i] not in names:
                        out.append((c, "level %d of the result is labelled with %s, not with the edges returned for axis %d (%s)"
                                    % (i, norm_text(el)[:40], i, edges[i])))
                    other = edges[1 - i]
                    if other is not None and other in names and edges[i] not in names:
                        pass
    seen, res = set(), []
    for n, m in out:
        if (id(n), m) not in seen:
            seen.add((id(n), m))
            res.append((n, m))
    return res


def _r13(ctx):
    """R-C14-13: the range/mean histogram labels each axis with the class edges numpy returned for THAT axis.  With a class count
    instead of explicit edges the two axes get different edges (ranges and means span different intervals); labelling both
    levels with the range edges keeps every count but puts it into a mean class the cycles do not lie in."""
    prog = ctx.prog
    ctx.rule("R-C14-13", floor=1, what="each axis of the range/mean histogram is labelled with the edges returned for that axis")
    ex = ast.parse("def f(g, bins):\n    h, e, _ = np.histogram2d(g.a, g.b, bins)\n    k = pd.IntervalIndex.from_breaks(e)\n"
                   "    return pd.Series(h.ravel(), index=pd.MultiIndex.from_product([k, k]))\n")
    from ..frontend import set_parents
    if len(axis_edge_mismatches(set_parents(ex).body[0])) != 2:
        raise AnalysisError("R-C14-13 built-in example not matched")
    n = 0
    for key, fi in sorted(prog.functions.items()):
        if not fi.module.name.startswith("pylife.stress.collective") or fi.parent is not None:
            continue
        if not any((call_name(c_) or "").endswith("histogram2d") for c_ in ast.walk(fi.node) if isinstance(c_, ast.Call)):
            continue
        n += 1
        bad = axis_edge_mismatches(fi.node)
        for node, msg in bad:
            ctx.violated(fi, node, "%s: %s - the counts stay, but they are labelled with classes the cycles do not lie in (upper, lower, R "
                         "of the histogram follow the labels)" % (fi.name, msg), text="axis edges in %s: %s" % (fi.name, msg[:50]))
        if not bad:
            ctx.holds(fi, fi.node, "%s: both edge arrays of np.histogram2d label their own axis" % fi.name)
    if n < 1:
        raise AnalysisError("no two-dimensional histogram found in the collective modules")


def label_membership_in_string(fn_node, params):
    """`x in p` / `x not in p` where p is a parameter that the same function (or its docstring default) treats as ONE label: for a
    string p this is a substring test.  Reported when p is not wrapped ([p], (p,), {p}) and nothing normalises p to a list first:
    [(node, param)]"""
    out = []
    normalised = set()
    for st in ast.walk(fn_node):
        if isinstance(st, ast.Assign) and len(st.targets) == 1 and isinstance(st.targets[0], ast.Name) and st.targets[0].id in params:
            v = st.value
            if isinstance(v, (ast.List, ast.Tuple, ast.Set)) or (isinstance(v, ast.Call) and (call_name(v) or "") in
                                                                    ("list", "tuple", "set", "np.atleast_1d", "pd.Index", "np.ravel")) or \
                    isinstance(v, ast.IfExp):
                normalised.add(st.targets[0].id)
    for n in ast.walk(fn_node):
        if isinstance(n, ast.Compare) and len(n.ops) == 1 and isinstance(n.ops[0], (ast.In, ast.NotIn)):
            r = n.comparators[0]
            if isinstance(r, ast.Name) and r.id in params and r.id not in normalised:
                out.append((n, r.id))
    return out


def _r14(ctx):
    """R-C14-14: an `axis` / level argument that names ONE index level is compared with the level names as a label, never by
    `name in axis`: for a string that is a substring test - a level called 'block' disappears from the grouping when the axis
    is 'block_cycle', and the histograms of all blocks are merged."""
    prog = ctx.prog
    ctx.rule("R-C14-14", floor=1, what="index level names are not tested for membership in a bare (string) axis argument")
    from ..frontend import set_parents
    ex = set_parents(ast.parse("def f(self, axis):\n    return [lv for lv in self._obj.index.names if lv not in axis], [lv for lv in self._obj.index.names if lv not in [axis]]\n")).body[0]
    if len(label_membership_in_string(ex, {"axis"})) != 1:
        raise AnalysisError("R-C14-14 built-in example not matched")
    n = 0
    for key, fi in sorted(prog.functions.items()):
        if not fi.module.name.startswith("pylife.stress.collective") or fi.parent is not None:
            continue
        params = {p for p in fi.params if p in ("axis", "level", "levels", "droplevel", "name")}
        if not params:
            continue
        n += 1
        bad = label_membership_in_string(fi.node, params)
        for node, p in bad:
            ctx.violated(fi, node, "%s: `%s` tests a level name for membership in the argument `%s` itself; `%s` is documented as one "
                         "level name, and for a string `in` is a SUBSTRING test: every level whose name is contained in the axis name "
                         "drops out of the grouping" % (fi.name, norm_text(node), p, p), text="membership in bare %s in %s" % (p, fi.name))
        if not bad:
            ctx.holds(fi, fi.node, "%s: %s compared as a label" % (fi.name, ", ".join(sorted(params))))
    if n < 1:
        raise AnalysisError("no function with an axis / level argument found in the collective modules")


def _r12(ctx):
    """R-C14-12: every bin specification means the same for the range histogram and for the range/mean histogram.  The
    two-dimensional count hands its class edges to numpy as an explicit pair of edge arrays; a caller's sequence handed over as
    it is would be read as (number of range classes, number of mean classes) when it has exactly two entries - the edges of a
    single class."""
    prog = ctx.prog
    ctx.rule("R-C14-12", floor=1, what="class edges reach np.histogram2d as an explicit pair of edge arrays (a single class is two edges, not two counts)")
    ex = ast.parse("def f(self, bins):\n    def m(g):\n        return np.histogram2d(g.a, g.b, bins)\n    return m(self.x)\n"
                   "def g(self, bins):\n    if not np.isscalar(bins):\n        bins = [np.asarray(bins), np.asarray(bins)]\n"
                   "    def m(g):\n        return np.histogram2d(g.a, g.b, bins)\n    return m(self.x)\n")
    if len(ambiguous_2d_bins(ex.body[0])) != 1 or ambiguous_2d_bins(ex.body[1]):
        raise AnalysisError("R-C14-12 built-in example not matched")
    n = 0
    for key, fi in sorted(prog.functions.items()):
        if not fi.module.name.startswith("pylife.stress.collective") or fi.parent is not None:
            continue
        if not any((call_name(c) or "").endswith("histogram2d") for c in ast.walk(fi.node) if isinstance(c, ast.Call)):
            continue
        n += 1
        bad = ambiguous_2d_bins(fi.node)
        for c, b in bad:
            ctx.violated(fi, c, "%s: %s receives the caller's bin specification %s as it is: two class edges (one class) are read by "
                         "numpy as the class counts of the two axes, the range/mean histogram then has other classes than the range "
                         "histogram of the same specification" % (fi.name, norm_text(c)[:50], b), text="ambiguous 2d bins in " + fi.name)
        if not bad:
            ctx.holds(fi, fi.node, "%s: np.histogram2d gets an explicit pair of edge arrays" % fi.name)
    if n < 1:
        raise AnalysisError("no two-dimensional histogram found in the collective modules")


def _r11(ctx):
    """R-C14-11 (shared with R-C13-9): scale / shift combine the class edges of the broadcast histogram with the broadcast
    operand row by row; neither result of the broadcast is re-ordered on its own."""
    from .c13 import paired_results_rule
    paired_results_rule(ctx, "R-C14-11", ["pylife.stress.collective.load_collective", "pylife.stress.collective.load_histogram",
                                         "pylife.stress.collective.abstract_load_collective"])


def _r10(ctx):
    """R-C14-10: no absolute tolerance on loads, class widths, overlaps or cycle counts in the collective and histogram modules
    (shared rule `sa/tolerance.py`): re-binning, histogramming, scaling and the derived quantities are exact in the class edges and
    counts, so they give the same result for a histogram in strain and in microstrain, for absolute counts and relative frequencies."""
    from .. import tolerance
    ctx.rule("R-C14-10", floor=1, what="no absolute tolerance (isclose, rounding, small fixed thresholds / offsets) on loads, class widths or counts")
    tolerance.run_rule(ctx, ctx.prog, ["pylife.utils.histogram", "pylife.stress.collective.load_collective",
                                       "pylife.stress.collective.load_histogram", "pylife.stress.collective.abstract_load_collective"],
                       "loads, class edges / overlaps or cycle counts")


def _positive_decreasing_tests(fn_node):
    """Uses of `<x>.is_monotonic_decreasing` as evidence against "increasing": un-negated in a condition.  For an index of one
    element (or of equal elements) pandas reports BOTH is_monotonic_increasing and is_monotonic_decreasing, so such a test
    rejects every single-class binning.  -> (monotonicity tests seen, offending attribute nodes)"""
    seen, bad = 0, []
    for n in ast.walk(fn_node):
        if isinstance(n, ast.Attribute) and n.attr in ("is_monotonic_increasing", "is_monotonic_decreasing",
                                                        "is_non_overlapping_monotonic"):
            seen += 1
            if n.attr != "is_monotonic_decreasing":
                continue
            neg = False
            m = n
            while getattr(m, "_parent", None) is not None and isinstance(m._parent, (ast.UnaryOp, ast.BoolOp, ast.Attribute)):
                if isinstance(m._parent, ast.UnaryOp) and isinstance(m._parent.op, ast.Not):
                    neg = not neg
                m = m._parent
            if not neg:
                bad.append(n)
    return seen, bad


def _r9(ctx):
    """R-C14-9: the validity tests of a target binning accept a binning of one class (it is gap-free and covers): "not
    increasing" must not be tested as "decreasing"."""
    prog = ctx.prog
    ctx.rule("R-C14-9", floor=1, what="binning validity tests do not take is_monotonic_decreasing for 'not increasing' (single-class binnings)")
    import ast as _a
    from ..frontend import set_parents as _sp
    ex = _sp(_a.parse("def f(b):\n    if not b.is_non_overlapping_monotonic or b.is_monotonic_decreasing:\n        raise ValueError()\n"
                      "    if not b.is_monotonic_increasing:\n        raise ValueError()\n")).body[0]
    sn, bad = _positive_decreasing_tests(ex)
    if sn != 3 or len(bad) != 1:
        raise AnalysisError("R-C14-9 built-in example not matched")
    total = 0
    for key, fi in sorted(prog.functions.items()):
        if fi.module.name not in ("pylife.utils.histogram", "pylife.stress.collective.load_histogram",
                                  "pylife.stress.collective.load_collective") or fi.parent is not None:
            continue
        sn, bad = _positive_decreasing_tests(fi.node)
        total += sn
        for b in bad:
            st = b
            while not isinstance(st, ast.stmt):
                st = st._parent
            ctx.violated(fi, st, "%s: %s is used as 'not monotonic increasing'; an index of a single class is both increasing and "
                         "decreasing, so a gap-free, covering binning of one class is rejected" % (fi.name, norm_text(b)),
                         text="decreasing as not increasing")
        if sn and not bad:
            ctx.holds(fi, fi.node, "%s: %d monotonicity test(s), none takes 'decreasing' for 'not increasing'" % (fi.name, sn))
    if total == 0:
        raise AnalysisError("no monotonicity test of a binning found")


LOSSY_CALLS = {"int", "round", "np.floor", "np.ceil", "np.rint", "np.round", "np.around", "np.trunc", "np.fix", "math.floor",
               "math.ceil", "math.trunc", "np.int64", "np.int32", "np.intp"}
INT_TYPES = {"int", "np.int64", "np.int32", "np.int16", "np.int8", "np.intp", "np.int_", "np.uint64", "np.uint32", "'int'",
             "'int64'", "'int32'", "'i8'", "'i4'", "np.integer"}


def _lossy_sites(fn_node):
    """Integer coercions / roundings applied to values derived from the result of a np.histogram* call in fn_node
    (nested functions included)."""
    derived = set()
    for st in ast.walk(fn_node):
        if isinstance(st, ast.Assign) and isinstance(st.value, ast.Call) and (call_name(st.value) or "") in \
                ("np.histogram", "np.histogram2d", "np.histogramdd"):
            t = st.targets[0]
            first = t.elts[0] if isinstance(t, ast.Tuple) else t
            if isinstance(first, ast.Name):
                derived.add(first.id)
    changed = True
    while changed:
        changed = False
        for st in ast.walk(fn_node):
            if isinstance(st, ast.Assign) and isinstance(st.targets[0], ast.Name) and st.targets[0].id not in derived and \
                    {x.id for x in ast.walk(st.value) if isinstance(x, ast.Name)} & derived:
                derived.add(st.targets[0].id)
                changed = True
    out = []

    def uses(e):
        return bool({x.id for x in ast.walk(e) if isinstance(x, ast.Name)} & derived)
    for n in ast.walk(fn_node):
        if isinstance(n, ast.Call):
            cn = call_name(n) or ""
            if cn in LOSSY_CALLS and n.args and uses(n.args[0]):
                out.append(n)
            elif isinstance(n.func, ast.Attribute) and n.func.attr in ("round", "floor", "ceil") and uses(n.func.value):
                out.append(n)
            elif isinstance(n.func, ast.Attribute) and n.func.attr == "astype" and uses(n.func.value) and n.args and \
                    norm_text(n.args[0]) in INT_TYPES:
                out.append(n)
            elif any(k.arg == "dtype" and norm_text(k.value) in INT_TYPES for k in n.keywords) and \
                    any(uses(a) for a in n.args):
                out.append(n)
        elif isinstance(n, ast.BinOp) and isinstance(n.op, ast.FloorDiv) and uses(n.left):
            out.append(n)
    return derived, out


def _r8(ctx):
    """Weighted class counts stay what np.histogram returned: cycle counts of a collective need not be whole numbers (half
    cycles of residuals, scaled counts), so an integer coercion or rounding of the counts loses cycles and the class counts no
    longer sum to the number of cycles."""
    prog = ctx.prog
    ctx.rule("R-C14-8", floor=2, what="class counts returned by np.histogram* reach the result without integer coercion/rounding")
    ex = ast.parse("def f(g, b, w):\n    c, e = np.histogram(g, b, weights=w)\n    return pd.Series(c.astype(np.int64))\n").body[0]
    if len(_lossy_sites(ex)[1]) != 1:
        raise AnalysisError("R-C14-8 built-in example not matched")
    lc = prog.cls(LC)
    for name in ("range_histogram", "histogram"):
        f = prog.lookup_method(lc, name)
        derived, bad = _lossy_sites(f.node)
        if not derived:
            raise AnalysisError("%s: result of the histogram call not found" % name)
        for b in bad:
            ctx.violated(f, b, "%s: %s converts the weighted class counts to whole numbers: a collective with fractional cycle "
                         "counts (e.g. 0.5 per residual half cycle) loses cycles, the class counts do not sum to the number of "
                         "cycles" % (name, norm_text(b)[:80]), text="integer counts " + name)
        if not bad:
            ctx.holds(f, f.node, "%s: counts %s reach the result unrounded" % (name, "/".join(sorted(derived))))


def _r7(ctx):
    """Nothing derived from the class limits of a histogram is cached across a change of the class location
    (use_class_left / use_class_right re-configure the implementation object) or of the data."""
    from .. import memo
    prog = ctx.prog
    ctx.rule("R-C14-7", floor=1, what="no cache in the collective / histogram accessors outlives a re-configuration")
    LHM = "pylife.stress.collective.load_histogram"
    classes = [ci for key, ci in sorted(prog.classes.items()) if ci.module.name in
               (LHM, "pylife.stress.collective.load_collective", "pylife.stress.collective.abstract_load_collective")]
    if len(classes) < 5:
        raise AnalysisError("collective classes not found")
    memo.run_rule(ctx, classes=classes, modules=[LHM, "pylife.stress.collective.load_collective", "pylife.utils.histogram"],
                  what="collectives / histograms", external_state=("_obj",))   # the frame is the caller's: it may change in place


def _r6(ctx):
    """A collective may carry a cycles column (each member counts that many cycles).  Every histogramming call of the
    collective (np.histogram / np.histogram2d) must therefore weight its samples with the collective's cycles; an unweighted
    call counts rows, not cycles."""
    prog = ctx.prog
    ctx.rule("R-C14-6", floor=2, what="histograms of a collective are weighted with its cycles")
    lc = prog.cls(LC)
    n = 0
    for name in ("range_histogram", "histogram"):
        f = prog.lookup_method(lc, name)
        reads_cycles = any((is_self_attr(x, "cycles")) or (isinstance(x, ast.Subscript) and is_self_attr(x.value, "_obj") and
                                                           const_value(x.slice) == "cycles") for x in ast.walk(f.node))
        for c in calls_in(f.node):
            if (call_name(c) or "") in ("np.histogram", "np.histogram2d", "np.histogramdd"):
                n += 1
                w = next((k.value for k in c.keywords if k.arg == "weights"), None)
                if w is not None and reads_cycles and not (isinstance(w, ast.Constant) and w.value is None):
                    ctx.holds(f, c, "%s: %s is weighted (weights=%s) and the method reads the collective's cycles" %
                              (name, call_name(c), norm_text(w)))
                else:
                    ctx.violated(f, c, "%s: %s counts the rows of the collective, not its cycles: a member with cycles = 10 is "
                                 "counted once (no weights= derived from the cycles column)" % (name, norm_text(c)[:70]),
                                 text="unweighted " + name)
    if n == 0:
        raise AnalysisError("no histogram call found in LoadCollective")


def _r5(ctx):
    """Re-binning and combining do not depend on the order in which the classes of the source histogram are listed: no
    constant positional access (first/last element, head/tail, cumulative operations) on the histogram or its index.  The
    extent of a histogram is min(left) .. max(right), not left[0] .. right[-1]."""
    from ..orders import Orders
    prog = ctx.prog
    ctx.rule("R-C14-5", floor=1, what="histogram utilities are independent of the order of the source classes (no positional access)")
    names = ("histogram", "index")

    def seed(fi):
        env = {q: "ROW" for q in fi.params if q in names}
        if fi.parent is not None:
            env.update({q: "ROW" for q in fi.parent.params if q in names})
        return env
    o = Orders(prog, {"pylife.utils.histogram"}, seed_env=seed)
    n = o.run()
    seen = set()
    for fi, st, node, msg in o.sinks:
        k = (fi.key, norm_text(node))
        if k in seen:
            continue
        seen.add(k)
        ctx.violated(fi, st, "%s: %s - the source histogram may list its classes in any order (e.g. after combine_histogram), so "
                     "the result depends on that order" % (fi.name, msg), text=norm_text(node))
    if not o.sinks:
        ctx.holds("pylife.utils.histogram", None, "%d functions of the histogram utilities: no positional access to the source "
                  "histogram or its index" % n, {"functions": n})
    # positive example
    from ..frontend import Program as _P, Module as _M, set_parents as _sp
    import ast as _a
    src = ("def f(index, n):\n    a = index.left[0]\n    b = index.left.min()\n    return a, b\n")
    tree = _sp(_a.parse(src))
    p2 = object.__new__(_P)
    p2.root, p2.overrides, p2._base = "", {}, None
    p2.modules = {"ex": _M("ex", "ex.py", src, tree, "0")}
    p2.modules["ex"].pysource = src
    p2.functions, p2.classes, p2.accessors, p2._subclasses = {}, {}, {}, {}
    p2._index()
    o2 = Orders(p2, {"ex"}, seed_env=lambda fi: {"index": "ROW"})
    o2.run()
    if len(o2.sinks) != 1:
        raise AnalysisError("order-class positive example failed: %d sinks" % len(o2.sinks))
    ctx.holds("selftest:positive-example", None, "positional access index.left[0] is reported, index.left.min() is not")


def _r4(ctx):
    """Histogram inputs: range == 2*amplitude and mean == meanstress on every ordering of from/to; the range histogram and
    the range/mean histogram are fed from the same quantities; level binnings are selected by name, not by position."""
    prog = ctx.prog
    ctx.rule("R-C14-4", floor=4, what="histogram inputs are 2*amplitude and meanstress; re-binning picks each level's binning by name")
    lc = prog.cls(LC)
    h = prog.lookup_method(lc, "histogram")
    d = [n for n in ast.walk(h.node) if isinstance(n, ast.Dict) and {"range", "meanstress"} <= {const_value(k) for k in n.keys}]
    if len(d) != 1:
        raise AnalysisError("LoadCollective.histogram: range/meanstress frame not found")
    cols = {const_value(k): v for k, v in zip(d[0].keys, d[0].values)}
    for case in ("le", "gt"):
        p = PropNF(prog, case)
        try:
            amp = p.prop(lc, "amplitude", _leaf_fromto)
            mean = p.prop(lc, "meanstress", _leaf_fromto)
            rng = p.tr(cols["range"], lc, _leaf_fromto)
            mn = p.tr(cols["meanstress"], lc, _leaf_fromto)
        except NFUnsupported as e:
            raise AnalysisError("histogram inputs outside the fragment: %s" % e)
        cs = "from<=to" if case == "le" else "from>to"
        if rng == RF.const(2) * amp and mn == mean:
            ctx.holds(h, d[0], "range/mean histogram input: range == 2*amplitude, mean == meanstress [%s]" % cs)
        else:
            ctx.violated(h, d[0], "range/mean histogram is fed with range = %r, mean = %r; expected 2*amplitude = %r and meanstress = %r "
                         "[%s]: hanging cycles would be booked into wrong classes" % (rng, mn, RF.const(2) * amp, mean, cs),
                         text="histogram inputs " + case)
    rh = prog.lookup_method(lc, "range_histogram")
    mh = [n for n in ast.walk(rh.node) if isinstance(n, ast.FunctionDef) and n is not rh.node]
    ok = False
    if mh:
        g = mh[0]
        hc = [c for c in calls_in(g) if call_name(c) == "np.histogram"]
        arg = g.args.args[0].arg
        try:
            ok = len(hc) == 1 and to_nf(hc[0].args[0], atom=lambda e: "A" if isinstance(e, ast.Name) and e.id == arg else None) \
                == to_nf(parse_expr("2*A"))
        except NFUnsupported:
            ok = False
        srcs = [c for c in calls_in(rh.node) if isinstance(c.func, ast.Name) and c.func.id == g.name] + \
            [c for c in calls_in(rh.node) if isinstance(c.func, ast.Attribute) and c.func.attr == "apply" and
             any(isinstance(a, ast.Name) and a.id == g.name for a in c.args)]
        feeds = []
        for c in srcs:
            a = c.args[0] if isinstance(c.func, ast.Name) else c.func.value
            feeds.append(any(is_self_attr(n, "amplitude") for n in ast.walk(a)))
        ok = ok and feeds and all(feeds)
    if ok:
        ctx.holds(rh, rh.node, "range histogram counts 2*amplitude of the same collective")
    else:
        ctx.violated(rh, rh.node, "range histogram is not computed from 2*amplitude", text="range_histogram input")
    # level selection by name in rebin_histogram
    from ..inline import inlined as _inl
    f = _inl(prog, prog.func("pylife.utils.histogram:rebin_histogram"))       # the selection may sit in a small closure
    body_only = [st_ for st_ in f.node.body if not isinstance(st_, (ast.FunctionDef, ast.ClassDef))]
    sel = [n for st_ in body_only for n in ast.walk(st_) if isinstance(n, ast.Subscript) and isinstance(n.value, ast.Attribute) and
           n.value.attr == "levels" and isinstance(n.ctx, ast.Load)]
    if len(sel) != 1:
        raise AnalysisError("rebin_histogram: selection of the level binning not found")
    root = norm_text(sel[0].value.value)
    idx = sel[0].slice
    by_name = isinstance(idx, ast.Call) and isinstance(idx.func, ast.Attribute) and idx.func.attr == "index" and \
        norm_text(idx.func.value) == root + ".names" and len(idx.args) == 1 and isinstance(idx.args[0], ast.Name)
    loop = [n for n in ast.walk(f.node) if isinstance(n, ast.For)]
    name_var = idx.args[0].id if by_name else None
    iter_ok = loop and ((isinstance(loop[0].target, ast.Name) and loop[0].target.id == name_var) or
                        (isinstance(loop[0].target, ast.Tuple) and any(isinstance(t, ast.Name) and t.id == name_var for t in loop[0].target.elts)))
    if by_name and iter_ok:
        ctx.holds(f, sel[0], "binning of a level = %s.levels[%s.names.index(level name)]: selected by name" % (root, root))
    elif by_name:
        raise AnalysisError("rebin_histogram: the name the level binning is looked up with is not the loop's level name")
    else:
        ctx.violated(f, sel[0], "the binning of a histogram level is selected as %s, i.e. by a position that belongs to another "
                     "object, not by the level's name: histogram and binning may list their levels in different orders" % norm_text(sel[0]))


def _identities(ctx, fi_of, vals, label, case):
    amp, mean, up, lo, R = vals
    two = RF.const(2)
    checks = [("upper - lower == 2*amplitude", up - lo, two * amp, "upper"),
              ("(upper + lower)/2 == meanstress", (up + lo) / two, mean, "lower")]
    for name, a, b, where in checks:
        fi = fi_of(where)
        if a == b:
            ctx.holds(fi, fi.node, "%s [%s]: %s" % (label, case, name))
        else:
            ctx.violated(fi, fi.node, "%s [%s]: %s fails: %r vs %r" % (label, case, name, a, b), text="%s %s %s" % (label, case, name))
    fi = fi_of("R")
    if R is not None:
        if R * up == lo:
            ctx.holds(fi, fi.node, "%s [%s]: R == lower/upper" % (label, case))
        else:
            ctx.violated(fi, fi.node, "%s [%s]: R = %r is not lower/upper = %r / %r" % (label, case, R, lo, up), text="%s %s R" % (label, case))


def _r1(ctx):
    prog = ctx.prog
    ctx.rule("R-C14-1", floor=18, what="upper-lower=2 amplitude, (upper+lower)/2=mean, R=lower/upper; layouts agree; range/mean conversion")
    lc = prog.cls(LC)
    lh = prog.cls(LH + ":LoadHistogram")
    ab = prog.cls(AB)
    ftm = prog.cls(LH + ":_FromToMatrix")
    rmm = prog.cls(LH + ":_RangeMeanMatrix")
    coll = {}
    for case in ("le", "gt"):
        p = PropNF(prog, case)
        try:
            vals = [p.prop(lc, n, _leaf_fromto) for n in ("amplitude", "meanstress", "upper", "lower", "R")]
        except NFUnsupported as e:
            raise AnalysisError("LoadCollective properties outside the fragment: %s" % e)
        coll[case] = vals
        _identities(ctx, lambda n: prog.lookup_method(lc, n), vals, "LoadCollective", "from<=to" if case == "le" else "from>to")
    # abstract defaults and LoadHistogram: upper/lower in terms of symbols mean / amp
    for ci, label in ((ab, "AbstractLoadCollective"), (lh, "LoadHistogram")):
        def leaf(x):
            if is_self_attr(x, "meanstress"):
                return "mean"
            if is_self_attr(x, "amplitude"):
                return "amp"
            return None
        p = PropNF(prog, "le")
        try:
            up = p.prop(ci, "upper", leaf)
            lo = p.prop(ci, "lower", leaf)
            R = None
            if "R" in ci.methods:
                def leafR(x):
                    if is_self_attr(x, "upper"):
                        return "U"
                    if is_self_attr(x, "lower"):
                        return "L"
                    return None
                Rn = p.prop(ci, "R", leafR)
                R = Rn
        except NFUnsupported as e:
            raise AnalysisError("%s properties outside the fragment: %s" % (label, e))
        vals = [RF.sym("amp"), RF.sym("mean"), up, lo, None]
        _identities(ctx, lambda n, ci=ci: prog.lookup_method(ci, n) or prog.lookup_method(ab, n), vals, label, "symbolic")
        if R is not None:
            fi = prog.lookup_method(ci, "R")
            if R == RF.sym("L") / RF.sym("U"):
                ctx.holds(fi, fi.node, "%s: R == lower/upper" % label)
            else:
                ctx.violated(fi, fi.node, "%s: R = %r is not lower/upper" % (label, R), text=label + " R")
    # histogram layouts
    amp_h = prog.lookup_method(lh, "amplitude")
    mean_h = prog.lookup_method(lh, "meanstress")

    def impl_leaf(ci_impl):
        def leaf(x):
            return None
        return leaf
    for case in ("le", "gt"):
        # _FromToMatrix: fr, to come from _from_tos()
        def leaf_ft(x):
            if isinstance(x, ast.Subscript) and isinstance(x.value, ast.Call) and isinstance(x.value.func, ast.Attribute) \
                    and x.value.func.attr == "_from_tos":
                return ["fr", "to"][const_value(x.slice)]
            return None
        p = PropNF(prog, case)
        try:
            rng = p.prop(ftm, "amplitude", leaf_ft)
            mean = p.prop(ftm, "meanstress", leaf_ft)

            def leaf_h(x):
                if isinstance(x, ast.Call) and isinstance(x.func, ast.Attribute) and is_self_attr(x.func.value, "_impl"):
                    return {"amplitude": rng, "meanstress": mean}.get(x.func.attr)
                return None
            a = p.prop(lh, "amplitude", leaf_h)
            m = p.prop(lh, "meanstress", leaf_h)
        except NFUnsupported as e:
            raise AnalysisError("from/to histogram layout outside the fragment: %s" % e)
        cs = "from<=to" if case == "le" else "from>to"
        if a == coll[case][0]:
            ctx.holds(amp_h, amp_h.node, "from/to histogram amplitude == collective amplitude [%s]" % cs)
        else:
            ctx.violated(amp_h, amp_h.node, "from/to histogram amplitude %r differs from the collective's %r [%s]" % (a, coll[case][0], cs),
                         text="hist amp " + case)
        if m == coll[case][1]:
            ctx.holds(mean_h, mean_h.node, "from/to histogram meanstress == collective meanstress [%s]" % cs)
        else:
            ctx.violated(mean_h, mean_h.node, "from/to histogram meanstress %r differs from the collective's %r [%s]" % (m, coll[case][1], cs),
                         text="hist mean " + case)
    # _RangeMeanMatrix

    def leaf_rm(x):
        if isinstance(x, ast.Call) and call_name(x) == "getattr" and len(x.args) == 2:
            lv = [c for c in calls_in(x.args[0]) if isinstance(c.func, ast.Attribute) and c.func.attr == "get_level_values"]
            if lv and const_value(lv[0].args[0]) in ("range", "mean"):
                return const_value(lv[0].args[0])
        return None
    p = PropNF(prog, "le")
    fa = prog.lookup_method(rmm, "amplitude")
    fm = prog.lookup_method(rmm, "meanstress")
    try:
        ra = [s for s in fa.node.body if isinstance(s, ast.Return)][-1].value
        rm = [s for s in fm.node.body if isinstance(s, ast.Return)][-1].value
        rng = p.tr(ra, rmm, leaf_rm)
        mean = p.tr(rm, rmm, leaf_rm)

        def leaf_h2(x):
            if isinstance(x, ast.Call) and isinstance(x.func, ast.Attribute) and is_self_attr(x.func.value, "_impl"):
                return {"amplitude": rng, "meanstress": mean}.get(x.func.attr)
            return None
        a = p.prop(lh, "amplitude", leaf_h2)
        m = p.prop(lh, "meanstress", leaf_h2)
    except NFUnsupported as e:
        raise AnalysisError("range/mean histogram layout outside the fragment: %s" % e)
    if a == RF.sym("range") / RF.const(2):
        ctx.holds(fa, fa.node, "range/mean histogram: amplitude == range/2")
    else:
        ctx.violated(fa, fa.node, "range/mean histogram: amplitude is %r, expected range/2" % a, text="rm amp")
    if m == RF.sym("mean"):
        ctx.holds(fm, fm.node, "range/mean histogram: meanstress == mean")
    else:
        ctx.violated(fm, fm.node, "range/mean histogram: meanstress is %r, expected mean" % m, text="rm mean")
    # range/mean -> from/to conversion of the collective
    v = prog.lookup_method(lc, "_validate")
    # roles from the frame that is built: {'from': <local>, 'to': <local>}
    d0 = [n for n in ast.walk(v.node) if isinstance(n, ast.Dict) and {const_value(k) for k in n.keys} == {"from", "to"}]
    if len(d0) != 1:
        raise AnalysisError("LoadCollective._validate: range/mean conversion not found")
    from ..astutil import inline_single_defs as _isd
    vals_ = {const_value(k): _isd(v.node, x) for k, x in zip(d0[0].keys, d0[0].values)}      # temporaries removed

    class _V:                                      # the two converted columns as expressions in the given columns
        def __init__(self, value):
            self.value = value
    defs = {"fr": _V(vals_["from"]), "to": _V(vals_["to"])}

    def leaf_v(x):
        if isinstance(x, ast.Subscript) and is_self_attr(x.value, "_obj") and const_value(x.slice) in ("range", "mean"):
            return const_value(x.slice)
        return None
    try:
        fr = to_nf(defs["fr"].value, atom=leaf_v)
        to = to_nf(defs["to"].value, atom=leaf_v)
    except NFUnsupported as e:
        raise AnalysisError("range/mean conversion outside the fragment: %s" % e)
    # plug into the collective's properties (to - fr = range >= 0 -> case 'le')

    def leaf_conv(x):
        l = _leaf_fromto(x)
        if l == "fr":
            return fr
        if l == "to":
            return to
        return None
    p = PropNF(prog, "le")
    p.order = lambda a, b: _sign_under(a - b, "le")
    try:
        a = p.prop(lc, "amplitude", leaf_conv)
        m = p.prop(lc, "meanstress", leaf_conv)
    except NFUnsupported as e:
        raise AnalysisError("conversion check outside the fragment: %s" % e)
    if a == RF.sym("range") / RF.const(2) and m == RF.sym("mean"):
        ctx.holds(v, defs["fr"], "range/mean input: amplitude == range/2 and meanstress == mean after conversion to from/to")
    else:
        ctx.violated(v, defs["fr"], "range/mean input is converted so that amplitude = %r and meanstress = %r (expected range/2, mean)"
                     % (a, m))
    # the frame built from it uses fr/to under the right keys and keeps the cycles
    d = [n for n in ast.walk(v.node) if isinstance(n, ast.Dict)]
    ok = bool(d0)
    d = d0
    cyc = [s.targets[0].id for s in walk_function(v.node) if isinstance(s, ast.Assign) and isinstance(s.targets[0], ast.Name) and
           isinstance(s.value, ast.Call) and isinstance(s.value.func, ast.Attribute) and s.value.func.attr == "get" and
           s.value.args and const_value(s.value.args[0]) == "cycles"]
    keep = [s for s in walk_function(v.node) if isinstance(s, ast.Assign) and isinstance(s.targets[0], ast.Subscript)
            and const_value(s.targets[0].slice) == "cycles" and isinstance(s.value, ast.Name) and s.value.id in cyc]
    if ok and keep:
        ctx.holds(v, d[0], "converted frame: columns from/to, cycle counts carried over")
    else:
        ctx.violated(v, d[0] if d else v.node, "converted frame does not map fr/to to 'from'/'to' or drops the cycle counts")


def _r2(ctx):
    prog = ctx.prog
    ctx.rule("R-C14-2", floor=5, what="scale/shift rewrite only the load columns/levels; counts pass through")
    lc = prog.cls(LC)
    for name, meth in (("scale", "multiply"), ("shift", "add")):
        from ..inline import inlined
        from ..astutil import inline_single_defs
        f = inlined(prog, prog.lookup_method(lc, name))       # the common body of scale / shift may live in a private helper
        stores = [s for s in walk_function(f.node) if isinstance(s, (ast.Assign, ast.AugAssign)) and
                  any(isinstance(t, (ast.Subscript, ast.Attribute)) for t in (s.targets if isinstance(s, ast.Assign) else [s.target]))]
        ok = len(stores) == 1 and isinstance(stores[0], ast.Assign)
        if ok:
            t, v = stores[0].targets[0], stores[0].value
            sl = inline_single_defs(f.node, t.slice) if isinstance(t, ast.Subscript) and isinstance(t.slice, ast.Name) else getattr(t, "slice", None)
            cols = [const_value(x) for x in sl.elts] if isinstance(sl, ast.List) else None
            recv = None
            if isinstance(v, ast.Call) and isinstance(v.func, ast.Attribute) and v.func.attr == meth:
                if isinstance(v.func.value, ast.Subscript):
                    recv = v.func.value                                         # X[cols].multiply(operand, axis=0)
                elif norm_text(v.func.value) in ("pd.DataFrame", "pandas.DataFrame", "pd.Series") and v.args:
                    recv = v.args[0]                                            # pd.DataFrame.multiply(X[cols], operand, axis=0)
            ok = cols == ["from", "to"] and recv is not None and norm_text(recv) == norm_text(t) and \
                any(k.arg == "axis" and const_value(k.value) == 0 for k in v.keywords)
        if ok:
            ctx.holds(f, stores[0], "%s: only columns from/to are rewritten (from/to .%s(operand, axis=0)); cycles untouched" % (name, meth))
        else:
            ctx.violated(f, stores[0] if stores else f.node, "%s does not rewrite exactly the columns from/to from themselves with .%s: "
                         "cycle counts or other columns are affected" % (name, meth), text="collective " + name)
    lh = prog.cls(LH + ":LoadHistogram")
    f = prog.lookup_method(lh, "_shift_or_scale")
    ret = [s for s in f.node.body if isinstance(s, ast.Return)][-1]
    v = ret.value
    bc = [s_ for s_ in f.node.body if isinstance(s_, ast.Assign) and isinstance(s_.targets[0], ast.Tuple) and
          isinstance(s_.value, ast.Call) and isinstance(s_.value.func, ast.Attribute) and s_.value.func.attr == "broadcast"]
    objn = bc[0].targets[0].elts[1].id if bc and len(bc[0].targets[0].elts) == 2 and isinstance(bc[0].targets[0].elts[1], ast.Name) else None
    idxn = [s_.targets[0].id for s_ in f.node.body if isinstance(s_, ast.Assign) and isinstance(s_.targets[0], ast.Name) and
            isinstance(s_.value, ast.Call) and call_name(s_.value) == "pd.MultiIndex.from_arrays"]
    ikw = next((k.value for k in v.keywords if k.arg == "index"), None) if isinstance(v, ast.Call) else None
    rebuilt = ikw is not None and ((isinstance(ikw, ast.Name) and idxn == [ikw.id]) or
                                   (isinstance(ikw, ast.Call) and call_name(ikw) == "pd.MultiIndex.from_arrays"))
    ok = objn is not None and isinstance(v, ast.Call) and call_name(v) == "pd.Series" and v.args and \
        norm_text(v.args[0]) == objn + ".values" and rebuilt
    if ok:
        ctx.holds(f, ret, "histogram: cycle values pass through unchanged, only the index is rebuilt")
    else:
        ctx.violated(f, ret, "histogram scale/shift does not pass the cycle values through unchanged")
    # ---- the per-level transformation, as a symbolic value: a closure mapped over the level names, or the body of a loop
    # over them (private helpers expanded) that appends the new level
    import copy
    from ..absint import Interp, TermDomain, term_select, term_walk
    from ..inline import inlined
    fparam, oparam, sparam = [p_ for p_ in f.params if p_ != "self"][:3]
    clos = [fi_ for k_, fi_ in prog.functions.items() if fi_.parent is not None and fi_.parent.key == f.key and
            any(isinstance(c.func, ast.Name) and c.func.id == fparam for c in calls_in(fi_.node))]
    where = None
    if len(clos) == 1:
        tfi, where = clos[0], clos[0].node
    else:
        fl = inlined(prog, f)
        loops = [s_ for s_ in walk_function(fl.node) if isinstance(s_, ast.For) and isinstance(s_.target, ast.Name) and
                 any((call_name(c) or "").endswith("IntervalIndex.from_arrays") for c in calls_in(s_)) and s_.body and
                 isinstance(s_.body[-1], ast.Expr) and isinstance(s_.body[-1].value, ast.Call) and
                 isinstance(s_.body[-1].value.func, ast.Attribute) and s_.body[-1].value.func.attr == "append" and
                 len(s_.body[-1].value.args) == 1]
        comps = [c_ for c_ in ast.walk(f.node) if isinstance(c_, (ast.ListComp, ast.GeneratorExp)) and len(c_.generators) == 1 and
                 isinstance(c_.generators[0].target, ast.Name) and not c_.generators[0].ifs and isinstance(c_.elt, ast.Call) and
                 norm_text(c_.generators[0].iter).endswith(".index.names")] if not loops else []
        if len(loops) != 1 and len(comps) != 1:
            raise AnalysisError("_shift_or_scale: the per-level transformation (closure mapped over the level names / loop that "
                                "appends the new level) was not found")
        if comps:
            # [helper(<level of name>, func, operand, skip) for name in obj.index.names]: the element expression is the transformation
            cp = comps[0]
            fn = ast.FunctionDef(name="__level__", args=ast.arguments(posonlyargs=[], args=[ast.arg(arg=cp.generators[0].target.id)],
                                                                    kwonlyargs=[], kw_defaults=[], defaults=[]),
                                 body=[ast.Return(value=cp.elt)], decorator_list=[], lineno=cp.lineno, col_offset=0)
            ast.fix_missing_locations(fn)
            tfi = copy.copy(f)
            tfi.node = fn
            where = cp
        lp = loops[0] if loops else None
        fn = fn if comps else ast.FunctionDef(name="__level__", args=ast.arguments(posonlyargs=[], args=[ast.arg(arg=lp.target.id)], kwonlyargs=[],
                                                                kw_defaults=[], defaults=[]),
                             body=list(lp.body[:-1]) + [ast.Return(value=lp.body[-1].value.args[0])], decorator_list=[],
                             lineno=lp.lineno, col_offset=0)
        if not comps:
            ast.fix_missing_locations(fn)
            tfi = copy.copy(fl)
            tfi.node = fn
            where = lp
    # names bound once in the enclosing function to `<param> or <literal>` stand for the parameter
    alias = {}
    for s_ in walk_function(f.node):
        if isinstance(s_, ast.Assign) and len(s_.targets) == 1 and isinstance(s_.targets[0], ast.Name):
            v_ = s_.value
            if isinstance(v_, ast.BoolOp) and isinstance(v_.op, ast.Or) and isinstance(v_.values[0], ast.Name):
                alias[s_.targets[0].id] = v_.values[0].id
            if isinstance(v_, ast.Tuple) is False and isinstance(s_.value, ast.Call) and False:
                pass
    bcast = None
    for s_ in walk_function(f.node):
        if isinstance(s_, ast.Assign) and isinstance(s_.targets[0], ast.Tuple) and isinstance(s_.value, ast.Call) and \
                isinstance(s_.value.func, ast.Attribute) and s_.value.func.attr == "broadcast" and len(s_.targets[0].elts) == 2 and \
                s_.value.args and isinstance(s_.value.args[0], ast.Name) and s_.value.args[0].id == oparam and \
                isinstance(s_.targets[0].elts[0], ast.Name):
            bcast = s_.targets[0].elts[0].id
    term = Interp(prog, TermDomain(), max_depth=3, single_exit=True).run(tfi, [("p", q) for q in tfi.params if q != "self"])

    def is_skip(t):
        return isinstance(t, tuple) and len(t) == 2 and t[0] in ("g", "p") and (t[1] == sparam or alias.get(t[1]) == sparam)

    def truth_for(a_val, b_val):
        def truth(c):
            if isinstance(c, tuple) and len(c) == 4 and c[0] == "cmp" and c[1] == "in":
                if isinstance(c[3], tuple) and c[3][0] == "attr" and c[3][-1] == "index_names":
                    return a_val
                if is_skip(c[3]):
                    return b_val
            return None
        return truth
    leaves = {(a_, b_): term_select(term, truth_for(a_, b_)) for a_ in (True, False) for b_ in (True, False)}
    if any(v_ is None for v_ in leaves.values()):
        raise AnalysisError("_shift_or_scale: the guard of the level transformation was not understood")

    def transformed(t):
        return isinstance(t, tuple) and t and t[0] == "call" and t[1].endswith("IntervalIndex.from_arrays")
    tr = leaves[(True, False)]
    untouched = [leaves[k_] for k_ in ((True, True), (False, True), (False, False))]
    same = guard_ok = False
    edges = None
    if transformed(tr) and len(tr[2]) == 2 and all(isinstance(x_, tuple) and x_[0] == "call" and x_[1] == fparam and len(x_[2]) == 2
                                                   for x_ in tr[2]):
        e0, e1 = tr[2]
        edges = [(x_[2][0][2] if isinstance(x_[2][0], tuple) and x_[2][0][0] == "attr" else None, x_[2][0][1] if
                  isinstance(x_[2][0], tuple) and x_[2][0][0] == "attr" else None, x_[2][1]) for x_ in (e0, e1)]
        same = [e_[0] for e_ in edges] == ["left", "right"] and edges[0][1:] == edges[1][1:] and \
            edges[0][2] in (("g", bcast), ("p", bcast), ("g", oparam), ("p", oparam)) and bcast is not None and \
            edges[0][2][1] == bcast
        base = edges[0][1]
        guard_ok = all(u_ == base and not any(transformed(x_) for x_ in term_walk(u_)) for u_ in untouched) and \
            isinstance(base, tuple) and base[0] == "call" and base[1].endswith("get_level_values")
    elif not transformed(tr):
        raise AnalysisError("_shift_or_scale: the transformed level is not IntervalIndex.from_arrays(func(left, .), func(right, .))")
    if same and guard_ok:
        ctx.holds(f, where, "only load interval levels (not skipped) are transformed, both edges with the same function and the "
                  "broadcast operand; the other levels are returned untouched")
    else:
        ctx.violated(f, where, "histogram level transformation %s" % (
            "treats the two interval edges differently or not with the broadcast operand: %s" % (edges,) if not same else
            "does not return non-load / skipped levels untouched"), text="level transform")
    for name, op, skip in (("scale", ast.Mult, None), ("shift", ast.Add, ["range"])):
        m = prog.lookup_method(lh, name)
        c = [c for c in calls_in(m.node) if isinstance(c.func, ast.Attribute) and c.func.attr == "_shift_or_scale"]
        if len(c) != 1 or not c[0].args:
            raise AnalysisError("histogram %s: call of _shift_or_scale not found" % name)
        fa_ = c[0].args[0]
        ok = isinstance(fa_, ast.Lambda) and isinstance(fa_.body, ast.BinOp) and isinstance(fa_.body.op, op) and \
            {norm_text(fa_.body.left), norm_text(fa_.body.right)} == {a.arg for a in fa_.args.args}
        ok = ok or norm_text(fa_) in (("operator.mul", "np.multiply") if op is ast.Mult else ("operator.add", "np.add"))
        sk = next((k.value for k in c[0].keywords if k.arg == "skip"), None) if c else None
        got_skip = [const_value(x) for x in sk.elts] if isinstance(sk, (ast.List, ast.Tuple)) else None
        ok = ok and got_skip == skip
        if ok:
            ctx.holds(m, c[0], "histogram %s: levels %s, skip=%s" % (name, "x*y" if op is ast.Mult else "x+y", skip))
        else:
            ctx.violated(m, c[0] if c else m.node, "histogram %s does not apply %s to the load levels with skip=%s" %
                         (name, "x*y" if op is ast.Mult else "x+y", skip))


def _r3(ctx):
    """Re-binning: the overlap share telescopes (=> conservation for every gap-free covering binning);
    combination by sum."""
    from ..domains import weak_orderings
    prog = ctx.prog
    ctx.rule("R-C14-3", floor=4, what="overlap-proportional redistribution telescopes: share == (clamp(right) - clamp(left)) / source length")
    H = "pylife.utils.histogram:"
    f = prog.functions.get(H + "_do_rebin_histogram.interval_overlap")
    agg = prog.functions.get(H + "_do_rebin_histogram.aggregate_hist")
    if f is None or agg is None:
        # by role: the overlap helper is the function of the histogram module (nested or at module level) with two parameters
        # whose body reads .left / .right of both; the aggregation is the function that calls it
        cands = []
        for k_, fi_ in prog.functions.items():
            if not k_.startswith(H) or len(fi_.params) != 2:
                continue
            attrs = {(x.value.id, x.attr) for x in ast.walk(fi_.node) if isinstance(x, ast.Attribute) and isinstance(x.value, ast.Name)}
            if all((q, a_) in attrs for q in fi_.params for a_ in ("left", "right")):
                cands.append(fi_)
        if len(cands) == 1:
            f = cands[0]
            callers = [fi_ for k_, fi_ in prog.functions.items() if k_.startswith(H) and fi_ is not f and
                       any(isinstance(c_.func, ast.Name) and c_.func.id == f.name for c_ in calls_in(fi_.node)) and
                       not any(x is f.node for x in ast.walk(fi_.node))]
            agg = callers[0] if len(callers) == 1 else None
    if f is None or agg is None:
        raise AnalysisError("rebin helpers interval_overlap / aggregate_hist not found")
    ref, test = f.params
    from ..astutil import inline_single_defs
    ret = [s_ for s_ in f.node.body if isinstance(s_, ast.Return)][-1]
    full_ret = inline_single_defs(f.node, ret.value)        # temporaries expanded: one expression in the interval edges

    def leaf(x):
        if isinstance(x, ast.Attribute) and isinstance(x.value, ast.Name) and x.value.id in (ref, test):
            who = "t" if x.value.id == ref else "s"      # target bin / source interval
            if x.attr in ("left", "right"):
                return who + x.attr[0]
            if x.attr == "length":
                return RF.sym(who + "r") - RF.sym(who + "l")
        return None
    syms = ["sl", "sr", "tl", "tr"]
    n_cases = 0
    bad = None
    for ranks in weak_orderings(4):
        val = dict(zip(syms, ranks))
        if not (val["sl"] < val["sr"] and val["tl"] < val["tr"]):
            continue
        n_cases += 1
        # symbols tied in this ordering denote the same number: use one representative per rank
        canon = {}
        for k in syms:
            canon[k] = [x for x in syms if val[x] == val[k]][0]

        def leaf_c(x, canon=canon):
            r = leaf(x)
            if isinstance(r, str):
                return canon[r]
            if isinstance(r, RF):
                who = "t" if (isinstance(x, ast.Attribute) and isinstance(x.value, ast.Name) and x.value.id == ref) else "s"
                return RF.sym(canon[who + "r"]) - RF.sym(canon[who + "l"])
            return r

        def order(a, b, val=val):
            d = a - b
            if d.is_zero():
                return 0
            # difference of two symbols (or symbol and itself): decide by ranks
            if d.den.as_const() is None:
                return None
            terms = {dict(m).popitem()[0] if m else None: c for m, c in d.num.terms.items()}
            if set(terms) <= set(syms) and len(terms) == 2:
                (x, cx), (y, cy) = terms.items()
                if cx == -cy:
                    pos, neg = (x, y) if cx > 0 else (y, x)
                    return (val[pos] > val[neg]) - (val[pos] < val[neg])
            return None
        tr = Translator(atom=leaf_c, order=order, positive=lambda x: None)
        try:
            share = tr.tr(full_ret)
        except NFUnsupported as e:
            raise AnalysisError("interval_overlap outside the fragment: %s" % e)

        def clamp(name):
            v = val[name]
            if v <= val["sl"]:
                return RF.sym(canon["sl"])
            if v >= val["sr"]:
                return RF.sym(canon["sr"])
            return RF.sym(canon[name])
        tele = (clamp("tr") - clamp("tl")) / (RF.sym(canon["sr"]) - RF.sym(canon["sl"]))
        overlaps = max(val["sl"], val["tl"]) < min(val["sr"], val["tr"])
        if overlaps and not (share == tele):
            bad = (val, share, tele)
            break
        if not overlaps and not tele.is_zero():
            bad = (val, "not overlapping", tele)
            break
    if bad is None:
        ctx.holds(f, ret, "share of a source interval falling into a bin == (clamp(bin.right) - clamp(bin.left)) / source length on "
                  "all %d orderings: shares of adjacent bins telescope to 1 for every covering gap-free binning" % n_cases)
    else:
        ctx.violated(f, ret, "overlap share %s does not telescope (ordering %s: expected %r): re-binning would not conserve the total"
                     % (bad[1], bad[0], bad[2]), text="overlap share")
    # aggregation: value * share(interval, source interval), summed over the overlapping source intervals
    lam = [n for n in ast.walk(agg.node) if isinstance(n, ast.Lambda)]
    ok = False
    if lam:
        b = lam[0].body
        v = lam[0].args.args[0].arg
        ok = isinstance(b, ast.BinOp) and isinstance(b.op, ast.Mult) and any(
            isinstance(x, ast.Call) and call_name(x) == f.name and len(x.args) == 2 and
            norm_text(x.args[0]) in agg.params and norm_text(x.args[1]) == v + ".name" and
            any(isinstance(c_, ast.Call) and isinstance(c_.func, ast.Attribute) and c_.func.attr == "overlaps" and c_.args and
                norm_text(c_.args[0]) == norm_text(x.args[0]) for c_ in ast.walk(agg.node))          # the bin the rows were selected for
            for x in (b.left, b.right)) and \
            any(norm_text(x).startswith(v + ".iloc[0]") for x in (b.left, b.right))
        r = [s_ for s_ in agg.node.body if isinstance(s_, ast.Return)][-1]
        ok = ok and isinstance(r.value, ast.Call) and isinstance(r.value.func, ast.Attribute) and r.value.func.attr == "sum"
        sel = [s_ for s_ in agg.node.body if isinstance(s_, ast.Assign) and "overlaps" in norm_text(s_.value)]
        ok = ok and bool(sel)
    if ok:
        ctx.holds(agg, agg.node, "bin content = sum over overlapping source intervals of value * share(bin, source)")
    else:
        ctx.violated(agg, agg.node, "re-binned bin content is not the sum of value * share over the overlapping source intervals",
                     text="aggregate")
    # validity of the binning: gap-free and non-overlapping is enforced
    fb = prog.func(H + "_fail_if_binning_invalid")
    raises = [norm_text(s_.test) for s_ in fb.node.body if isinstance(s_, ast.If) and isinstance(s_.body[-1], ast.Raise)]
    if any("has_gaps" in t for t in raises) and any("overlapping" in t for t in raises):
        ctx.holds(fb, fb.node, "binnings with gaps or overlaps are rejected")
    else:
        ctx.violated(fb, fb.node, "binnings with gaps or overlaps are no longer rejected: shares would not sum to one", text="binning validation")
    cb = prog.func(H + "combine_histogram")
    c = [c_ for c_ in calls_in(cb.node) if isinstance(c_.func, ast.Attribute) and c_.func.attr == "agg"]
    dflt = dict(zip(cb.params[-len(cb.node.args.defaults):], cb.node.args.defaults)).get("method")
    cc = [s_ for s_ in cb.node.body if isinstance(s_, ast.Assign) and isinstance(s_.targets[0], ast.Name) and
          isinstance(s_.value, ast.Call) and call_name(s_.value) == "pd.concat"]
    ccn = cc[0].targets[0].id if len(cc) == 1 else None
    ok = ccn is not None and len(c) == 1 and norm_text(c[0].args[0]) == "method" and const_value(dflt) == "sum" and \
        norm_text(c[0].func.value) == "%s.groupby(%s.index)" % (ccn, ccn)
    if ok:
        ctx.holds(cb, c[0], "combination: concatenated histograms aggregated per class with the requested method (default sum)")
    else:
        ctx.violated(cb, c[0] if c else cb.node, "combine_histogram does not aggregate the concatenated histograms per class with the "
                     "requested method (default 'sum')", text="combine")


# =========================================================================== variants

CP = "src/pylife/stress/collective/load_collective.py"
HP = "src/pylife/stress/collective/load_histogram.py"
AP = "src/pylife/stress/collective/abstract_load_collective.py"


def variants():
    out = []

    def bins_as_given(tree):
        f = find_func(tree, "LoadCollective.histogram")
        for i_, st in enumerate(f.body):
            if isinstance(st, ast.If) and "isscalar" in ast.unparse(st.test):
                del f.body[i_]
                return True
        return False
    out.append(witness("bin specification handed to np.histogram2d as given", "src/pylife/stress/collective/load_collective.py", bins_as_given, "R-C14-12"))


    def decreasing_test(tree):
        f = find_func(tree, "_fail_if_binning_invalid")
        for n in ast.walk(f):
            if isinstance(n, ast.UnaryOp) and isinstance(n.op, ast.Not) and isinstance(n.operand, ast.Attribute) and \
                    n.operand.attr == "is_monotonic_increasing":
                replace_node(n, ast.Attribute(value=n.operand.value, attr="is_monotonic_decreasing", ctx=ast.Load()))
                return True
        return False
    out.append(witness("binning rejected when is_monotonic_decreasing", "src/pylife/utils/histogram.py", decreasing_test, "R-C14-9"))

    def unweighted(tree):
        f = find_func(tree, "LoadCollective.histogram")
        for c in calls_in(f):
            if call_name(c) == "np.histogram2d":
                c.keywords = [k for k in c.keywords if k.arg != "weights"]
                return True
        return False
    out.append(witness("2-D histogram counts rows instead of cycles", CP, unweighted, "R-C14-6"))

    def extent_by_position(tree):
        f = find_func(tree, "_do_rebin_histogram")
        for n in ast.walk(f):
            if isinstance(n, ast.FunctionDef) and n.name == "binning_of_n_bins":
                for st in n.body:
                    if isinstance(st, ast.Assign) and isinstance(st.value, ast.Call) and isinstance(st.value.func, ast.Attribute) and \
                            st.value.func.attr == "min":
                        st.value = parse_expr(ast.unparse(st.value.func.value) + "[0]")
                        return True
        return False
    out.append(witness("extent of the source histogram taken from its first class", "src/pylife/utils/histogram.py", extent_by_position, "R-C14-5"))

    def amp_full(tree):
        f = find_func(tree, "LoadCollective.amplitude")
        for n in ast.walk(f):
            if isinstance(n, ast.BinOp) and isinstance(n.op, ast.Div) and const_value(n.right) == 2.0:
                return replace_node(n, n.left)
        return False
    out.append(witness("collective amplitude = |from-to|", CP, amp_full, "R-C14-1"))

    def upper_to(tree):
        f = find_func(tree, "LoadCollective.upper")
        for s in f.body:
            if isinstance(s, ast.Assign):
                s.value = parse_expr("self._obj['to']")
                return True
        return False
    out.append(witness("upper = to (wrong for hanging cycles)", CP, upper_to, "R-C14-1"))

    def r_inverted(tree):
        f = find_func(tree, "LoadCollective.R")
        for n in ast.walk(f):
            if isinstance(n, ast.BinOp) and isinstance(n.op, ast.Div):
                n.left, n.right = n.right, n.left
                return True
        return False
    out.append(witness("R = upper/lower", CP, r_inverted, "R-C14-1"))

    def abstract_upper(tree):
        f = find_func(tree, "AbstractLoadCollective.upper")
        f.body[-1].value = parse_expr("pd.Series(self.meanstress + self.amplitude / 2, name='upper')")
        return True
    out.append(witness("abstract upper = mean + amplitude/2", AP, abstract_upper, "R-C14-1"))

    def hist_mean(tree):
        f = find_func(tree, "_FromToMatrix.meanstress")
        f.body[-1].value = parse_expr("(fr + to)")
        return True
    out.append(witness("from/to histogram mean = from + to", HP, hist_mean, "R-C14-1"))

    def rm_amp(tree):
        f = find_func(tree, "LoadHistogram.amplitude")
        for n in ast.walk(f):
            if isinstance(n, ast.BinOp) and isinstance(n.op, ast.Div):
                return replace_node(n, n.left)
        return False
    out.append(witness("histogram amplitude = range", HP, rm_amp, "R-C14-1"))

    def conv(tree):
        f = find_func(tree, "LoadCollective._validate")
        for s in ast.walk(f):
            if isinstance(s, ast.Assign) and isinstance(s.targets[0], ast.Name) and s.targets[0].id == "to":
                s.value = parse_expr("self._obj['mean'] + self._obj['range']")
                return True
        return False
    out.append(witness("to = mean + range", CP, conv, "R-C14-1"))

    def drop_cycles(tree):
        f = find_func(tree, "LoadCollective._validate")
        for s in ast.walk(f):
            if isinstance(s, ast.If) and norm_text(s.test) == "cycles is not None":
                s.body = [ast.Pass()]
                return True
        return False
    out.append(witness("range/mean conversion drops the cycle column", CP, drop_cycles, "R-C14-1"))

    def scale_all(tree):
        f = find_func(tree, "LoadCollective.scale")
        for i, s in enumerate(f.body):
            if isinstance(s, ast.Assign) and isinstance(s.targets[0], ast.Subscript):
                f.body[i] = parse_stmt("obj = obj.multiply(factors, axis=0)")
                return True
        return False
    out.append(witness("scale multiplies the whole frame incl. cycles", CP, scale_all, "R-C14-2"))

    def shift_to(tree):
        f = find_func(tree, "LoadCollective.shift")
        for s in f.body:
            if isinstance(s, ast.Assign) and isinstance(s.targets[0], ast.Subscript):
                s.targets[0].slice.elts = s.targets[0].slice.elts[1:]
                return True
        return False
    out.append(witness("shift writes only 'to'", CP, shift_to, "R-C14-2"))

    def hist_vals(tree):
        f = find_func(tree, "LoadHistogram._shift_or_scale")
        f.body[-1].value.args[0] = parse_expr("func(obj.values, operand_broadcast)")
        return True
    out.append(witness("histogram scale also scales the counts", HP, hist_vals, "R-C14-2"))

    def shift_range(tree):
        f = find_func(tree, "LoadHistogram.shift")
        for c in calls_in(f, attr="_shift_or_scale"):
            c.keywords = []
            return True
        return False
    out.append(witness("histogram shift moves the range level", HP, shift_range, "R-C14-2"))

    HIS = "src/pylife/utils/histogram.py"

    def _inner(tree, outer, name):
        f = find_func(tree, outer)
        return [n for n in ast.walk(f) if isinstance(n, ast.FunctionDef) and n.name == name][0]

    def share_ref(tree):
        f = _inner(tree, "_do_rebin_histogram", "interval_overlap")
        f.body[-1].value = parse_expr("overlap / reference_interval.length")
        return True
    out.append(witness("share divided by the target bin's length", HIS, share_ref, "R-C14-3"))

    def share_minmax(tree):
        f = _inner(tree, "_do_rebin_histogram", "interval_overlap")
        f.body[0].value = parse_expr("max(reference_interval.right, test_interval.right) - max(reference_interval.left, test_interval.left)")
        return True
    out.append(witness("overlap with max of the right edges", HIS, share_minmax, "R-C14-3"))

    def agg_mean(tree):
        f = _inner(tree, "_do_rebin_histogram", "aggregate_hist")
        f.body[-1].value.func.attr = "mean"
        return True
    out.append(witness("bin content = mean of the contributions", HIS, agg_mean, "R-C14-3"))

    def no_gap_check(tree):
        f = find_func(tree, "_fail_if_binning_invalid")
        f.body = [s for s in f.body if not (isinstance(s, ast.If) and "has_gaps" in norm_text(s.test))]
        return True
    out.append(witness("binning with gaps accepted", HIS, no_gap_check, "R-C14-3"))

    def combine_max(tree):
        f = find_func(tree, "combine_histogram")
        f.args.defaults[-1] = ast.Constant("max")
        return True
    out.append(witness("combine_histogram defaults to max", HIS, combine_max, "R-C14-3"))

    def hist_noabs(tree):
        f = find_func(tree, "LoadCollective.histogram")
        for n in ast.walk(f):
            if isinstance(n, ast.Dict) and {"range", "meanstress"} <= {const_value(k) for k in n.keys}:
                n.values[0] = parse_expr("self._obj['to'] - self._obj['from']")
                return True
        return False
    out.append(witness("2-D histogram range = to - from (no abs)", CP, hist_noabs, "R-C14-4"))

    def level_by_pos(tree):
        f = find_func(tree, "rebin_histogram")
        for n in ast.walk(f):
            if isinstance(n, ast.Subscript) and isinstance(n.value, ast.Attribute) and n.value.attr == "levels":
                n.slice = parse_expr("list(original_names).index(name)")
                return True
        return False
    out.append(witness("level binning picked by the histogram's level position", HIS, level_by_pos, "R-C14-4"))

    def share_alt(tree):
        f = _inner(tree, "_do_rebin_histogram", "interval_overlap")
        f.body[0].value = parse_expr("min(test_interval.right, reference_interval.right) - max(test_interval.left, reference_interval.left)")
        return True
    out.append(twin("overlap with swapped min/max operands", HIS, share_alt))

    # twins
    def amp_alt(tree):
        f = find_func(tree, "LoadCollective.amplitude")
        for s in f.body:
            if isinstance(s, ast.Assign) and isinstance(s.targets[0], ast.Name) and s.targets[0].id == "rng":
                s.value = parse_expr("np.abs(to - fr)")
                return True
        return False
    out.append(twin("amplitude via |to - from|", CP, amp_alt))

    def mean_alt(tree):
        f = find_func(tree, "LoadCollective.meanstress")
        f.body[-1].value = parse_expr("pd.Series(0.5 * fr + 0.5 * to, name='meanstress')")
        return True
    out.append(twin("meanstress = 0.5 from + 0.5 to", CP, mean_alt))
    return out
