"""C08 — Woehler curve (structural and algebraic clauses)."""
from __future__ import annotations

import ast
from fractions import Fraction
from statistics import NormalDist

from ..astutil import (call_name, calls_in, const_value, find_func, is_self_attr, names_in, parse_expr, parse_stmt,
                       replace_node, clone)
from ..effects import Effects
from ..frontend import AnalysisError, walk_function
from ..nf import to_nf, NFUnsupported, RF, Translator
from ..report import norm_text
from ..witness import witness, twin

LEVEL = "other"
WC = "pylife.materiallaws.woehlercurve:WoehlerCurve"
EXPLANATION = (
    "Static decision of structural/algebraic clauses of C08. R-C08-1 (effect analysis + normal form): each Miner modifier "
    "works on a fresh copy of the curve data, writes only k_2, the written value is inf / k_1 / 2 k_1 - 1 in normal form, "
    "and the result is built through the class constructor. R-C08-2: the constructors of WoehlerCurve and every subclass "
    "(Fatigue, Miner accessors) reach no write into the caller's pandas object (the defaults are written into a copy). "
    "R-C08-3: the finite-life formulas extracted from basquin_cycles and basquin_load are mutual inverses in the "
    "symbolic-exponent normal form (SD*((ND*(L/SD)^-k)/ND)^(-1/k) == L and conversely), infinite life is the default "
    "outside the finite branch. R-C08-4: the slope selectors of the two directions are mirror images (load < SD vs "
    "cycles > ND) and k_2 is used exactly below the limit. R-C08-5: the TN<->TS conversions are mutual inverses. R-C08-6: "
    "the two scatter constants satisfy c1*c2 = 1 and c2 = 2*z_0.9. R-C08-7: the probability shift divides SD and ND by 10 to "
    "the same probit difference times the std of TS resp. TN, and the new object's native probability is the goal. R-C08-8: "
    "cycles/load delegate to basquin_cycles/basquin_load with arguments in order and no subclass re-implements them. Not "
    "decided: broadcast == element-wise evaluation, the numerical group law of the probability transform.")
EXPLANATION += (' R-C08-9: the curve data the accessor computes with has a float element type (integer input is converted). R-C08-10: apart from the documented temporaries of the broadcaster no write reaches the curve data of the accessor.')
EXPLANATION += (' R-C08-11: in basquin_cycles and basquin_load the object whose parameters are used is, on every path, transform_to_failure_probability(<requested probability>) of the curve.')
ASSUMPTIONS = [
    "k_1, SD, ND, TN, TS positive; np.power/** follow real powers on positive bases",
    "pandas .copy() returns an independent object",
]


def _atom(e):
    if isinstance(e, ast.Attribute) and e.attr in ("k_1", "k_2", "SD", "ND", "TN", "TS"):
        return {"k_1": "k1", "k_2": "k2"}.get(e.attr, e.attr)
    if isinstance(e, ast.Name):
        return e.id
    return None


def _strip(e):
    # x[in_limit] -> x ; np.asarray(x) -> x
    while True:
        if isinstance(e, ast.Subscript) and isinstance(e.slice, (ast.Name, ast.Compare)):
            e = e.value
        else:
            return e


def run(ctx):
    for r in (_r1, _r2, _r3, _r4, _r5, _r6, _r7, _r8, _r9, _r10, _r11):
        ctx.attempt(r)


def _float_normalised(prog, fi, e, depth=0):
    """Is the array expression known to have a floating element type?"""
    if depth > 4:
        return False
    if isinstance(e, ast.UnaryOp):
        return _float_normalised(prog, fi, e.operand, depth)
    if isinstance(e, ast.Call):
        fn = call_name(e) or ""
        dt = next((k.value for k in e.keywords if k.arg == "dtype"), None)
        if dt is not None and norm_text(dt) in ("np.float64", "np.double", "float", "np.float_", "'float64'", "np.longdouble"):
            return True
        if isinstance(e.func, ast.Attribute) and e.func.attr == "astype" and e.args and norm_text(e.args[0]) in ("float", "np.float64", "np.double"):
            return True
        for k in prog.resolve_call(fi, e):
            callee = prog.functions.get(k)
            if callee is not None:
                rets = [r for r in walk_function(callee.node) if isinstance(r, ast.Return) and r.value is not None]
                if rets and all(_float_normalised(prog, callee, r.value, depth + 1) for r in rets):
                    return True
        return False
    if isinstance(e, ast.Attribute):
        return False
    if isinstance(e, ast.Name):
        defs = [st for st in walk_function(fi.node) if isinstance(st, ast.Assign) and
                any(isinstance(t, ast.Name) and t.id == e.id for t in st.targets)]
        if defs:
            return all(_float_normalised(prog, fi, d.value, depth + 1) for d in defs)
        tdefs = [st for st in walk_function(fi.node) if isinstance(st, ast.Assign) and isinstance(st.targets[0], ast.Tuple) and
                 any(isinstance(t, ast.Name) and t.id == e.id for t in st.targets[0].elts)]
        for st in tdefs:
            # q, wc = transformed.broadcast(x): q has the element type of x
            v = st.value
            if isinstance(v, ast.Call) and isinstance(v.func, ast.Attribute) and v.func.attr == "broadcast" and v.args and \
                    st.targets[0].elts[0].id == e.id:
                return _float_normalised(prog, fi, v.args[0], depth + 1)
            return False
        if e.id in fi.params:
            # parameter of a private helper: every call site must pass a float-normalised array
            if not fi.name.startswith("_"):
                return False
            i = fi.params.index(e.id)
            sites = []
            for k2, f2 in prog.functions.items():
                for c in calls_in(f2.node):
                    if fi.key in prog.resolve_call(f2, c):
                        off = 1 if fi.params and fi.params[0] == "self" else 0
                        if i - off < len(c.args):
                            sites.append((f2, c.args[i - off]))
            return bool(sites) and all(_float_normalised(prog, f2, a, depth + 1) for f2, a in sites)
    return False


def _r9(ctx):
    prog = ctx.prog
    ctx.rule("R-C08-9", floor=2, what="result arrays shaped like an input get a floating element type (integer input must not truncate slopes/cycles)")
    ci = prog.cls(WC)
    n = 0
    for name, defs in ci.methods.items():
        fi = defs[-1]
        for c in calls_in(fi.node):
            fn = call_name(c) or ""
            if fn in ("np.full_like", "np.zeros_like", "np.empty_like", "np.ones_like") and c.args:
                n += 1
                dt = next((k.value for k in c.keywords if k.arg == "dtype"), None)
                if dt is not None and norm_text(dt) in ("np.double", "np.float64", "float", "np.float_"):
                    ctx.holds(fi, c, "%s(..., dtype=%s)" % (fn, norm_text(dt)))
                elif dt is None and _float_normalised(prog, fi, c.args[0]):
                    ctx.holds(fi, c, "%s of an array that was converted to float before" % fn)
                else:
                    ctx.violated(fi, c, "%s takes the element type of %s, which can be an integer input: slopes / cycle numbers "
                                 "stored into it are truncated, so integer and float arguments give different results" %
                                 (norm_text(c)[:70], norm_text(c.args[0])))
    if n < 2:
        raise AnalysisError("expected >= 2 *_like constructions in WoehlerCurve, found %d" % n)


def _r10(ctx):
    prog = ctx.prog
    ctx.rule("R-C08-10", floor=10, what="no method other than the constructor writes into the curve data of the object it is called on")
    eff = Effects(prog)
    base = prog.cls(WC)
    for ci in [base] + prog.subclasses(base.key):
        for name, defs in ci.methods.items():
            f = defs[-1]
            if name in ("__init__", "_validate") or f.is_setter():
                continue
            summ = eff.summary(f)
            if summ is None:
                raise AnalysisError("effect summary of %s unavailable" % f.key)
            # the broadcaster's paired temporary re-coding (restored on every normal path, decided by C13) is not a write
            bad = [e for e in summ["effects"] if e.origin == ("self", "_obj") and
                   not e.func.startswith("pylife.core.broadcaster:")]
            if bad:
                e = bad[0]
                node = next((st for st in walk_function(f.node) if isinstance(st, ast.stmt) and st.lineno == e.lineno), f.node)
                ctx.violated(f, node, "%s.%s writes into the curve data of the object it is called on (%s at line %d): the original "
                             "curve is altered" % (ci.name, name, e.kind, e.lineno), text="%s.%s %s" % (ci.name, name, e.kind))
            else:
                ctx.holds(f, f.node, "%s.%s leaves the curve data untouched" % (ci.name, name))


def _r1(ctx):
    prog = ctx.prog
    ctx.rule("R-C08-1", floor=3, what="Miner modifiers: fresh copy, write only k_2, value inf / k_1 / 2k_1-1, class constructor")
    eff = Effects(prog)
    want = {"miner_original": None, "miner_elementary": "k1", "miner_haibach": "2*k1 - 1"}
    for name, ref in want.items():
        f = prog.func(WC + "." + name)
        s = eff.summary(f)
        caller_eff = [e for e in s["effects"] if e.origin == ("self", "_obj") or e.origin[0] == "param"]
        stores = [st for st in walk_function(f.node) if isinstance(st, ast.Assign) and isinstance(st.targets[0], ast.Subscript)]
        ret = [st for st in f.node.body if isinstance(st, ast.Return)]
        problems = []
        if caller_eff:
            problems.append("writes into the original curve (%s at line %d)" % (caller_eff[0].kind, caller_eff[0].lineno))
        keys = [const_value(st.targets[0].slice) for st in stores]
        if keys != ["k_2"]:
            problems.append("writes keys %s, only k_2 may change" % keys)
        else:
            v = stores[0].value
            if ref is None:
                ok = norm_text(v) in ("np.inf", "float('inf')", "numpy.inf", "math.inf")
            else:
                try:
                    ok = to_nf(v, atom=_atom) == to_nf(parse_expr(ref), atom=_atom)
                except NFUnsupported:
                    ok = False
            if not ok:
                problems.append("k_2 := %s, expected %s" % (norm_text(v), ref or "inf"))
            tgt = stores[0].targets[0].value
            defs = [st for st in f.node.body if isinstance(st, ast.Assign) and isinstance(st.targets[0], ast.Name)
                    and isinstance(tgt, ast.Name) and st.targets[0].id == tgt.id]
            fresh = defs and isinstance(defs[0].value, ast.Call) and isinstance(defs[0].value.func, ast.Attribute) and \
                defs[0].value.func.attr == "copy" and is_self_attr(defs[0].value.func.value, "_obj")
            if not fresh:
                problems.append("the modified object is not a copy of the curve data")
            rc = ret[0].value if ret else None
            built = isinstance(rc, ast.Call) and rc.args and isinstance(rc.args[0], ast.Name) and isinstance(tgt, ast.Name) \
                and rc.args[0].id == tgt.id and norm_text(rc.func) in ("self.__class__", "type(self)", "WoehlerCurve")
            if not built:
                problems.append("result is not built from the modified copy through the class constructor")
        if problems:
            ctx.violated(f, stores[0] if stores else f.node, "%s: %s" % (name, "; ".join(problems)), text="%s: %s" % (name, problems[0]))
        else:
            ctx.holds(f, stores[0], "%s: copy, k_2 := %s, %s(new)" % (name, ref or "inf", norm_text(ret[0].value.func)))


def _r2(ctx):
    prog = ctx.prog
    ctx.rule("R-C08-2", floor=4, what="constructors reach no write into the caller's pandas object")
    eff = Effects(prog)
    base = prog.cls(WC)
    classes = [base] + prog.subclasses(base.key)
    for ci in classes:
        init = prog.lookup_method(ci, "__init__")
        if init is None:
            raise AnalysisError("%s has no constructor" % ci.key)
        s = eff.summary(init)
        _, _, IN, icfg = eff.analyse(init)
        stored = {}
        for n in icfg.nodes():
            st = icfg.stmt[n]
            if isinstance(st, ast.Assign) and icfg.kind[n] == "stmt" and IN.get(n) is not None:
                for t in st.targets:
                    if is_self_attr(t):
                        stored.setdefault(t.attr, set()).update(eff.aval(st.value, IN[n], init))
        bad = []
        for e in s["effects"]:
            if e.origin[0] == "param":
                bad.append(e)
            elif e.origin[0] == "self" and any(o[0] == "param" for o, m in stored.get(e.origin[1], ())):
                bad.append(e)
            elif e.origin[0] == "self" and e.origin[1] not in stored:
                raise AnalysisError("%s: attribute %s written by the constructor chain is not set in __init__" %
                                    (ci.key, e.origin[1]))
        if bad:
            e = bad[0]
            fi = prog.functions[e.func]
            node = next((st for st in walk_function(fi.node) if isinstance(st, ast.stmt) and st.lineno == e.lineno), None)
            ctx.violated(init, init.node, "constructing %s writes into the caller's object (%s in %s, line %d): merely "
                         "accessing the accessor alters the user's Series" % (ci.name, e.kind, e.func.split(":")[1], e.lineno),
                         text="%s ctor writes %s" % (ci.name, e.kind))
        else:
            ctx.holds(init, init.node, "%s(...) stores a copy; %d internal writes all hit the copy" %
                      (ci.name, len(s["effects"])))


def _returned_array(f):
    """name of the array the function returns (directly or wrapped in pd.Series)"""
    names = set()
    for r in [s for s in f.node.body if isinstance(s, (ast.Return, ast.If))]:
        for x in ast.walk(r):
            if isinstance(x, ast.Return) and x.value is not None:
                v = x.value
                if isinstance(v, ast.Call) and call_name(v) == "pd.Series" and v.args:
                    v = v.args[0]
                if isinstance(v, ast.Name):
                    names.add(v.id)
    if len(names) != 1:
        raise AnalysisError("%s: returned array not unique: %s" % (f.key, sorted(names)))
    return names.pop()


def _finite_formula(f, target=None):
    target = _returned_array(f)
    st = [s for s in walk_function(f.node) if isinstance(s, ast.Assign) and isinstance(s.targets[0], ast.Subscript)
          and isinstance(s.targets[0].value, ast.Name) and s.targets[0].value.id == target]
    if len(st) != 1:
        raise AnalysisError("%s: finite-life store into %s not found" % (f.key, target))
    return st[0]


def _r11(ctx):
    """cycles() and load() evaluate the curve transformed to the requested failure probability - on every path: the object
    whose parameters are broadcast against the argument is the result of transform_to_failure_probability(<the parameter>),
    never the curve as given (its native probability need not be the default)."""
    from ..dataflow import reaching_names
    prog = ctx.prog
    ctx.rule("R-C08-11", floor=2, what="cycles/load use the curve transformed to the requested probability on every path")
    for name in ("basquin_cycles", "basquin_load"):
        f = prog.func(WC + "." + name)
        fp = [q for q in f.params if "prob" in q]
        bc = [s_ for s_ in f.node.body if isinstance(s_, ast.Assign) and isinstance(s_.value, ast.Call) and
              isinstance(s_.value.func, ast.Attribute) and s_.value.func.attr == "broadcast"]
        if len(bc) != 1 or not fp or not isinstance(bc[0].value.func.value, ast.Name):
            raise AnalysisError("%s: broadcast of the transformed curve not found" % name)
        recv = bc[0].value.func.value.id
        defs = [s_ for s_ in walk_function(f.node) if isinstance(s_, ast.Assign) and any(isinstance(t, ast.Name) and t.id == recv
                                                                                          for t in s_.targets)]
        bad = [d for d in defs if not (isinstance(d.value, ast.Call) and isinstance(d.value.func, ast.Attribute) and
                                       is_self_attr(d.value.func, "transform_to_failure_probability") and d.value.args and
                                       isinstance(d.value.args[0], ast.Name) and d.value.args[0].id == fp[0])]
        if defs and not bad:
            ctx.holds(f, bc[0], "%s: parameters come from transform_to_failure_probability(%s) (%d definition(s))" % (name, fp[0], len(defs)))
        else:
            ctx.violated(f, (bad or bc)[0], "%s: on some path the curve is used as given (%s) instead of being transformed to the "
                         "requested failure probability: for a curve whose native probability is not the requested one the result "
                         "belongs to another probability" % (name, norm_text((bad or bc)[0])), text="untransformed curve in " + name)


def _broadcast_names(f):
    """(quantity, curve) locals from  `q, wc = transformed.broadcast(<param>)`"""
    for s in f.node.body:
        if isinstance(s, ast.Assign) and isinstance(s.targets[0], ast.Tuple) and isinstance(s.value, ast.Call) and \
                isinstance(s.value.func, ast.Attribute) and s.value.func.attr == "broadcast" and len(s.targets[0].elts) == 2:
            return s.targets[0].elts[0].id, s.targets[0].elts[1].id
    raise AnalysisError("%s: broadcast unpacking not found" % f.key)


def _r3(ctx):
    prog = ctx.prog
    ctx.rule("R-C08-3", floor=6, what="basquin_load o basquin_cycles == id on the finite branch (normal form); infinite default")
    fc = prog.func(WC + ".basquin_cycles")
    fl = prog.func(WC + ".basquin_load")
    sc = _finite_formula(fc)
    sl = _finite_formula(fl)
    ld_name, _ = _broadcast_names(fc)
    cyc_name, _ = _broadcast_names(fl)

    def kname(f):
        d = [s for s in f.node.body if isinstance(s, ast.Assign) and isinstance(s.targets[0], ast.Name) and
             isinstance(s.value, ast.Call) and isinstance(s.value.func, ast.Attribute) and s.value.func.attr == "_make_k"]
        if len(d) != 1:
            raise AnalysisError("%s: slope array from _make_k not found" % f.key)
        return d[0].targets[0].id
    knames = {kname(fc), kname(fl)}

    def atom(e):
        e2 = _strip(e)
        if e2 is not e:
            return None
        if isinstance(e, ast.Attribute) and isinstance(e.value, ast.Name):
            return e.attr            # any curve parameter (SD, ND, k_1, ...) is a symbol of its own
        if isinstance(e, ast.Name) and e.id == ld_name:
            return "L"
        if isinstance(e, ast.Name) and e.id == cyc_name:
            return "N"
        if isinstance(e, ast.Name) and e.id in knames:
            return "k"
        if isinstance(e, ast.Name):
            return e.id
        return None
    try:
        N_of_L = to_nf(sc.value, atom=atom, strip=_strip)
        L_of_N = to_nf(sl.value, atom=atom, strip=_strip)
        # compose
        comp1 = Translator(atom=lambda e: (N_of_L if (isinstance(_strip(e), ast.Name) and _strip(e).id == cyc_name and _strip(e) is e) else atom(e)),
                           strip=_strip).tr(sl.value)
        comp2 = Translator(atom=lambda e: (L_of_N if (isinstance(_strip(e), ast.Name) and _strip(e).id == ld_name and _strip(e) is e) else atom(e)),
                           strip=_strip).tr(sc.value)
    except NFUnsupported as e:
        raise AnalysisError("Basquin formulas outside the normal-form fragment: %s" % e)
    want_N = to_nf(parse_expr("ND*(L/SD)**(-k)"))
    want_L = to_nf(parse_expr("SD*(N/ND)**(-1/k)"))
    if N_of_L == want_N:
        ctx.holds(fc, sc, "cycles = ND*(L/SD)^-k")
    else:
        ctx.violated(fc, sc, "finite-life cycles are %r; Basquin's law is ND*(L/SD)^-k" % N_of_L)
    if L_of_N == want_L:
        ctx.holds(fl, sl, "load = SD*(N/ND)^(-1/k)")
    else:
        ctx.violated(fl, sl, "finite-life load is %r; Basquin's law is SD*(N/ND)^(-1/k)" % L_of_N)
    if comp1 == RF.sym("L"):
        ctx.holds(fl, sl, "load(cycles(L)) == L")
    else:
        ctx.violated(fl, sl, "load(cycles(L)) normalises to %r, not L: the two directions are not inverse" % comp1, text="load o cycles")
    if comp2 == RF.sym("N"):
        ctx.holds(fc, sc, "cycles(load(N)) == N")
    else:
        ctx.violated(fc, sc, "cycles(load(N)) normalises to %r, not N" % comp2, text="cycles o load")
    # monotone: d cycles / d load < 0 (k > 0) ; continuity at the knee: N(SD) == ND and L(ND) == SD for either slope
    from ..nf import derivative, _poly_sign, _subst_atom
    dN = derivative(N_of_L, "L")
    if dN.den.as_const() is not None and _poly_sign(dN.num) == -1 * (1 if dN.den.as_const() > 0 else -1):
        ctx.holds(fc, sc, "d cycles / d load = %r < 0: allowable cycles are non-increasing in the load" % dN)
    else:
        ctx.violated(fc, sc, "d cycles / d load = %r is not negative for positive k: cycles would not decrease with the load" % dN,
                     text="monotone")
    if _subst_atom(N_of_L, "L", RF.sym("SD")) == RF.sym("ND") and _subst_atom(L_of_N, "N", RF.sym("ND")) == RF.sym("SD"):
        ctx.holds(fc, sc, "continuity at the knee: cycles(SD) == ND and load(ND) == SD for every slope")
    else:
        ctx.violated(fc, sc, "the curve does not pass through the knee (SD, ND): cycles(SD) = %r, load(ND) = %r" %
                     (_subst_atom(N_of_L, "L", RF.sym("SD")), _subst_atom(L_of_N, "N", RF.sym("ND"))), text="knee")
    # defaults: infinite life / endurance limit outside the finite branch, finite mask = isfinite(k)
    d = [s for s in fc.node.body if isinstance(s, ast.Assign) and isinstance(s.targets[0], ast.Name) and s.targets[0].id == _returned_array(fc)]
    ok = d and isinstance(d[0].value, ast.Call) and call_name(d[0].value) in ("np.full_like", "np.full") and \
        norm_text(d[0].value.args[1]) in ("np.inf", "float('inf')")
    if ok:
        ctx.holds(fc, d[0], "outside the finite branch the life is infinite")
    else:
        ctx.violated(fc, d[0] if d else fc.node, "cycles outside the finite branch are not initialised to infinity")
    d = [s for s in fl.node.body if isinstance(s, ast.Assign) and isinstance(s.targets[0], ast.Name) and s.targets[0].id == _returned_array(fl)]
    ok = d and any(isinstance(n, ast.Attribute) and n.attr == "SD" for n in ast.walk(d[0].value)) and \
        any(isinstance(c.func, ast.Attribute) and c.func.attr == "copy" for c in calls_in(d[0].value))
    if ok:
        ctx.holds(fl, d[0], "outside the finite branch the load is the endurance limit (a copy of SD)")
    else:
        ctx.violated(fl, d[0] if d else fl.node, "load outside the finite branch is not a copy of the endurance limit SD")
    for f in (fc, fl):
        tgt = _finite_formula(f).targets[0]
        mname = tgt.slice.id if isinstance(tgt.slice, ast.Name) else None
        m = [s for s in f.node.body if isinstance(s, ast.Assign) and isinstance(s.targets[0], ast.Name) and s.targets[0].id == mname]
        if m and isinstance(m[0].value, ast.Call) and call_name(m[0].value) == "np.isfinite" and \
                isinstance(m[0].value.args[0], ast.Name) and m[0].value.args[0].id in knames:
            ctx.holds(f, m[0], "finite branch = finite slope")
        else:
            ctx.violated(f, m[0] if m else f.node, "finite-branch mask is not np.isfinite(k)")


def _r4(ctx):
    prog = ctx.prog
    ctx.rule("R-C08-4", floor=3, what="slope selectors are mirror images: load < SD  <=>  cycles > ND ; k_2 below the limit")
    mk = prog.func(WC + "._make_k")
    src, ref = mk.params[1], mk.params[2]
    bl = [s for s in mk.node.body if isinstance(s, ast.Assign) and isinstance(s.targets[0], ast.Name)
          and any(isinstance(n, ast.Compare) for n in ast.walk(s.value))]
    if len(bl) != 1:
        raise AnalysisError("_make_k: below-limit mask not found")
    cmp_ = [n for n in ast.walk(bl[0].value) if isinstance(n, ast.Compare)][0]
    ok = isinstance(cmp_.ops[0], ast.Lt) and norm_text(cmp_.left) == src and norm_text(cmp_.comparators[0]) == ref
    if ok:
        ctx.holds(mk, bl[0], "below-limit mask is src < ref (strict: the knee itself keeps k_1)")
    else:
        ctx.violated(mk, bl[0], "below-limit mask is %s, expected %s < %s" % (norm_text(cmp_), src, ref))
    st = [s for s in mk.node.body if isinstance(s, ast.Assign) and isinstance(s.targets[0], ast.Subscript)]
    mask = bl[0].targets[0].id
    rk = [s for s in mk.node.body if isinstance(s, ast.Return)][-1]
    kn = rk.value.id if isinstance(rk.value, ast.Name) else None
    k2n = [s.targets[0].id for s in mk.node.body if isinstance(s, ast.Assign) and isinstance(s.targets[0], ast.Name) and
           any(isinstance(n, ast.Attribute) and n.attr == "k_2" for n in ast.walk(s.value))]
    ok = len(st) == 1 and kn is not None and k2n and norm_text(st[0].targets[0]) == "%s[%s]" % (kn, mask) and \
        norm_text(st[0].value) == "%s[%s]" % (k2n[0], mask)
    k0 = [s for s in mk.node.body if isinstance(s, ast.Assign) and isinstance(s.targets[0], ast.Name) and s.targets[0].id == kn]
    ok = ok and k0 and any(isinstance(n, ast.Attribute) and n.attr == "k_1" for n in ast.walk(k0[0].value)) and \
        any(isinstance(c.func, ast.Attribute) and c.func.attr == "copy" for c in calls_in(k0[0].value))
    if ok:
        ctx.holds(mk, st[0], "k = copy of k_1, replaced by k_2 exactly below the limit")
    else:
        ctx.violated(mk, st[0] if st else mk.node, "slope selection is not 'copy of k_1, k_2 below the limit'")
    calls = {}
    for name in ("basquin_cycles", "basquin_load"):
        f = prog.func(WC + "." + name)
        cs = [c for c in calls_in(f.node) if isinstance(c.func, ast.Attribute) and c.func.attr == "_make_k"]
        if len(cs) != 1:
            raise AnalysisError("%s: _make_k call not found" % name)
        calls[name] = (f, cs[0])
    f, c = calls["basquin_cycles"]
    a, b = c.args[0], c.args[1]
    ok1 = isinstance(a, ast.Name) and isinstance(b, ast.Attribute) and b.attr == "SD"
    f2, c2 = calls["basquin_load"]
    a2, b2 = c2.args[0], c2.args[1]
    neg = lambda e: isinstance(e, ast.UnaryOp) and isinstance(e.op, ast.USub)
    ok2 = neg(a2) and neg(b2) and isinstance(b2.operand, ast.Attribute) and b2.operand.attr == "ND"
    if ok1 and ok2:
        ctx.holds(f2, c2, "cycles direction selects load < SD, load direction selects -cycles < -ND, i.e. cycles > ND")
    else:
        ctx.violated(f2, c2, "slope selectors are not mirror images: cycles direction %s, load direction %s (needed: load < SD "
                     "and cycles > ND)" % (norm_text(c), norm_text(c2)))


def _r5(ctx):
    prog = ctx.prog
    ctx.rule("R-C08-5", floor=1, what="TS = TN^(1/k_1) and TN = TS^k_1 are mutual inverses")
    v = prog.func(WC + "._validate")
    ts = [s for s in walk_function(v.node) if isinstance(s, ast.Assign) and is_self_attr(s.targets[0], "_TS")
          and isinstance(s.value, (ast.Call, ast.BinOp)) and any(is_self_attr(n, "_TN") for n in ast.walk(s.value))]
    tn = [s for s in walk_function(v.node) if isinstance(s, ast.Assign) and is_self_attr(s.targets[0], "_TN")
          and isinstance(s.value, (ast.Call, ast.BinOp)) and any(is_self_attr(n, "_TS") for n in ast.walk(s.value))]
    if len(ts) != 1 or len(tn) != 1:
        raise AnalysisError("_validate: TN/TS conversions not found")

    def atom(e):
        if is_self_attr(e, "_TN"):
            return "TN"
        if is_self_attr(e, "_TS"):
            return "TS"
        return _atom(e)
    try:
        ts_of_tn = to_nf(ts[0].value, atom=atom)
        comp = Translator(atom=lambda e: ts_of_tn if is_self_attr(e, "_TS") else atom(e)).tr(tn[0].value)
    except NFUnsupported as e:
        raise AnalysisError("TN/TS conversion outside the fragment: %s" % e)
    if ts_of_tn == to_nf(parse_expr("TN**(1/k1)")) and comp == RF.sym("TN"):
        ctx.holds(v, ts[0], "TS = TN^(1/k_1); TN(TS(TN)) == TN")
    else:
        ctx.violated(v, ts[0], "scatter conversions are not mutual inverses: TS(TN) = %r, TN(TS(TN)) = %r" % (ts_of_tn, comp))
    # which branch computes which
    for s, missing, given in ((ts[0], "_TS", "_TN"), (tn[0], "_TN", "_TS")):
        p = getattr(s, "_parent", None)
        t = norm_text(p.test) if isinstance(p, ast.If) else ""
        if "self.%s is None" % missing in t:
            ctx.holds(v, s, "%s derived only when it is missing" % missing)
        else:
            ctx.violated(v, s, "%s is recomputed under the condition %r instead of only when it is missing" % (missing, t))


def _fold_const(e):
    try:
        return to_nf(e).as_const()
    except NFUnsupported:
        return None


def _r6(ctx):
    prog = ctx.prog
    ctx.rule("R-C08-6", floor=2, what="scatter constants: c1*c2 = 1 and c2 = 2*z_0.9")
    U = "pylife.utils.functions:"
    f1 = prog.func(U + "scattering_range_to_std")
    f2 = prog.func(U + "std_to_scattering_range")
    r1 = [s for s in f1.node.body if isinstance(s, ast.Return)][-1]
    r2 = [s for s in f2.node.body if isinstance(s, ast.Return)][-1]
    # c1 * log10(T)
    c1 = c2 = None
    v = r1.value
    if isinstance(v, ast.BinOp) and isinstance(v.op, ast.Mult):
        for a, b in ((v.left, v.right), (v.right, v.left)):
            if isinstance(b, ast.Call) and call_name(b) in ("np.log10", "math.log10") and _fold_const(a) is not None:
                c1 = _fold_const(a)
    v = r2.value
    if isinstance(v, ast.BinOp) and isinstance(v.op, ast.Pow) and const_value(v.left) == 10 and isinstance(v.right, ast.BinOp) \
            and isinstance(v.right.op, ast.Mult):
        for a, b in ((v.right.left, v.right.right), (v.right.right, v.right.left)):
            if isinstance(b, ast.Name) and _fold_const(a) is not None:
                c2 = _fold_const(a)
    if c1 is None or c2 is None:
        raise AnalysisError("scatter conversion functions are not c1*log10(T) and 10**(c2*std)")
    prod = float(c1 * c2)
    if abs(prod - 1) < 1e-12:
        ctx.holds(f1, r1, "c1*c2 = 1 (|c1*c2-1| = %.1e): the two conversions are inverse" % abs(prod - 1))
    else:
        ctx.violated(f1, r1, "c1*c2 = %.15g: scattering_range_to_std and std_to_scattering_range are not inverse" % prod)
    z = 2 * NormalDist().inv_cdf(0.9)
    if abs(float(c2) - z) < 1e-12:
        ctx.holds(f2, r2, "c2 = 2*z_0.9 = %.16g: T = 10^(2 z_0.9 s)" % z)
    else:
        ctx.violated(f2, r2, "c2 = %.16g differs from 2*z_0.9 = %.16g: N_90/N_10 would not equal TN" % (float(c2), z))


def _r7(ctx):
    prog = ctx.prog
    ctx.rule("R-C08-7", floor=4, what="probability shift: same probit difference for SD and ND, std of TS resp. TN, new native probability = goal")
    f = prog.func(WC + ".transform_to_failure_probability")
    goal = [p for p in f.params if p != "self"][0]
    defs = {}
    for s in f.node.body:
        if isinstance(s, ast.Assign) and isinstance(s.targets[0], ast.Name):
            defs.setdefault(s.targets[0].id, []).append(s)
    # roles: what is stored under the keys of the transformed curve
    stored = {}
    for s in f.node.body:
        if isinstance(s, ast.Assign) and isinstance(s.targets[0], ast.Subscript) and isinstance(const_value(s.targets[0].slice), str) \
                and isinstance(s.targets[0].value, ast.Name):
            stored[const_value(s.targets[0].slice)] = (s, s.value)
    for k in ("SD", "ND"):
        if k not in stored:
            raise AnalysisError("transform_to_failure_probability: transformed[%r] is not stored" % k)
    tname = stored["SD"][0].targets[0].value.id

    def ppf_source(name):
        d = defs.get(name, [])
        if len(d) != 1:
            return None
        v = d[0].value
        return v.args[0] if isinstance(v, ast.Call) and (call_name(v) or "").endswith("norm.ppf") and v.args else None

    def shape(key, scatter):
        s_, val = stored[key]
        if not isinstance(val, ast.Name) or len(defs.get(val.id, [])) != 1:
            return "transformed[%r] is not a single local definition" % key, None
        d = defs[val.id][0]
        v = d.value
        while isinstance(v, ast.Call) and call_name(v) in ("np.asarray", "np.array"):
            v = v.args[0]
        if not (isinstance(v, ast.BinOp) and isinstance(v.op, ast.Div) and isinstance(v.left, ast.Attribute) and v.left.attr == key):
            return "not %s / 10**(...)" % key, d
        dv = v.right
        if not (isinstance(dv, ast.BinOp) and isinstance(dv.op, ast.Pow) and const_value(dv.left) == 10):
            return "divisor is not a power of ten", d
        ex = dv.right
        if not (isinstance(ex, ast.BinOp) and isinstance(ex.op, ast.Mult)):
            return "exponent is not a product", d
        parts = [ex.left, ex.right]
        diff = [p_ for p_ in parts if isinstance(p_, ast.BinOp) and isinstance(p_.op, ast.Sub)]
        std = [p_ for p_ in parts if isinstance(p_, ast.Call) and (call_name(p_) or "").endswith("scattering_range_to_std")]
        if len(diff) != 1 or len(std) != 1:
            return "exponent is not (probit difference) * std", d
        a, b = diff[0].left, diff[0].right
        sa = ppf_source(a.id) if isinstance(a, ast.Name) else None
        sb = ppf_source(b.id) if isinstance(b, ast.Name) else None
        native_ok = isinstance(sa, ast.Attribute) and sa.attr == "failure_probability"
        goal_ok = isinstance(sb, ast.Name) and sb.id == goal
        if not (native_ok and goal_ok):
            return "probit difference is %s with sources (%s, %s); expected native(curve) - goal(argument)" % (
                norm_text(diff[0]), norm_text(sa) if sa is not None else None, norm_text(sb) if sb is not None else None), d
        arg = std[0].args[0]
        if not (isinstance(arg, ast.Attribute) and arg.attr == scatter):
            return "std is taken from %s, expected %s" % (norm_text(arg), scatter), d
        return None, d
    for key, sc in (("SD", "TS"), ("ND", "TN")):
        p, d = shape(key, sc)
        if p is None:
            ctx.holds(f, d, "%s' = %s / 10^((z_native - z_goal) * s(%s)), probits from the curve's own and the requested probability" % (key, key, sc))
        else:
            ctx.violated(f, d or f.node, "shift of %s: %s" % (key, p), text="shift %s: %s" % (key, p[:60]))
    st, val = stored.get("failure_probability", (f.node, None))
    if isinstance(val, ast.Name) and val.id == goal:
        ctx.holds(f, st, "the transformed curve's native probability is the goal probability")
    else:
        ctx.violated(f, st, "the transformed curve does not record the goal as its native failure "
                     "probability: transforming again would start from the wrong quantile")
    base = defs.get(tname, [])
    ok = base and isinstance(base[0].value, ast.Call) and isinstance(base[0].value.func, ast.Attribute) and base[0].value.func.attr == "copy"
    if ok:
        ctx.holds(f, base[0], "the transformed data is a copy")
    else:
        ctx.violated(f, base[0] if base else f.node, "the transformed curve is not built on a copy of the broadcast data")
    # knee shift along the k_1 line
    sdn = stored["SD"][1].id if isinstance(stored["SD"][1], ast.Name) else None
    ndn = stored["ND"][1].id if isinstance(stored["ND"][1], ast.Name) else None
    aug = [s for s in f.node.body if isinstance(s, ast.AugAssign) and isinstance(s.op, ast.Mult)]
    ok = False
    if len(aug) == 1 and isinstance(aug[0].value, ast.Call) and call_name(aug[0].value) == "np.power" and \
            isinstance(_strip(aug[0].target), ast.Name) and _strip(aug[0].target).id == ndn:
        b, e = aug[0].value.args
        try:
            ok = to_nf(b, atom=lambda x: ("SDn" if isinstance(_strip(x), ast.Name) and _strip(x).id == sdn and _strip(x) is x else
                                          ("SD0" if isinstance(x, ast.Attribute) and x.attr == "SD" else None)), strip=_strip) \
                == to_nf(parse_expr("SDn/SD0")) and to_nf(e, atom=_atom) == to_nf(parse_expr("-k1"), atom=_atom)
        except NFUnsupported:
            ok = False
    if ok:
        ctx.holds(f, aug[0], "ND' additionally moves along the k_1 line: *(SD'/SD)^-k_1")
    else:
        ctx.violated(f, aug[0] if aug else f.node, "knee cycle number is not moved along the k_1 line by (SD'/SD)^-k_1")


def _r8(ctx):
    prog = ctx.prog
    ctx.rule("R-C08-8", floor=3, what="cycles/load delegate to basquin_cycles/basquin_load; subclasses do not re-implement them")
    for name, target in (("cycles", "basquin_cycles"), ("load", "basquin_load")):
        f = prog.func(WC + "." + name)
        r = [s for s in f.node.body if isinstance(s, ast.Return)]
        params = [p for p in f.params if p != "self"]
        ok = r and isinstance(r[0].value, ast.Call) and isinstance(r[0].value.func, ast.Attribute) and \
            is_self_attr(r[0].value.func, target) and [norm_text(a) for a in r[0].value.args] == params
        if ok:
            ctx.holds(f, r[0], "%s(%s) -> %s(%s)" % (name, ", ".join(params), target, ", ".join(params)))
        else:
            ctx.violated(f, r[0] if r else f.node, "%s does not delegate to %s with its arguments in order" % (name, target))
    base = prog.cls(WC)
    over = []
    for ci in prog.subclasses(base.key):
        for m in ("cycles", "load", "basquin_cycles", "basquin_load", "_make_k", "transform_to_failure_probability",
                  "miner_original", "miner_elementary", "miner_haibach"):
            if m in ci.methods:
                over.append((ci, m))
    if over:
        ci, m = over[0]
        ctx.violated(ci.methods[m][-1], ci.methods[m][-1].node, "%s re-implements %s instead of inheriting it" % (ci.name, m),
                     text="%s.%s" % (ci.name, m))
    else:
        ctx.holds(base.key, None, "%d subclasses inherit cycles/load/Basquin/transform/Miner modifiers unchanged" %
                  len(prog.subclasses(base.key)))


# =========================================================================== variants

WP = "src/pylife/materiallaws/woehlercurve.py"
UF = "src/pylife/utils/functions.py"


def variants():
    out = []

    def skip_transform_at_default(tree):
        f = find_func(tree, "WoehlerCurve.basquin_cycles")
        for i, st in enumerate(f.body):
            if isinstance(st, ast.Assign) and "transform_to_failure_probability" in ast.unparse(st.value):
                t = st.targets[0].id
                f.body[i] = parse_stmt("if failure_probability == 0.5:\n    %s = self\nelse:\n    %s" % (t, ast.unparse(st)))
                return True
        return False
    out.append(witness("cycles() skips the transformation at the default probability", WP, skip_transform_at_default, "R-C08-11"))

    def haibach_inplace(tree):
        f = find_func(tree, "WoehlerCurve.miner_haibach")
        st = [x for x in f.body if isinstance(x, ast.Assign) and isinstance(x.targets[0], ast.Name)][0]
        st.value = parse_expr("self._obj")
        return True
    out.append(witness("miner_haibach writes into self._obj", WP, haibach_inplace, "R-C08-1"))

    def haibach_val(tree):
        f = find_func(tree, "WoehlerCurve.miner_haibach")
        st = [x for x in f.body if isinstance(x, ast.Assign) and isinstance(x.targets[0], ast.Subscript)][0]
        st.value = parse_expr("2.0 * self._obj.k_1 - 2.0")
        return True
    out.append(witness("k_2 = 2k-2", WP, haibach_val, "R-C08-1"))

    def orig_key(tree):
        f = find_func(tree, "WoehlerCurve.miner_original")
        st = [x for x in f.body if isinstance(x, ast.Assign) and isinstance(x.targets[0], ast.Subscript)][0]
        st.targets[0].slice = ast.Constant("k_1")
        return True
    out.append(witness("miner_original writes k_1", WP, orig_key, "R-C08-1"))

    def el_ctor(tree):
        f = find_func(tree, "WoehlerCurve.miner_elementary")
        f.body[-1].value = ast.Name(id="new", ctx=ast.Load())
        return True
    out.append(witness("miner_elementary returns the raw Series", WP, el_ctor, "R-C08-1"))

    def no_copy(tree):
        f = find_func(tree, "WoehlerCurve.__init__")
        f.body[0].value = ast.Name(id="pandas_obj", ctx=ast.Load())
        return True
    out.append(witness("constructor keeps the caller's object", WP, no_copy, "R-C08-2"))

    def sub_init(tree):
        # a subclass overrides __init__ without copying
        for n in ast.walk(tree):
            if isinstance(n, ast.ClassDef) and n.name == "MinerBase":
                n.body.insert(0, ast.parse("def __init__(self, pandas_obj):\n    self._obj = pandas_obj\n    self._validate()").body[0])
                return True
        return False
    out.append(witness("MinerBase overrides __init__ without copy", "src/pylife/strength/miner.py", sub_init, "R-C08-2"))

    def cyc_expo(tree):
        f = find_func(tree, "WoehlerCurve.basquin_cycles")
        for c in calls_in(f, name="np.power"):
            c.args[1] = c.args[1].operand
            return True
        return False
    out.append(witness("cycles with exponent +k", WP, cyc_expo, "R-C08-3"))

    def load_expo(tree):
        f = find_func(tree, "WoehlerCurve.basquin_load")
        for c in calls_in(f, name="np.power"):
            c.args[1] = parse_expr("-2.0 / k[in_limit]")
            return True
        return False
    out.append(witness("load exponent -2/k", WP, load_expo, "R-C08-3"))

    def load_default(tree):
        f = find_func(tree, "WoehlerCurve.basquin_load")
        for s in f.body:
            if isinstance(s, ast.Assign) and isinstance(s.targets[0], ast.Name) and s.targets[0].id == "load":
                s.value = parse_expr("np.asarray(wc.SD)")
                return True
        return False
    out.append(witness("load default aliases SD", WP, load_default, "R-C08-3"))

    def sel_le(tree):
        f = find_func(tree, "WoehlerCurve._make_k")
        for n in ast.walk(f):
            if isinstance(n, ast.Compare) and isinstance(n.ops[0], ast.Lt):
                n.ops = [ast.LtE()]
                return True
        return False
    out.append(witness("below-limit mask <=", WP, sel_le, "R-C08-4"))

    def sel_unneg(tree):
        f = find_func(tree, "WoehlerCurve.basquin_load")
        for c in calls_in(f, attr="_make_k"):
            c.args[0] = c.args[0].operand
            c.args[1] = c.args[1].operand
            return True
        return False
    out.append(witness("load direction selects cycles < ND", WP, sel_unneg, "R-C08-4"))

    def ts_conv(tree):
        f = find_func(tree, "WoehlerCurve._validate")
        for s in ast.walk(f):
            if isinstance(s, ast.Assign) and is_self_attr(s.targets[0], "_TN") and isinstance(s.value, ast.Call) \
                    and call_name(s.value) == "np.power":
                s.value.args[1] = parse_expr("1.0 / self._obj.k_1")
                return True
        return False
    out.append(witness("TN = TS^(1/k)", WP, ts_conv, "R-C08-5"))

    def const8(tree):
        f = find_func(tree, "scattering_range_to_std")
        for n in ast.walk(f):
            if isinstance(n, ast.Constant) and isinstance(n.value, float):
                n.value = 0.39015217303618954
                return True
        return False
    out.append(witness("scatter constant perturbed in the 8th digit", UF, const8, "R-C08-6"))

    def const2(tree):
        f = find_func(tree, "std_to_scattering_range")
        for n in ast.walk(f):
            if isinstance(n, ast.Constant) and isinstance(n.value, float):
                n.value = 2.56310313
                return True
        return False
    out.append(witness("c2 truncated", UF, const2, "R-C08-6"))

    def no_fp(tree):
        f = find_func(tree, "WoehlerCurve.transform_to_failure_probability")
        f.body = [s for s in f.body if not (isinstance(s, ast.Assign) and isinstance(s.targets[0], ast.Subscript)
                                            and const_value(s.targets[0].slice) == "failure_probability")]
        return True
    out.append(witness("new failure_probability not recorded", WP, no_fp, "R-C08-7"))

    def nd_ts(tree):
        f = find_func(tree, "WoehlerCurve.transform_to_failure_probability")
        for s in f.body:
            if isinstance(s, ast.Assign) and isinstance(s.targets[0], ast.Name) and s.targets[0].id == "ND":
                for n in ast.walk(s.value):
                    if isinstance(n, ast.Attribute) and n.attr == "TN":
                        n.attr = "TS"
                        return True
        return False
    out.append(witness("ND shifted with the std of TS", WP, nd_ts, "R-C08-7"))

    def diff_sign(tree):
        f = find_func(tree, "WoehlerCurve.transform_to_failure_probability")
        for s in f.body:
            if isinstance(s, ast.Assign) and isinstance(s.targets[0], ast.Name) and s.targets[0].id == "SD":
                for n in ast.walk(s.value):
                    if isinstance(n, ast.BinOp) and isinstance(n.op, ast.Sub):
                        n.left, n.right = n.right, n.left
                        return True
        return False
    out.append(witness("probit difference reversed for SD", WP, diff_sign, "R-C08-7"))

    def deleg(tree):
        f = find_func(tree, "WoehlerCurve.load")
        f.body[-1].value.args = [f.body[-1].value.args[0]]
        return True
    out.append(witness("load() drops the failure probability", WP, deleg, "R-C08-8"))

    def like_dtype(tree):
        f = find_func(tree, "WoehlerCurve._make_k")
        for c in calls_in(f, name="np.full_like"):
            c.keywords = [k for k in c.keywords if k.arg != "dtype"]
        return True
    out.append(witness("full_like without dtype in _make_k", WP, like_dtype, "R-C08-9"))

    def no_float_norm(tree):
        f = find_func(tree, "WoehlerCurve.basquin_cycles")
        for st in list(f.body):
            if isinstance(st, ast.Assign) and isinstance(st.value, ast.Call) and isinstance(st.value.func, ast.Name) and \
                    st.value.func.id == "ensure_float_to_prevent_int_overflow":
                f.body.remove(st)
                return True
        return False
    out.append(witness("load no longer converted to float before full_like", WP, no_float_norm, "R-C08-9"))

    def transform_inplace(tree):
        f = find_func(tree, "WoehlerCurve.transform_to_failure_probability")
        for st in f.body:
            if isinstance(st, ast.Assign) and isinstance(st.value, ast.Call) and isinstance(st.value.func, ast.Attribute) and \
                    st.value.func.attr == "copy" and isinstance(st.targets[0], ast.Name):
                st.value = parse_expr("self._obj")
                return True
        return False
    out.append(witness("probability transform writes into the curve itself", WP, transform_inplace, "R-C08-10"))

    # twins
    def haibach_eq(tree):
        f = find_func(tree, "WoehlerCurve.miner_haibach")
        st = [x for x in f.body if isinstance(x, ast.Assign) and isinstance(x.targets[0], ast.Subscript)][0]
        st.value = parse_expr("self._obj.k_1 + self._obj.k_1 - 1")
        return True
    out.append(twin("k_2 = k+k-1", WP, haibach_eq))

    def cyc_div(tree):
        f = find_func(tree, "WoehlerCurve.basquin_cycles")
        st = [s for s in f.body if isinstance(s, ast.Assign) and isinstance(s.targets[0], ast.Subscript)][0]
        st.value = parse_expr("wc.ND[in_limit] / np.power(ld[in_limit] / wc.SD[in_limit], k[in_limit])")
        return True
    out.append(twin("cycles = ND / (L/SD)^k", WP, cyc_div))

    def const_expr(tree):
        f = find_func(tree, "scattering_range_to_std")
        for n in ast.walk(f):
            if isinstance(n, ast.Constant) and isinstance(n.value, float):
                return replace_node(n, parse_expr("(0.19507603651809477 * 2)"))
        return False
    out.append(twin("c1 written as a constant expression", UF, const_expr))
    return out
