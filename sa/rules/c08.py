"""C08 — Woehler curve (structural and algebraic clauses)."""
from __future__ import annotations

import ast
from fractions import Fraction
from statistics import NormalDist

from ..astutil import (call_name, calls_in, const_value, find_func, is_self_attr, names_in, parse_expr, parse_stmt,
                       replace_node, clone)
from ..astutil import inline_single_defs
from ..effects import Effects
from ..frontend import AnalysisError, walk_function
from ..nf import to_nf, NFUnsupported, RF, Translator
from ..report import norm_text
from ..witness import witness, twin

LEVEL = "other"
WC = "pylife.materiallaws.woehlercurve:WoehlerCurve"
EXPLANATION = (
    "Static decision of structural/algebraic clauses of C08. R-C08-1 (effect analysis + normal form): each Miner modifier "
    "works on a fresh copy of the curve data, writes only k_2, the written value is inf / k_1 / 2 k_1 - 1 in normal form, "
    "and the result is built through the class constructor. R-C08-2: the constructors of WoehlerCurve and every subclass "
    "(Fatigue, Miner accessors) reach no write into the caller's pandas object (the defaults are written into a copy). "
    "R-C08-3: the finite-life formulas extracted from basquin_cycles and basquin_load are mutual inverses in the "
    "symbolic-exponent normal form (SD*((ND*(L/SD)^-k)/ND)^(-1/k) == L and conversely), infinite life is the default "
    "outside the finite branch. R-C08-4: the slope selectors of the two directions are mirror images (load < SD vs "
    "cycles > ND) and k_2 is used exactly below the limit. R-C08-5: the TN<->TS conversions are mutual inverses. R-C08-6: "
    "the two scatter constants satisfy c1*c2 = 1 and c2 = 2*z_0.9. R-C08-7: the probability shift divides SD and ND by 10 to "
    "the same probit difference times the std of TS resp. TN, and the new object's native probability is the goal. R-C08-8: "
    "cycles/load delegate to basquin_cycles/basquin_load with arguments in order and no subclass re-implements them. Not "
    "decided: broadcast == element-wise evaluation, the numerical group law of the probability transform.")
EXPLANATION += (' R-C08-9: the curve data the accessor computes with has a float element type (integer input is converted). R-C08-10: apart from the documented temporaries of the broadcaster no write reaches the curve data of the accessor.')
EXPLANATION += (' R-C08-11: in basquin_cycles and basquin_load the object whose parameters are used is, on every path, transform_to_failure_probability(<requested probability>) of the curve.')
EXPLANATION += (' R-C08-12: no absolute tolerance (np.isclose, rounding, small fixed thresholds / offsets) on loads or cycle numbers in the Woehler curve module (shared rule sa/tolerance.py).')
EXPLANATION += (' R-C08-13 (shared state-family rules, sa/statefam.py): no method of the Woehler curve accessor returns the very object it keeps in a memo container of the accessor, no mutable class attribute is changed through an instance, no partially keyed memo.')
EXPLANATION += (' R-C08-14 (shared rule sa/units.py): in the Woehler curve module every power whose exponent is not a literal is taken of a quotient or of a scatter ratio (TN, TS), not of a quantity that carries the load or cycle unit.')
ASSUMPTIONS = [
    "k_1, SD, ND, TN, TS positive; np.power/** follow real powers on positive bases",
    "pandas .copy() returns an independent object",
]


def _atom(e):
    if isinstance(e, ast.Attribute) and e.attr in ("k_1", "k_2", "SD", "ND", "TN", "TS"):
        return {"k_1": "k1", "k_2": "k2"}.get(e.attr, e.attr)
    if isinstance(e, ast.Name):
        return e.id
    return None


def _strip(e):
    # x[in_limit] -> x ; np.asarray(x) -> x
    while True:
        if isinstance(e, ast.Subscript) and isinstance(e.slice, (ast.Name, ast.Compare)):
            e = e.value
        else:
            return e


def run(ctx):
    for r in (_r1, _r2, _r3, _r4, _r5, _r6, _r7, _r8, _r9, _r10, _r11, _r12, _r13, _r14, _r15):
        ctx.attempt(r)


_CURVE_PARAMETERS = ("k_1", "k_2", "SD", "ND", "TN", "TS", "failure_probability")


def parameter_reductions(fn_node):
    """branch tests that reduce a per-curve parameter (or a local computed from one) over ALL curves to one truth value:
    `np.isinf(k_2).any()`, `(SD == 0).all()`, `np.isin(native, requested).all()` -> [(node, text)]"""
    per_curve = set()
    changed = True
    while changed:
        changed = False
        for st in ast.walk(fn_node):
            if isinstance(st, ast.Assign) and len(st.targets) == 1 and isinstance(st.targets[0], ast.Name) and st.targets[0].id not in per_curve:
                if any(isinstance(n, ast.Attribute) and n.attr in _CURVE_PARAMETERS or isinstance(n, ast.Name) and n.id in per_curve
                       for n in ast.walk(st.value)):
                    per_curve.add(st.targets[0].id)
                    changed = True
    out = []
    for st in ast.walk(fn_node):
        if not isinstance(st, (ast.If, ast.IfExp, ast.While)):
            continue
        for c in ast.walk(st.test):
            red = None
            if isinstance(c, ast.Call) and isinstance(c.func, ast.Attribute) and c.func.attr in ("all", "any") and not c.args:
                red = c.func.value
            elif isinstance(c, ast.Call) and (call_name(c) or "") in ("np.all", "np.any", "all", "any", "np.count_nonzero") and c.args:
                red = c.args[0]
            if red is None:
                continue
            if any(isinstance(n, ast.Attribute) and n.attr in _CURVE_PARAMETERS or isinstance(n, ast.Name) and
                   (n.id in per_curve or n.id in _CURVE_PARAMETERS) for n in ast.walk(red)):
                out.append((st, norm_text(st.test)[:70]))
                break
    return out


def _r15(ctx):
    """R-C08-15 (expected count zero; built-in example must match): no branch of the Woehler curve accessor is decided by an
    any/all reduction over a per-curve parameter.  The accessor evaluates a TABLE of curves row by row; `if np.isinf(k_2).any():
    <no second slope>` takes the decision of one curve for all of them - a collection mixing Miner-original and Haibach curves
    loses every finite k_2, and cycles()/load() of the collection differ from curve-by-curve evaluation."""
    prog = ctx.prog
    ctx.rule("R-C08-15", floor=5, what="no branch of the Woehler curve accessor reduces a per-curve parameter over all curves")
    ex = ast.parse("def f(self, src, ref, wc):\n    k_2 = np.asarray(wc.k_2)\n    if np.isinf(k_2).any():\n        return 1\n"
                   "    if src.shape == ():\n        return 2\n").body[0]
    if len(parameter_reductions(ex)) != 1:
        raise AnalysisError("R-C08-15 built-in example not matched")
    ci = prog.cls(WC)
    for name, defs in sorted(ci.methods.items()):
        fi = defs[-1]
        hits = parameter_reductions(fi.node)
        for st, t in hits:
            ctx.violated(fi, st, "WoehlerCurve.%s decides a branch by reducing a per-curve parameter over all curves of the table (%s): "
                         "one curve's value decides the path of every curve" % (name, t), text="branch on a reduction of curve parameters in " + name)
        if not hits:
            ctx.holds(fi, fi.node, "WoehlerCurve.%s: no branch on a reduction of curve parameters" % name)


def _r14(ctx):
    """R-C08-14 (shared rule sa/units.py): every power with a slope in its exponent is taken of a ratio (S / SD, N / ND) or of a scatter
    ratio (TN, TS).  `ND * SD ** k` with SD in Pa and a Haibach slope of 39 overflows float64 although `SD * (N / ND) ** (-1 / k)` is an
    ordinary number: load() then returns inf on that branch only, the two functions stop being inverse and the result depends on the
    unit of the loads."""
    from .. import units
    prog = ctx.prog
    if not units.selfcheck():
        raise AnalysisError("dimensionful-power rule: built-in example not matched")
    ctx.rule("R-C08-14", floor=2, what="powers with a slope exponent are taken of ratios")
    n = 0
    for key, fi in sorted(prog.functions.items()):
        if fi.module.name != "pylife.materiallaws.woehlercurve" or fi.parent is not None:
            continue
        hits = units.dimensionful_power_bases(fi.node, ("SD", "ND", "load", "cycles"))
        for node, base, expo in hits:
            n += 1
            ctx.violated(fi, node, "%s raises %s - a quantity with a unit - to the power %s: for loads in Pa and a steep second slope the power "
                         "leaves the range of float64 (inf) although the same law written in the ratios S / SD and N / ND does not" % (fi.qualname, base, expo),
                         text="power of the dimensionful %s in %s" % (base, fi.qualname))
        if not hits and any(isinstance(x, ast.Call) and (call_name(x) or "") in units.POWER_CALLS or isinstance(x, ast.BinOp) and isinstance(x.op, ast.Pow)
                            for x in ast.walk(fi.node)):
            n += 1
            ctx.holds(fi, fi.node, "%s: powers of ratios / scatter ratios only" % fi.qualname)
    if n < 2:
        raise AnalysisError("fewer than two functions with powers found in the Woehler curve module")


def _r13(ctx):
    """R-C08-13 (state families, sa/statefam.py): the Woehler curve accessor hands out no object that it also keeps in a memo
    container (a transformed curve kept per failure probability and returned as it is: what the caller does to it is what
    cycles()/load() of the ORIGINAL curve use from then on), shares no class-level mutable state, keeps no partially keyed memo."""
    from .. import statefam
    prog = ctx.prog
    classes = [ci for k, ci in sorted(prog.classes.items()) if ci.module.name == "pylife.materiallaws.woehlercurve"]
    statefam.apply(ctx, "R-C08-13", "no memoised curve object is handed out / no shared class-level state in the Woehler curve accessor", classes=classes, floor=1)


def _float_normalised(prog, fi, e, depth=0):
    """Is the array expression known to have a floating element type?"""
    if depth > 4:
        return False
    if isinstance(e, ast.UnaryOp):
        return _float_normalised(prog, fi, e.operand, depth)
    if isinstance(e, ast.Call):
        fn = call_name(e) or ""
        dt = next((k.value for k in e.keywords if k.arg == "dtype"), None)
        if dt is not None and norm_text(dt) in ("np.float64", "np.double", "float", "np.float_", "'float64'", "np.longdouble"):
            return True
        if isinstance(e.func, ast.Attribute) and e.func.attr == "astype" and e.args and norm_text(e.args[0]) in ("float", "np.float64", "np.double"):
            return True
        if isinstance(e.func, ast.Attribute) and e.func.attr in ("copy", "ravel", "flatten", "squeeze", "reshape") and \
                _float_normalised(prog, fi, e.func.value, depth + 1):
            return True                     # element type preserving methods
        for k in prog.resolve_call(fi, e):
            callee = prog.functions.get(k)
            if callee is not None:
                rets = [r for r in walk_function(callee.node) if isinstance(r, ast.Return) and r.value is not None]
                if rets and all(_float_normalised(prog, callee, r.value, depth + 1) for r in rets):
                    return True
        return False
    if isinstance(e, ast.Attribute):
        return False
    if isinstance(e, ast.Name):
        defs = [st for st in walk_function(fi.node) if isinstance(st, ast.Assign) and
                any(isinstance(t, ast.Name) and t.id == e.id for t in st.targets)]
        if defs:
            return all(_float_normalised(prog, fi, d.value, depth + 1) for d in defs)
        tdefs = [st for st in walk_function(fi.node) if isinstance(st, ast.Assign) and isinstance(st.targets[0], ast.Tuple) and
                 any(isinstance(t, ast.Name) and t.id == e.id for t in st.targets[0].elts)]
        for st in tdefs:
            # q, wc = transformed.broadcast(x): q has the element type of x
            v = st.value
            if isinstance(v, ast.Call) and isinstance(v.func, ast.Attribute) and v.func.attr == "broadcast" and v.args and \
                    st.targets[0].elts[0].id == e.id:
                return _float_normalised(prog, fi, v.args[0], depth + 1)
            return False
        if e.id in fi.params:
            # parameter of a private helper: every call site must pass a float-normalised array
            if not fi.name.startswith("_"):
                return False
            i = fi.params.index(e.id)
            sites = []
            for k2, f2 in prog.functions.items():
                for c in calls_in(f2.node):
                    if fi.key in prog.resolve_call(f2, c):
                        off = 1 if fi.params and fi.params[0] == "self" else 0
                        if i - off < len(c.args):
                            sites.append((f2, c.args[i - off]))
            return bool(sites) and all(_float_normalised(prog, f2, a, depth + 1) for f2, a in sites)
    return False


def _r12(ctx):
    """R-C08-12: the Woehler curve is evaluated exactly: no closeness test, rounding or fixed small threshold on loads or cycle
    numbers (shared rule `sa/tolerance.py`).  A load 'close to' the endurance limit that is snapped onto the knee gets a finite
    life below the limit (k_2 = inf) and a plateau instead of the slope k_1 above it, and load(cycles(S)) returns SD instead of S."""
    from .. import tolerance
    ctx.rule("R-C08-12", floor=1, what="no absolute tolerance on loads or cycle numbers in the Woehler curve")
    tolerance.run_rule(ctx, ctx.prog, ["pylife.materiallaws.woehlercurve"], "loads or cycle numbers")


def _r9(ctx):
    prog = ctx.prog
    ctx.rule("R-C08-9", floor=1, what="result arrays shaped like an input get a floating element type (integer input must not truncate slopes/cycles)")
    ci = prog.cls(WC)
    n = 0
    for name, defs in ci.methods.items():
        fi = defs[-1]
        for c in calls_in(fi.node):
            fn = call_name(c) or ""
            if fn in ("np.full_like", "np.zeros_like", "np.empty_like", "np.ones_like") and c.args:
                n += 1
                dt = next((k.value for k in c.keywords if k.arg == "dtype"), None)
                if dt is not None and norm_text(dt) in ("np.double", "np.float64", "float", "np.float_"):
                    ctx.holds(fi, c, "%s(..., dtype=%s)" % (fn, norm_text(dt)))
                elif dt is None and _float_normalised(prog, fi, c.args[0]):
                    ctx.holds(fi, c, "%s of an array that was converted to float before" % fn)
                else:
                    ctx.violated(fi, c, "%s takes the element type of %s, which can be an integer input: slopes / cycle numbers "
                                 "stored into it are truncated, so integer and float arguments give different results" %
                                 (norm_text(c)[:70], norm_text(c.args[0])))
    ctx.holds(ci.key, None, "%d array construction(s) shaped like an input in WoehlerCurve, each with a floating element type" % n)
    # arrays that receive element-wise stores: one built from a curve column the user gave (k_1, k_2, TN, TS are passed on as
    # given; SD, ND, failure_probability are re-computed as floats by the transformation) keeps that column's element type - for
    # an integer k_1 column the k_2 values stored into it are truncated
    tr = prog.lookup_method(ci, "transform_to_failure_probability")
    recomputed = set()
    if tr is not None:
        for st in walk_function(tr.node):
            if isinstance(st, ast.Assign):
                for t in st.targets:
                    if isinstance(t, ast.Subscript) and isinstance(const_value(t.slice), str):
                        recomputed.add(const_value(t.slice))
    m = 0
    for name, defs in ci.methods.items():
        fi = defs[-1]
        stores = [st for st in walk_function(fi.node) if isinstance(st, ast.Assign) and isinstance(st.targets[0], ast.Subscript) and
                  isinstance(st.targets[0].value, ast.Name) and not isinstance(const_value(st.targets[0].slice), str)]
        for st in stores:
            arr = st.targets[0].value.id
            ds = [d for d in walk_function(fi.node) if isinstance(d, ast.Assign) and any(isinstance(t, ast.Name) and t.id == arr
                                                                                         for t in d.targets)]
            for d in ds:
                dv = inline_single_defs(fi.node, d.value, keep=(arr,))
                cols = sorted({(x.attr if isinstance(x, ast.Attribute) else const_value(x.slice))
                               for x in ast.walk(dv)
                               if (isinstance(x, ast.Attribute) and isinstance(x.value, ast.Name) and x.attr in
                                   ("k_1", "k_2", "TN", "TS", "SD", "ND")) or
                               (isinstance(x, ast.Subscript) and const_value(x.slice) in ("k_1", "k_2", "TN", "TS", "SD", "ND"))})
                given = [c_ for c_ in cols if c_ not in recomputed]
                if not given:
                    continue
                m += 1
                if _float_normalised(prog, fi, d.value):
                    ctx.holds(fi, d, "%s: array %s built from the given column %s is converted to float before values are stored "
                              "into it" % (name, arr, "/".join(given)))
                else:
                    ctx.violated(fi, d, "%s: %s = %s keeps the element type of the column %s as the user gave it; %s stores other "
                                 "values into it, which are truncated for an integer column (k_1 = 5 given as integer: k_2 = 7.5 "
                                 "becomes 7)" % (name, arr, norm_text(d.value)[:50], "/".join(given), norm_text(st)[:40]),
                                 text="given column %s not float in %s" % ("/".join(given), name))
    if m == 0:
        raise AnalysisError("no array built from a given curve column receives stores (the slope selection changed shape)")
    # a unary minus on something that still has the caller's element type: unsigned integers (cycle counts as uint64) wrap around
    q = 0
    for name, defs in ci.methods.items():
        fi = defs[-1]
        if name.startswith("_"):
            continue
        params = {p_ for p_ in fi.params if p_ != "self"}
        for n_ in walk_function(fi.node):
            if isinstance(n_, ast.UnaryOp) and isinstance(n_.op, ast.USub) and isinstance(n_.operand, ast.Name):
                src = n_.operand
                # only values that come from the method's arguments (through the broadcast)
                roots = names_in(inline_single_defs(fi.node, src))
                tdefs = [st for st in walk_function(fi.node) if isinstance(st, ast.Assign) and isinstance(st.targets[0], ast.Tuple) and
                         any(isinstance(t, ast.Name) and t.id == src.id for t in st.targets[0].elts)]
                from_arg = bool(roots & params) or any(names_in(st.value) & params for st in tdefs)
                if not from_arg:
                    continue
                q += 1
                if _float_normalised(prog, fi, src):
                    ctx.holds(fi, n_, "%s: %s negates a value that was converted to float before" % (name, norm_text(n_)))
                else:
                    ctx.violated(fi, n_, "%s: %s negates a value that still has the element type the caller gave it: unsigned "
                                 "integer cycle numbers wrap around (load(np.array([10**7], dtype=np.uint64)) evaluates the wrong "
                                 "branch of the curve); the other direction converts its argument to float first" %
                                 (name, norm_text(n_)), text="negation of caller-typed value in " + name)


def _r10(ctx):
    prog = ctx.prog
    ctx.rule("R-C08-10", floor=10, what="no method other than the constructor writes into the curve data of the object it is called on")
    eff = Effects(prog)
    base = prog.cls(WC)
    for ci in [base] + prog.subclasses(base.key):
        for name, defs in ci.methods.items():
            f = defs[-1]
            if name in ("__init__", "_validate") or f.is_setter():
                continue
            summ = eff.summary(f)
            if summ is None:
                raise AnalysisError("effect summary of %s unavailable" % f.key)
            # the broadcaster's paired temporary re-coding (restored on every normal path, decided by C13) is not a write
            bad = [e for e in summ["effects"] if e.origin == ("self", "_obj") and
                   not e.func.startswith("pylife.core.broadcaster:")]
            if bad:
                e = bad[0]
                node = next((st for st in walk_function(f.node) if isinstance(st, ast.stmt) and st.lineno == e.lineno), f.node)
                ctx.violated(f, node, "%s.%s writes into the curve data of the object it is called on (%s at line %d): the original "
                             "curve is altered" % (ci.name, name, e.kind, e.lineno), text="%s.%s %s" % (ci.name, name, e.kind))
            else:
                ctx.holds(f, f.node, "%s.%s leaves the curve data untouched" % (ci.name, name))


def _r1(ctx):
    """Decided on the symbolic value each modifier returns (sa/absint.TermDomain, helper methods followed): the class
    constructor applied to the curve data with exactly the item 'k_2' replaced by inf / k_1 / 2 k_1 - 1; plus the effect
    summary: nothing reaches the original curve data."""
    from ..absint import Interp, TermDomain, term_walk, term_to_nf, term_alternatives
    prog = ctx.prog
    ctx.rule("R-C08-1", floor=3, what="Miner modifiers: fresh copy, write only k_2, value inf / k_1 / 2k_1-1, class constructor")
    eff = Effects(prog)
    want = {"miner_original": None, "miner_elementary": "k1", "miner_haibach": "2*k1 - 1"}

    def atom(z):
        if isinstance(z, tuple) and len(z) == 3 and z[0] == "attr" and z[2] == "k_1":
            return "k1"
        if z == ("self", "k_1"):
            return "k1"
        return None
    for name, ref in want.items():
        f = prog.func(WC + "." + name)
        s = eff.summary(f)
        caller_eff = [e for e in s["effects"] if e.origin == ("self", "_obj") or e.origin[0] == "param"]
        problems = []
        if caller_eff:
            problems.append("writes into the original curve (%s at line %d)" % (caller_eff[0].kind, caller_eff[0].lineno))
        t = Interp(prog, TermDomain()).run(f, [])
        alts = term_alternatives(t)
        if len(alts) != 1:
            raise AnalysisError("%s: several different return values" % name)
        t = alts[0]
        arg = None
        ctor = None
        if isinstance(t, tuple) and t[0] == "m" and t[2] == "__class__" and len(t[3]) == 1:
            arg, ctor = t[3][0], "self.__class__"
        elif isinstance(t, tuple) and t[0] == "call" and len(t[2]) == 1 and (t[1] in ("WoehlerCurve", "type(self)") or t[1] is None or
                                                                          t[1] == ""):
            arg, ctor = t[2][0], t[1] or "type(self)"
        if arg is None and isinstance(t, tuple) and t[0] == "where" and any(y == ("self", "_obj") for y in term_walk(t)):
            ctx.violated(f, f.node, "%s returns the modified curve data itself, not a curve object built by the class constructor "
                         "(the accessor's methods are not available on it, a .fatigue object degrades to plain data)" % name,
                         text="%s: raw data" % name)
            continue
        if arg is None:
            raise AnalysisError("%s: the returned value %r is not recognised as a curve object built by the class constructor" %
                                (name, t[:3] if isinstance(t, tuple) else t))
        keys = []
        base = arg
        val = None
        while isinstance(base, tuple) and len(base) == 4 and base[0] == "where" and isinstance(base[1], tuple) and base[1][0] == "c":
            keys.append(base[1][1])
            if base[1][1] == "k_2" and val is None:
                val = base[2]
            base = base[3]
        if isinstance(base, tuple) and base[0] == "at" and base[1] == ("self", "_obj"):
            ctx.violated(f, f.node, "%s builds the new curve from a selection of the curve data (%r): every other item of the curve "
                         "(e.g. its failure probability or additional columns) is lost in the modified copy" % (name, base[2]),
                         text="%s: selection of the data" % name)
            continue
        if base != ("self", "_obj"):
            raise AnalysisError("%s: the modified data %r does not start from the curve data of the object" % (name, base))
        if sorted(keys) != ["k_2"]:
            problems.append("writes keys %s, only k_2 may change" % sorted(keys))
        else:
            if ref is None:
                ok = val in (("attr", ("?",), "inf"), ("call", "float", (("c", "inf"),), ())) or \
                    (isinstance(val, tuple) and val[0] == "attr" and val[2] == "inf") or val == ("c", float("inf"))
            else:
                try:
                    ok = term_to_nf(val, atom) == to_nf(parse_expr(ref), atom=_atom)
                except NFUnsupported:
                    ok = False
            if not ok:
                problems.append("k_2 := %r, expected %s" % (val, ref or "inf"))
        if problems:
            ctx.violated(f, f.node, "%s: %s" % (name, "; ".join(problems)), text="%s: %s" % (name, problems[0][:60]))
        else:
            ctx.holds(f, f.node, "%s: copy of the curve data, k_2 := %s, %s(new)" % (name, ref or "inf", ctor))


def _r2(ctx):
    prog = ctx.prog
    ctx.rule("R-C08-2", floor=4, what="constructors reach no write into the caller's pandas object")
    eff = Effects(prog)
    base = prog.cls(WC)
    classes = [base] + prog.subclasses(base.key)
    for ci in classes:
        init = prog.lookup_method(ci, "__init__")
        if init is None:
            raise AnalysisError("%s has no constructor" % ci.key)
        s = eff.summary(init)
        _, _, IN, icfg = eff.analyse(init)
        stored = {}
        for n in icfg.nodes():
            st = icfg.stmt[n]
            if isinstance(st, ast.Assign) and icfg.kind[n] == "stmt" and IN.get(n) is not None:
                for t in st.targets:
                    if is_self_attr(t):
                        stored.setdefault(t.attr, set()).update(eff.aval(st.value, IN[n], init))
        bad = []
        for e in s["effects"]:
            if e.origin[0] == "param":
                bad.append(e)
            elif e.origin[0] == "self" and any(o[0] == "param" for o, m in stored.get(e.origin[1], ())):
                bad.append(e)
            elif e.origin[0] == "self" and e.origin[1] not in stored:
                raise AnalysisError("%s: attribute %s written by the constructor chain is not set in __init__" %
                                    (ci.key, e.origin[1]))
        if bad:
            e = bad[0]
            fi = prog.functions[e.func]
            node = next((st for st in walk_function(fi.node) if isinstance(st, ast.stmt) and st.lineno == e.lineno), None)
            ctx.violated(init, init.node, "constructing %s writes into the caller's object (%s in %s, line %d): merely "
                         "accessing the accessor alters the user's Series" % (ci.name, e.kind, e.func.split(":")[1], e.lineno),
                         text="%s ctor writes %s" % (ci.name, e.kind))
        else:
            ctx.holds(init, init.node, "%s(...) stores a copy; %d internal writes all hit the copy" %
                      (ci.name, len(s["effects"])))


def _returned_array(f):
    """name of the array the function returns (directly or wrapped in pd.Series)"""
    names = set()
    for r in [s for s in f.node.body if isinstance(s, (ast.Return, ast.If))]:
        for x in ast.walk(r):
            if isinstance(x, ast.Return) and x.value is not None:
                v = x.value
                if isinstance(v, ast.Call) and call_name(v) == "pd.Series" and v.args:
                    v = v.args[0]
                if isinstance(v, ast.Name):
                    names.add(v.id)
    if len(names) != 1:
        raise AnalysisError("%s: returned array not unique: %s" % (f.key, sorted(names)))
    return names.pop()


def _finite_formula(f, target=None):
    target = _returned_array(f)
    st = [s for s in walk_function(f.node) if isinstance(s, ast.Assign) and isinstance(s.targets[0], ast.Subscript)
          and isinstance(s.targets[0].value, ast.Name) and s.targets[0].value.id == target]
    if len(st) != 1:
        raise AnalysisError("%s: finite-life store into %s not found" % (f.key, target))
    return st[0]


def _r11(ctx, rule_id="R-C08-11"):
    """cycles() and load() evaluate the curve transformed to the requested failure probability - on every path: the object
    whose parameters are broadcast against the argument is the result of transform_to_failure_probability(<the parameter>),
    never the curve as given (its native probability need not be the default)."""
    from ..dataflow import reaching_names
    prog = ctx.prog
    ctx.rule(rule_id, floor=2, what="cycles/load use the curve transformed to the requested probability on every path")
    for name in ("basquin_cycles", "basquin_load"):
        f = prog.func(WC + "." + name)
        fp = [q for q in f.params if "prob" in q]
        bc = [s_ for s_ in f.node.body if isinstance(s_, ast.Assign) and isinstance(s_.value, ast.Call) and
              isinstance(s_.value.func, ast.Attribute) and s_.value.func.attr == "broadcast"]
        if len(bc) != 1 or not fp:
            raise AnalysisError("%s: broadcast of the transformed curve not found" % name)
        recv = bc[0].value.func.value
        if isinstance(recv, ast.Name):
            defs = [s_.value for s_ in walk_function(f.node) if isinstance(s_, ast.Assign) and
                    any(isinstance(t, ast.Name) and t.id == recv.id for t in s_.targets)]
        else:
            defs = [recv]                      # receiver written in place
        bad = [d for d in defs if not (isinstance(d, ast.Call) and isinstance(d.func, ast.Attribute) and
                                       is_self_attr(d.func, "transform_to_failure_probability") and d.args and
                                       isinstance(d.args[0], ast.Name) and d.args[0].id == fp[0])]
        # the requested probability reaches the transformation as given: a re-binding of the parameter (clipping it, rounding it)
        # makes the two directions use different curves outside the band, so they are no longer inverse to each other
        rebound = [s_ for s_ in walk_function(f.node) if isinstance(s_, (ast.Assign, ast.AugAssign)) and
                   any(isinstance(t, ast.Name) and t.id == fp[0] for t in (s_.targets if isinstance(s_, ast.Assign) else [s_.target]))
                   and not (isinstance(s_, ast.Assign) and isinstance(s_.value, ast.Call) and
                            call_name(s_.value) in ("np.asarray", "float", "np.float64", "np.asanyarray") and
                            len(s_.value.args) == 1 and isinstance(s_.value.args[0], ast.Name) and s_.value.args[0].id == fp[0])]
        if rebound:
            ctx.violated(f, rebound[0], "%s: the requested failure probability is altered before the curve is transformed (%s); the "
                         "other direction uses it as given, so load(cycles(S, p), p) != S wherever the alteration bites, and the "
                         "allowable load stops following the probability" % (name, norm_text(rebound[0])[:70]),
                         text="failure probability altered in " + name)
        elif defs and not bad:
            ctx.holds(f, bc[0], "%s: parameters come from transform_to_failure_probability(%s) (%d definition(s))" % (name, fp[0], len(defs)))
        else:
            ctx.violated(f, bc[0], "%s: on some path the curve is used as given (%s) instead of being transformed to the "
                         "requested failure probability: for a curve whose native probability is not the requested one the result "
                         "belongs to another probability" % (name, norm_text((bad or bc)[0])), text="untransformed curve in " + name)


def _broadcast_names(f):
    """(quantity, curve) locals from  `q, wc = transformed.broadcast(<param>)`"""
    for s in f.node.body:
        if isinstance(s, ast.Assign) and isinstance(s.targets[0], ast.Tuple) and isinstance(s.value, ast.Call) and \
                isinstance(s.value.func, ast.Attribute) and s.value.func.attr == "broadcast" and len(s.targets[0].elts) == 2:
            return s.targets[0].elts[0].id, s.targets[0].elts[1].id
    raise AnalysisError("%s: broadcast unpacking not found" % f.key)


def _r3(ctx):
    prog = ctx.prog
    ctx.rule("R-C08-3", floor=6, what="basquin_load o basquin_cycles == id on the finite branch (normal form); infinite default")
    from ..inline import inlined
    fc = inlined(prog, prog.func(WC + ".basquin_cycles"), skip=("_make_k",))      # private helpers shared by the two directions expanded
    fl = inlined(prog, prog.func(WC + ".basquin_load"), skip=("_make_k",))
    sc = _finite_formula(fc)
    sl = _finite_formula(fl)
    ld_name, _ = _broadcast_names(fc)
    cyc_name, _ = _broadcast_names(fl)

    def kname(f):
        d = [s for s in f.node.body if isinstance(s, ast.Assign) and isinstance(s.targets[0], ast.Name) and
             isinstance(s.value, ast.Call) and isinstance(s.value.func, ast.Attribute) and s.value.func.attr == "_make_k"]
        if len(d) == 1:
            return d[0].targets[0].id
        if any(isinstance(c_.func, ast.Attribute) and c_.func.attr == "_make_k" for c_ in calls_in(f.node)):
            return None                                   # the slope array is used in place (no local)
        raise AnalysisError("%s: slope array from _make_k not found" % f.key)
    knames = {kname(fc), kname(fl)} - {None}

    def atom(e):
        e2 = _strip(e)
        if e2 is not e:
            return None
        if isinstance(e, ast.Call) and isinstance(e.func, ast.Attribute) and e.func.attr == "_make_k":
            return "k"
        if isinstance(e, ast.Attribute) and isinstance(e.value, ast.Name):
            return e.attr            # any curve parameter (SD, ND, k_1, ...) is a symbol of its own
        if isinstance(e, ast.Name) and e.id == ld_name:
            return "L"
        if isinstance(e, ast.Name) and e.id == cyc_name:
            return "N"
        if isinstance(e, ast.Name) and e.id in knames:
            return "k"
        if isinstance(e, ast.Name):
            return e.id
        return None
    try:
        N_of_L = to_nf(sc.value, atom=atom, strip=_strip)
        L_of_N = to_nf(sl.value, atom=atom, strip=_strip)
        # compose
        comp1 = Translator(atom=lambda e: (N_of_L if (isinstance(_strip(e), ast.Name) and _strip(e).id == cyc_name and _strip(e) is e) else atom(e)),
                           strip=_strip).tr(sl.value)
        comp2 = Translator(atom=lambda e: (L_of_N if (isinstance(_strip(e), ast.Name) and _strip(e).id == ld_name and _strip(e) is e) else atom(e)),
                           strip=_strip).tr(sc.value)
    except NFUnsupported as e:
        raise AnalysisError("Basquin formulas outside the normal-form fragment: %s" % e)
    want_N = to_nf(parse_expr("ND*(L/SD)**(-k)"))
    want_L = to_nf(parse_expr("SD*(N/ND)**(-1/k)"))
    if N_of_L == want_N:
        ctx.holds(fc, sc, "cycles = ND*(L/SD)^-k")
    else:
        ctx.violated(fc, sc, "finite-life cycles are %r; Basquin's law is ND*(L/SD)^-k" % N_of_L)
    if L_of_N == want_L:
        ctx.holds(fl, sl, "load = SD*(N/ND)^(-1/k)")
    else:
        ctx.violated(fl, sl, "finite-life load is %r; Basquin's law is SD*(N/ND)^(-1/k)" % L_of_N)
    if comp1 == RF.sym("L"):
        ctx.holds(fl, sl, "load(cycles(L)) == L")
    else:
        ctx.violated(fl, sl, "load(cycles(L)) normalises to %r, not L: the two directions are not inverse" % comp1, text="load o cycles")
    if comp2 == RF.sym("N"):
        ctx.holds(fc, sc, "cycles(load(N)) == N")
    else:
        ctx.violated(fc, sc, "cycles(load(N)) normalises to %r, not N" % comp2, text="cycles o load")
    # monotone: d cycles / d load < 0 (k > 0) ; continuity at the knee: N(SD) == ND and L(ND) == SD for either slope
    from ..nf import derivative, _poly_sign, _subst_atom
    dN = derivative(N_of_L, "L")
    if dN.den.as_const() is not None and _poly_sign(dN.num) == -1 * (1 if dN.den.as_const() > 0 else -1):
        ctx.holds(fc, sc, "d cycles / d load = %r < 0: allowable cycles are non-increasing in the load" % dN)
    else:
        ctx.violated(fc, sc, "d cycles / d load = %r is not negative for positive k: cycles would not decrease with the load" % dN,
                     text="monotone")
    if _subst_atom(N_of_L, "L", RF.sym("SD")) == RF.sym("ND") and _subst_atom(L_of_N, "N", RF.sym("ND")) == RF.sym("SD"):
        ctx.holds(fc, sc, "continuity at the knee: cycles(SD) == ND and load(ND) == SD for every slope")
    else:
        ctx.violated(fc, sc, "the curve does not pass through the knee (SD, ND): cycles(SD) = %r, load(ND) = %r" %
                     (_subst_atom(N_of_L, "L", RF.sym("SD")), _subst_atom(L_of_N, "N", RF.sym("ND"))), text="knee")
    # defaults: infinite life / endurance limit outside the finite branch, finite mask = isfinite(k)
    d = [s for s in fc.node.body if isinstance(s, ast.Assign) and isinstance(s.targets[0], ast.Name) and s.targets[0].id == _returned_array(fc)]
    ok = d and isinstance(d[0].value, ast.Call) and call_name(d[0].value) in ("np.full_like", "np.full") and \
        norm_text(d[0].value.args[1]) in ("np.inf", "float('inf')")
    if ok:
        ctx.holds(fc, d[0], "outside the finite branch the life is infinite")
    else:
        ctx.violated(fc, d[0] if d else fc.node, "cycles outside the finite branch are not initialised to infinity")
    d = [s for s in fl.node.body if isinstance(s, ast.Assign) and isinstance(s.targets[0], ast.Name) and s.targets[0].id == _returned_array(fl)]
    # a fresh array holding SD: <...SD...>.copy(), np.array(<SD>) (copies by default) or np.copy(<SD>)
    def _reads_sd(e_):
        return any((isinstance(n, ast.Attribute) and n.attr == "SD") or
                   (isinstance(n, ast.Subscript) and const_value(n.slice) == "SD") for n in ast.walk(e_))
    ok = d and _reads_sd(d[0].value) and \
        (any(isinstance(c.func, ast.Attribute) and c.func.attr == "copy" for c in calls_in(d[0].value)) or
         (isinstance(d[0].value, ast.Call) and call_name(d[0].value) in ("np.array", "np.copy") and
          not any(k_.arg == "copy" for k_ in d[0].value.keywords)))
    if ok:
        ctx.holds(fl, d[0], "outside the finite branch the load is the endurance limit (a copy of SD)")
    else:
        ctx.violated(fl, d[0] if d else fl.node, "load outside the finite branch is not a copy of the endurance limit SD")
    for f in (fc, fl):
        tgt = _finite_formula(f).targets[0]
        mname = tgt.slice.id if isinstance(tgt.slice, ast.Name) else None
        m = [s for s in f.node.body if isinstance(s, ast.Assign) and isinstance(s.targets[0], ast.Name) and s.targets[0].id == mname]
        if m and isinstance(m[0].value, ast.Call) and call_name(m[0].value) == "np.isfinite" and \
                isinstance(m[0].value.args[0], ast.Name) and m[0].value.args[0].id in knames:
            ctx.holds(f, m[0], "finite branch = finite slope")
        else:
            ctx.violated(f, m[0] if m else f.node, "finite-branch mask is not np.isfinite(k)")


def _r4(ctx):
    """Evaluated on symbolic terms (sa/absint.TermDomain): whatever temporaries, helper functions or if/else shapes the code
    uses, the slope handed to the power law must be  where(load < SD, k_2, k_1)  in the cycles direction and
    where(cycles > ND, k_2, k_1)  in the load direction (strict: the knee itself keeps k_1)."""
    from ..absint import Interp, TermDomain, term_walk
    prog = ctx.prog
    ctx.rule("R-C08-4", floor=3, what="slope selectors are mirror images: load < SD  <=>  cycles > ND ; k_2 below the limit")

    def has_attr(t, name):
        return any(isinstance(y, tuple) and len(y) == 3 and y[0] == "attr" and y[2] == name for y in term_walk(t))

    def has_param(t, name):
        return any(y == ("p", name) for y in term_walk(t))
    found = {}
    for name, given, ref in (("basquin_cycles", "load", "SD"), ("basquin_load", "cycles", "ND")):
        f = prog.func(WC + "." + name)
        dom = TermDomain()
        dom.labels_as_attrs = True
        t = Interp(prog, dom).run(f, [("p", q) for q in f.params if q != "self"])
        sels = []
        for x in term_walk(t):
            is_k = lambda z: isinstance(z, tuple) and len(z) == 3 and z[0] == "attr" and z[2] in ("k_1", "k_2")
            if isinstance(x, tuple) and len(x) == 4 and x[0] == "where" and is_k(x[2]) and is_k(x[3]) and x not in sels:
                sels.append(x)
        if not sels:
            raise AnalysisError("%s: slope selection where(<below limit>, k_2, k_1) not found in the symbolic value" % name)
        for sel in sels:
            _, cond, below, above = sel
            ok_vals = below[2] == "k_2" and above[2] == "k_1"
            side = None
            strict = None
            if isinstance(cond, tuple) and len(cond) == 4 and cond[0] == "cmp" and cond[1] in ("lt", "le"):
                strict = cond[1] == "lt"
                lo, hi = cond[2], cond[3]
                neg = lambda z: isinstance(z, tuple) and len(z) == 3 and z[0] == "u" and z[1] == "usub"
                if neg(lo) and neg(hi):
                    lo, hi = hi[2], lo[2]              # -a < -b  <=>  b < a
                head_ref = lambda z: isinstance(z, tuple) and len(z) == 3 and z[0] == "attr" and z[2] == ref
                if head_ref(hi) and not head_ref(lo) and has_param(lo, given):
                    side = "below"                      # given < reference
                elif head_ref(lo) and not head_ref(hi) and has_param(hi, given):
                    side = "above"                      # given > reference
            want = "below" if given == "load" else "above"
            if side is None:
                raise AnalysisError("%s: condition of the slope selection not understood: %r" % (name, cond))
            if ok_vals and side == want and strict:
                ctx.holds(f, f.node, "%s: slope = k_2 where %s %s %s (strict), k_1 elsewhere" %
                          (name, given, "<" if want == "below" else ">", ref))
                found[name] = True
            else:
                what = []
                if not ok_vals:
                    what.append("the selected values are not (k_2 beyond the knee, k_1 before it)")
                if side != want:
                    what.append("k_2 is selected where %s is %s %s" % (given, "<" if side == "below" else ">", ref))
                if not strict:
                    what.append("the comparison is not strict: the knee itself gets k_2")
                ctx.violated(f, f.node, "%s: slope selection is wrong: %s (needed: k_2 exactly where %s %s %s)" %
                             (name, "; ".join(what), given, "<" if want == "below" else ">", ref), text="selector " + name)
    mk = prog.functions.get(WC + "._make_k")
    if mk is not None:
        ctx.holds(mk, mk.node, "slope selector evaluated symbolically through both callers")


class ScatterValueCondition(AnalysisError):
    pass


def scatter_table(prog):
    """The values the Woehler accessor's validation gives TN and TS for the four cases (TN given?, TS given?), read off the
    symbolic state at the end of `_validate` (helpers expanded).  -> (FuncInfo, {(tn_missing, ts_missing): (TN term, TS term)},
    TN-given term, TS-given term)"""
    from ..absint import Interp, TermDomain, term_select
    from ..inline import inlined
    v0 = prog.func(WC + "._validate")
    v = inlined(prog, v0)
    it = Interp(prog, TermDomain(), max_depth=3)
    it.run(v, [("p", q) for q in v.params])
    states = [st for _, st in it.exits]
    if len(states) != 1 or "self._TN" not in states[0] or "self._TS" not in states[0]:
        raise AnalysisError("_validate: the final values of TN / TS were not recognised")
    tn_t, ts_t = states[0]["self._TN"], states[0]["self._TS"]

    def given(key):
        return lambda t: isinstance(t, tuple) and len(t) >= 4 and t[0] == "m" and t[2] == "get" and t[3] and t[3][0] == ("c", key)
    is_tn, is_ts = given("TN"), given("TS")
    table = {}
    for a in (False, True):
        for b in (False, True):
            def truth(c, a=a, b=b):
                if isinstance(c, tuple) and len(c) == 4 and c[0] == "cmp" and c[1] == "is" and c[3] == ("c", None):
                    if is_tn(c[2]):
                        return a
                    if is_ts(c[2]):
                        return b
                return None
            table[(a, b)] = (term_select(tn_t, truth), term_select(ts_t, truth))
    if any(x is None for pair in table.values() for x in pair):
        # which condition could not be decided?  If it looks at the *value* of a given scatter (anything but `is None`), the
        # validation keeps or replaces what the user gave depending on that value - that is a culprit, not an unknown shape
        from ..absint import cond_value, term_walk

        def first_undecided(t, truth):
            for _ in range(60):
                if isinstance(t, tuple) and len(t) == 4 and t[0] == "ite":
                    val = cond_value(t[1], truth)
                    if val is None:
                        return t[1]
                    t = t[2] if val else t[3]
                    continue
                return None
            return None

        def atoms(c):
            if isinstance(c, tuple) and c and c[0] == "bool":
                for x in c[2]:
                    yield from atoms(x)
            elif isinstance(c, tuple) and len(c) == 3 and c[0] == "u" and c[1] == "not":
                yield from atoms(c[2])
            else:
                yield c
        truth = lambda c: (False if isinstance(c, tuple) and len(c) == 4 and c[0] == "cmp" and c[1] == "is" and c[3] == ("c", None)
                           and (is_tn(c[2]) or is_ts(c[2])) else None)           # both given
        for t_ in (tn_t, ts_t):
            c = first_undecided(t_, truth)
            if c is None:
                continue
            for at in atoms(c):
                if cond_value(at, truth) is None and any(is_tn(x) or is_ts(x) for x in term_walk(at)):
                    e = ScatterValueCondition("_validate: whether a given scatter value is kept depends on a condition on its value")
                    inner = [a2 for x in term_walk(at) if isinstance(x, tuple) and len(x) == 4 and x[0] == "ite"
                             for a2 in atoms(x[1]) if cond_value(a2, truth) is None]
                    e.func, e.cond = v0, (inner[0] if inner else at)
                    raise e
        raise AnalysisError("_validate: the case analysis on the missing scatter values was not understood")
    return v0, table, is_tn, is_ts


def _r5(ctx):
    prog = ctx.prog
    ctx.rule("R-C08-5", floor=1, what="TS = TN^(1/k_1) and TN = TS^k_1 are mutual inverses, each derived only when it is missing")
    from ..absint import term_to_nf
    try:
        v, table, is_tn, is_ts = scatter_table(prog)
    except ScatterValueCondition as e:
        from ..absint import term_to_ast
        try:
            txt = norm_text(term_to_ast(e.cond))
        except Exception:
            from ..absint import term_walk
            txt = "a test using " + ", ".join(sorted({x[1] for x in term_walk(e.cond) if isinstance(x, tuple) and len(x) >= 3 and
                                                     x[0] == "call" and isinstance(x[1], str)})) or repr(e.cond)
        ctx.violated(e.func, e.func.node, "the validation decides by the *value* of a given scatter (%s) whether it is kept or "
                     "re-derived from the other one: for such a curve N_90/N_10 (SD_90/SD_10) is no longer the TN (TS) the user "
                     "gave" % txt[:120], text="scatter kept depending on its value")
        return

    from ..absint import term_to_ast

    def named(t, ts_as=None):
        if is_tn(t):
            return ("p", "TN")
        if is_ts(t):
            return ts_as if ts_as is not None else ("p", "TS")
        if isinstance(t, tuple) and len(t) == 3 and t[0] == "attr" and t[2] == "k_1":
            return ("p", "k1")
        return tuple(named(x, ts_as) if isinstance(x, tuple) else x for x in t) if isinstance(t, tuple) else t

    def nf_of(t):
        tr = term_to_ast(_np_power(t))
        return to_nf(tr, atom=lambda e: e.id if isinstance(e, ast.Name) else None)

    def _np_power(t):
        if isinstance(t, tuple) and t and t[0] == "call" and t[1] in ("np.power", "np.float_power", "pow") and len(t[2]) == 2:
            return ("op", "**", _np_power(t[2][0]), _np_power(t[2][1]))
        return tuple(_np_power(x) if isinstance(x, tuple) else x for x in t) if isinstance(t, tuple) else t
    try:
        ts_term = named(table[(False, True)][1])
        ts_of_tn = nf_of(ts_term)
        comp = nf_of(named(table[(True, False)][0], ts_as=ts_term))
    except (NFUnsupported, ValueError) as e:
        raise AnalysisError("TN/TS conversion outside the fragment: %s" % e)
    if ts_of_tn == to_nf(parse_expr("TN**(1/k1)")) and comp == RF.sym("TN"):
        ctx.holds(v, v.node, "TS = TN^(1/k_1); TN(TS(TN)) == TN")
    else:
        ctx.violated(v, v.node, "scatter conversions are not mutual inverses: TS(TN) = %r, TN(TS(TN)) = %r" % (ts_of_tn, comp),
                     text="scatter conversions")
    # a given value is kept, a missing pair becomes 1.0
    keep = [("TN", table[(False, False)][0], is_tn), ("TS", table[(False, False)][1], is_ts),
            ("TN", table[(False, True)][0], is_tn), ("TS", table[(True, False)][1], is_ts)]
    bad = [n for n, t, pred in keep if not pred(t)]
    if not bad:
        ctx.holds(v, v.node, "a given scatter value is kept as given: the other one is derived only when it is missing")
    else:
        ctx.violated(v, v.node, "%s is recomputed although it is given" % sorted(set(bad)), text="scatter recomputed")


def _fold_const(e, module_consts=None):
    """numeric value of a constant expression; module-level names bound once to a constant expression are resolved"""
    if module_consts and isinstance(e, ast.Name) and e.id in module_consts:
        return _fold_const(module_consts[e.id], {k: v for k, v in module_consts.items() if k != e.id})
    try:
        return to_nf(e, env={k: v for k, v in (module_consts or {}).items()} if module_consts else None).as_const()
    except (NFUnsupported, TypeError):
        try:
            return to_nf(e).as_const()
        except NFUnsupported:
            return None


def _module_constants(mod):
    out, seen = {}, {}
    for st in mod.tree.body:
        if isinstance(st, ast.Assign) and len(st.targets) == 1 and isinstance(st.targets[0], ast.Name):
            seen[st.targets[0].id] = seen.get(st.targets[0].id, 0) + 1
            out[st.targets[0].id] = st.value
    return {k: v for k, v in out.items() if seen[k] == 1}


def _r6(ctx):
    prog = ctx.prog
    ctx.rule("R-C08-6", floor=2, what="scatter constants: c1*c2 = 1 and c2 = 2*z_0.9")
    U = "pylife.utils.functions:"
    f1 = prog.func(U + "scattering_range_to_std")
    f2 = prog.func(U + "std_to_scattering_range")
    r1 = [s for s in f1.node.body if isinstance(s, ast.Return)][-1]
    r2 = [s for s in f2.node.body if isinstance(s, ast.Return)][-1]
    mc = _module_constants(f1.module)
    _fc = _fold_const
    _fold = lambda e_: _fc(e_, mc)
    # c1 * log10(T)
    c1 = c2 = None
    v = r1.value
    if isinstance(v, ast.BinOp) and isinstance(v.op, ast.Mult):
        for a, b in ((v.left, v.right), (v.right, v.left)):
            if isinstance(b, ast.Call) and call_name(b) in ("np.log10", "math.log10") and _fold(a) is not None:
                c1 = _fold(a)
    v = r2.value
    if isinstance(v, ast.BinOp) and isinstance(v.op, ast.Pow) and const_value(v.left) == 10 and isinstance(v.right, ast.BinOp) \
            and isinstance(v.right.op, ast.Mult):
        for a, b in ((v.right.left, v.right.right), (v.right.right, v.right.left)):
            if isinstance(b, ast.Name) and _fold(a) is not None:
                c2 = _fold(a)
    if c1 is None or c2 is None:
        raise AnalysisError("scatter conversion functions are not c1*log10(T) and 10**(c2*std)")
    prod = float(c1 * c2)
    if abs(prod - 1) < 1e-12:
        ctx.holds(f1, r1, "c1*c2 = 1 (|c1*c2-1| = %.1e): the two conversions are inverse" % abs(prod - 1))
    else:
        ctx.violated(f1, r1, "c1*c2 = %.15g: scattering_range_to_std and std_to_scattering_range are not inverse" % prod)
    z = 2 * NormalDist().inv_cdf(0.9)
    if abs(float(c2) - z) < 1e-12:
        ctx.holds(f2, r2, "c2 = 2*z_0.9 = %.16g: T = 10^(2 z_0.9 s)" % z)
    else:
        ctx.violated(f2, r2, "c2 = %.16g differs from 2*z_0.9 = %.16g: N_90/N_10 would not equal TN" % (float(c2), z))


def _r7(ctx):
    """Decided on the symbolic value of transform_to_failure_probability (sa/absint.TermDomain): the data stored under 'SD' is
    SD / 10**((z_native - z_goal) * std(TS)), under 'ND' it is ND / 10**((z_native - z_goal) * std(TN)), moved along the k_1
    line by (SD'/SD)**(-k_1) exactly where SD' != 0, and the goal is recorded as the new native probability - whatever
    temporaries or helper functions the code uses."""
    from ..absint import Interp, TermDomain, term_walk
    prog = ctx.prog
    ctx.rule("R-C08-7", floor=4, what="probability shift: same probit difference for SD and ND, std of TS resp. TN, new native probability = goal")
    f = prog.func(WC + ".transform_to_failure_probability")
    goal = [p for p in f.params if p != "self"][0]
    t = Interp(prog, TermDomain()).run(f, [("p", goal)])
    stored = {}
    for x in term_walk(t):
        if isinstance(x, tuple) and len(x) == 4 and x[0] == "where" and isinstance(x[1], tuple) and x[1][:1] == ("c",) and \
                isinstance(x[1][1], str):
            stored.setdefault(x[1][1], x[2])
    for k in ("SD", "ND"):
        if k not in stored:
            raise AnalysisError("transform_to_failure_probability: the value stored under %r was not found" % k)

    def is_op(z, name):
        return isinstance(z, tuple) and len(z) == 4 and z[0] == "op" and z[1] == name

    def is_attr(z, name):
        return isinstance(z, tuple) and len(z) == 3 and z[0] == "attr" and z[2] == name

    def is_call(z, suffix):
        return isinstance(z, tuple) and len(z) == 4 and z[0] == "call" and z[1].endswith(suffix) and len(z[2]) >= 1

    def has_goal(z):
        return any(y == ("p", goal) for y in term_walk(z))

    def shift(z, key, scatter):
        """-> (problem or None, understood?)"""
        if not (is_op(z, "/") and is_attr(z[2], key)):
            return "it is not %s divided by a power of ten" % key, False
        den = z[3]
        if not (is_op(den, "**") and den[2] == ("c", 10)):
            return "the divisor is not a power of ten", False
        e = den[3]
        if not is_op(e, "*"):
            return "the exponent is not a product", False
        parts = [e[2], e[3]]
        diff = [q for q in parts if is_op(q, "-")]
        std = [q for q in parts if is_call(q, "scattering_range_to_std")]
        if len(diff) != 1 or len(std) != 1:
            return "the exponent is not (probit difference) * std", False
        d_ = diff[0]
        if not (is_call(d_[2], "norm.ppf") and is_call(d_[3], "norm.ppf")):
            return "the probit difference is not a difference of two normal quantiles", False
        a_, b_ = d_[2][2][0], d_[3][2][0]
        if is_attr(a_, "failure_probability") and has_goal(b_) and not is_attr(b_, "failure_probability"):
            pass
        elif is_attr(b_, "failure_probability") and has_goal(a_) and not is_attr(a_, "failure_probability"):
            return "the probit difference is z_goal - z_native (sign reversed)", True
        else:
            return "the probit difference does not combine the curve's own and the requested probability", True
        arg = std[0][2][0]
        if not is_attr(arg, scatter):
            other = [sc for sc in ("TS", "TN") if is_attr(arg, sc)]
            return "the standard deviation is taken from %s, expected %s" % (other[0] if other else "another quantity", scatter), True
        return None, True
    sd_new = stored["SD"]
    p, understood = shift(sd_new, "SD", "TS")
    if p is None:
        ctx.holds(f, f.node, "SD' = SD / 10^((z_native - z_goal) * s(TS)), probits from the curve's own and the requested probability")
    elif understood:
        ctx.violated(f, f.node, "shift of SD: %s" % p, text="shift SD: %s" % p[:60])
    else:
        raise AnalysisError("transform_to_failure_probability: value stored under 'SD' not understood (%s)" % p)
    nd_new = stored["ND"]
    nd0, mask, moved = nd_new, None, None
    if isinstance(nd_new, tuple) and len(nd_new) == 4 and nd_new[0] == "where":
        _, mask, moved, nd0 = nd_new
    p, understood = shift(nd0, "ND", "TN")
    if p is None:
        ctx.holds(f, f.node, "ND' = ND / 10^((z_native - z_goal) * s(TN)) before the move along the k_1 line")
    elif understood:
        ctx.violated(f, f.node, "shift of ND: %s" % p, text="shift ND: %s" % p[:60])
    else:
        raise AnalysisError("transform_to_failure_probability: value stored under 'ND' not understood (%s)" % p)
    if "failure_probability" in stored and has_goal(stored["failure_probability"]) and \
            not any(is_attr(y, "failure_probability") for y in term_walk(stored["failure_probability"])):
        ctx.holds(f, f.node, "the transformed curve's native probability is the goal probability")
    else:
        ctx.violated(f, f.node, "the transformed curve does not record the goal as its native failure "
                     "probability: transforming again would start from the wrong quantile", text="native probability")
    # knee shift along the k_1 line: ND'[SD' != 0] *= (SD'[...]/SD) ** (-k_1)
    want_mask = tuple(sorted([("c", 0), sd_new], key=repr))
    problem = None
    if mask is None:
        problem = "ND' is not moved along the k_1 line at all"
    elif not (isinstance(mask, tuple) and len(mask) == 4 and mask[0] == "cmp" and mask[1] == "ne" and (mask[2], mask[3]) == want_mask):
        problem = "the move along the k_1 line is applied under another condition than SD' != 0"
    else:
        ok = False
        if is_op(moved, "*"):
            for base_, fac in ((moved[2], moved[3]), (moved[3], moved[2])):
                if base_ == ("at", nd0, mask) and is_op(fac, "**") and is_op(fac[2], "/") and fac[2][2] == ("at", sd_new, mask) and \
                        is_attr(fac[2][3], "SD") and fac[3] == ("u", "usub", fac[3][2]) and is_attr(fac[3][2], "k_1"):
                    ok = True
        if not ok:
            problem = "the factor is not (SD'/SD) ** (-k_1) applied to ND'"
    if problem is None:
        ctx.holds(f, f.node, "ND' additionally moves along the k_1 line: *(SD'/SD)^-k_1 exactly where SD' != 0")
    else:
        ctx.violated(f, f.node, "knee cycle number: %s (needed: ND' *= (SD'/SD)**(-k_1) where SD' != 0)" % problem,
                     text="knee move: " + problem[:50])
    # the stored items go into a copy of the broadcast data
    base_ok = False
    for s_ in walk_function(f.node):
        if isinstance(s_, ast.Assign) and isinstance(s_.targets[0], ast.Subscript) and isinstance(s_.targets[0].value, ast.Name) and \
                const_value(s_.targets[0].slice) == "SD":
            tname = s_.targets[0].value.id
            base = [d_ for d_ in walk_function(f.node) if isinstance(d_, ast.Assign) and isinstance(d_.targets[0], ast.Name)
                    and d_.targets[0].id == tname]
            base_ok = bool(base) and all(any(isinstance(c.func, ast.Attribute) and c.func.attr in ("copy", "to_frame", "assign")
                                             for c in calls_in(d_.value)) or call_name(d_.value) in ("pd.DataFrame", "pd.Series")
                                         for d_ in base)
    if base_ok:
        ctx.holds(f, f.node, "the transformed data is a copy")
    else:
        raise AnalysisError("transform_to_failure_probability: the object the results are stored in was not identified "
                            "(the no-write rule R-C08-10 decides aliasing)")


def _r8(ctx):
    prog = ctx.prog
    ctx.rule("R-C08-8", floor=3, what="cycles/load delegate to basquin_cycles/basquin_load; subclasses do not re-implement them")
    for name, target in (("cycles", "basquin_cycles"), ("load", "basquin_load")):
        f = prog.func(WC + "." + name)
        r = [s for s in f.node.body if isinstance(s, ast.Return)]
        params = [p for p in f.params if p != "self"]
        ok = r and isinstance(r[0].value, ast.Call) and isinstance(r[0].value.func, ast.Attribute) and \
            is_self_attr(r[0].value.func, target) and [norm_text(a) for a in r[0].value.args] == params
        if ok:
            ctx.holds(f, r[0], "%s(%s) -> %s(%s)" % (name, ", ".join(params), target, ", ".join(params)))
        else:
            ctx.violated(f, r[0] if r else f.node, "%s does not delegate to %s with its arguments in order" % (name, target))
    base = prog.cls(WC)
    over = []
    for ci in prog.subclasses(base.key):
        for m in ("cycles", "load", "basquin_cycles", "basquin_load", "_make_k", "transform_to_failure_probability",
                  "miner_original", "miner_elementary", "miner_haibach"):
            if m in ci.methods:
                over.append((ci, m))
    if over:
        ci, m = over[0]
        ctx.violated(ci.methods[m][-1], ci.methods[m][-1].node, "%s re-implements %s instead of inheriting it" % (ci.name, m),
                     text="%s.%s" % (ci.name, m))
    else:
        ctx.holds(base.key, None, "%d subclasses inherit cycles/load/Basquin/transform/Miner modifiers unchanged" %
                  len(prog.subclasses(base.key)))


# =========================================================================== variants

WP = "src/pylife/materiallaws/woehlercurve.py"
UF = "src/pylife/utils/functions.py"


def variants():
    out = []

    def any_for_all_k2(tree):
        f = find_func(tree, "WoehlerCurve._make_k")
        i = next(k for k, st in enumerate(f.body) if isinstance(st, ast.Assign) and isinstance(st.targets[0], ast.Subscript) and
                 norm_text(st.targets[0].value) == "k")
        f.body[i] = parse_stmt("if np.isinf(k_2).any():\n    k[below_limit] = np.inf\nelse:\n    k[below_limit] = k_2[below_limit]")
        return True
    out.append(witness("no second slope for the whole table as soon as one curve has k_2 = inf", WP, any_for_all_k2, "R-C08-15"))

    def all_native_shortcut(tree):
        f = find_func(tree, "WoehlerCurve.transform_to_failure_probability")
        i = next(k for k, st in enumerate(f.body) if isinstance(st, ast.Assign) and isinstance(st.targets[0], ast.Tuple))
        f.body.insert(i + 1, parse_stmt("if (obj.failure_probability == failure_probability).any():\n    pass"))
        return True
    out.append(witness("branch on any() over the native failure probabilities", WP, all_native_shortcut, "R-C08-15"))

    def cycles_as_given(tree):
        f = find_func(tree, "WoehlerCurve.basquin_load")
        for i_, st in enumerate(f.body):
            if isinstance(st, ast.If) and "isinstance" in ast.unparse(st.test) and any(
                    isinstance(x, ast.Assign) and isinstance(x.targets[0], ast.Name) and x.targets[0].id == "cycles" for x in ast.walk(st)):
                del f.body[i_]
                return True
        return False
    out.append(witness("load direction negates the cycle numbers in the caller's element type", "src/pylife/materiallaws/woehlercurve.py", cycles_as_given, "R-C08-9"))

    def int_slopes(tree):
        f = find_func(tree, "WoehlerCurve._make_k")
        for st in f.body:
            if isinstance(st, ast.Assign) and isinstance(st.targets[0], ast.Name) and st.targets[0].id == "k" and \
                    isinstance(st.value, ast.Call):
                st.value = parse_expr("np.asarray(wc.k_1).copy()")
                return True
        return False
    out.append(witness("slope array keeps the element type of the given k_1 column", "src/pylife/materiallaws/woehlercurve.py", int_slopes, "R-C08-9"))

    def astype_slopes(tree):
        f = find_func(tree, "WoehlerCurve._make_k")
        for st in f.body:
            if isinstance(st, ast.Assign) and isinstance(st.targets[0], ast.Name) and st.targets[0].id == "k" and \
                    isinstance(st.value, ast.Call):
                st.value = parse_expr("np.asarray(wc.k_1).astype(np.float64)")
                return True
        return False
    out.append(twin("slope array converted with astype", "src/pylife/materiallaws/woehlercurve.py", astype_slopes))

    def skip_transform_at_default(tree):
        f = find_func(tree, "WoehlerCurve.basquin_cycles")
        for i, st in enumerate(f.body):
            if isinstance(st, ast.Assign) and "transform_to_failure_probability" in ast.unparse(st.value):
                t = st.targets[0].id
                f.body[i] = parse_stmt("if failure_probability == 0.5:\n    %s = self\nelse:\n    %s" % (t, ast.unparse(st)))
                return True
        return False
    out.append(witness("cycles() skips the transformation at the default probability", WP, skip_transform_at_default, "R-C08-11"))

    def haibach_inplace(tree):
        f = find_func(tree, "WoehlerCurve.miner_haibach")
        st = [x for x in f.body if isinstance(x, ast.Assign) and isinstance(x.targets[0], ast.Name)][0]
        st.value = parse_expr("self._obj")
        return True
    out.append(witness("miner_haibach writes into self._obj", WP, haibach_inplace, "R-C08-1"))

    def haibach_val(tree):
        f = find_func(tree, "WoehlerCurve.miner_haibach")
        st = [x for x in f.body if isinstance(x, ast.Assign) and isinstance(x.targets[0], ast.Subscript)][0]
        st.value = parse_expr("2.0 * self._obj.k_1 - 2.0")
        return True
    out.append(witness("k_2 = 2k-2", WP, haibach_val, "R-C08-1"))

    def orig_key(tree):
        f = find_func(tree, "WoehlerCurve.miner_original")
        st = [x for x in f.body if isinstance(x, ast.Assign) and isinstance(x.targets[0], ast.Subscript)][0]
        st.targets[0].slice = ast.Constant("k_1")
        return True
    out.append(witness("miner_original writes k_1", WP, orig_key, "R-C08-1"))

    def el_ctor(tree):
        f = find_func(tree, "WoehlerCurve.miner_elementary")
        f.body[-1].value = ast.Name(id="new", ctx=ast.Load())
        return True
    out.append(witness("miner_elementary returns the raw Series", WP, el_ctor, "R-C08-1"))

    def no_copy(tree):
        f = find_func(tree, "WoehlerCurve.__init__")
        f.body[0].value = ast.Name(id="pandas_obj", ctx=ast.Load())
        return True
    out.append(witness("constructor keeps the caller's object", WP, no_copy, "R-C08-2"))

    def sub_init(tree):
        # a subclass overrides __init__ without copying
        for n in ast.walk(tree):
            if isinstance(n, ast.ClassDef) and n.name == "MinerBase":
                n.body.insert(0, ast.parse("def __init__(self, pandas_obj):\n    self._obj = pandas_obj\n    self._validate()").body[0])
                return True
        return False
    out.append(witness("MinerBase overrides __init__ without copy", "src/pylife/strength/miner.py", sub_init, "R-C08-2"))

    def cyc_expo(tree):
        f = find_func(tree, "WoehlerCurve.basquin_cycles")
        for c in calls_in(f, name="np.power"):
            c.args[1] = c.args[1].operand
            return True
        return False
    out.append(witness("cycles with exponent +k", WP, cyc_expo, "R-C08-3"))

    def load_expo(tree):
        f = find_func(tree, "WoehlerCurve.basquin_load")
        for c in calls_in(f, name="np.power"):
            c.args[1] = parse_expr("-2.0 / k[in_limit]")
            return True
        return False
    out.append(witness("load exponent -2/k", WP, load_expo, "R-C08-3"))

    def load_default(tree):
        f = find_func(tree, "WoehlerCurve.basquin_load")
        for s in f.body:
            if isinstance(s, ast.Assign) and isinstance(s.targets[0], ast.Name) and s.targets[0].id == "load":
                s.value = parse_expr("np.asarray(wc.SD)")
                return True
        return False
    out.append(witness("load default aliases SD", WP, load_default, "R-C08-3"))

    def sel_le(tree):
        f = find_func(tree, "WoehlerCurve._make_k")
        for n in ast.walk(f):
            if isinstance(n, ast.Compare) and isinstance(n.ops[0], ast.Lt):
                n.ops = [ast.LtE()]
                return True
        return False
    out.append(witness("below-limit mask <=", WP, sel_le, "R-C08-4"))

    def sel_unneg(tree):
        f = find_func(tree, "WoehlerCurve.basquin_load")
        for c in calls_in(f, attr="_make_k"):
            c.args[0] = c.args[0].operand
            c.args[1] = c.args[1].operand
            return True
        return False
    out.append(witness("load direction selects cycles < ND", WP, sel_unneg, "R-C08-4"))

    def ts_conv(tree):
        f = find_func(tree, "WoehlerCurve._validate")
        for s in ast.walk(f):
            if isinstance(s, ast.Assign) and is_self_attr(s.targets[0], "_TN") and isinstance(s.value, ast.Call) \
                    and call_name(s.value) == "np.power":
                s.value.args[1] = parse_expr("1.0 / self._obj.k_1")
                return True
        return False
    out.append(witness("TN = TS^(1/k)", WP, ts_conv, "R-C08-5"))

    def const8(tree):
        f = find_func(tree, "scattering_range_to_std")
        for n in ast.walk(f):
            if isinstance(n, ast.Constant) and isinstance(n.value, float):
                n.value = 0.39015217303618954
                return True
        return False
    out.append(witness("scatter constant perturbed in the 8th digit", UF, const8, "R-C08-6"))

    def const2(tree):
        f = find_func(tree, "std_to_scattering_range")
        for n in ast.walk(f):
            if isinstance(n, ast.Constant) and isinstance(n.value, float):
                n.value = 2.56310313
                return True
        return False
    out.append(witness("c2 truncated", UF, const2, "R-C08-6"))

    def no_fp(tree):
        f = find_func(tree, "WoehlerCurve.transform_to_failure_probability")
        f.body = [s for s in f.body if not (isinstance(s, ast.Assign) and isinstance(s.targets[0], ast.Subscript)
                                            and const_value(s.targets[0].slice) == "failure_probability")]
        return True
    out.append(witness("new failure_probability not recorded", WP, no_fp, "R-C08-7"))

    def nd_ts(tree):
        f = find_func(tree, "WoehlerCurve.transform_to_failure_probability")
        for s in f.body:
            if isinstance(s, ast.Assign) and isinstance(s.targets[0], ast.Name) and s.targets[0].id == "ND":
                for n in ast.walk(s.value):
                    if isinstance(n, ast.Attribute) and n.attr == "TN":
                        n.attr = "TS"
                        return True
        return False
    out.append(witness("ND shifted with the std of TS", WP, nd_ts, "R-C08-7"))

    def diff_sign(tree):
        f = find_func(tree, "WoehlerCurve.transform_to_failure_probability")
        for s in f.body:
            if isinstance(s, ast.Assign) and isinstance(s.targets[0], ast.Name) and s.targets[0].id == "SD":
                for n in ast.walk(s.value):
                    if isinstance(n, ast.BinOp) and isinstance(n.op, ast.Sub):
                        n.left, n.right = n.right, n.left
                        return True
        return False
    out.append(witness("probit difference reversed for SD", WP, diff_sign, "R-C08-7"))

    def deleg(tree):
        f = find_func(tree, "WoehlerCurve.load")
        f.body[-1].value.args = [f.body[-1].value.args[0]]
        return True
    out.append(witness("load() drops the failure probability", WP, deleg, "R-C08-8"))

    def like_dtype(tree):
        f = find_func(tree, "WoehlerCurve._make_k")
        for c in calls_in(f, name="np.full_like"):
            c.keywords = [k for k in c.keywords if k.arg != "dtype"]
        return True
    # (since both directions convert their argument to float before the broadcast, the element type of `src` is float and the
    # explicit dtype is redundant: behaviour preserving on the repaired tree - it was a defect while basquin_load passed the
    # caller's cycle numbers through)
    out.append(twin("full_like without dtype in _make_k (src is float in both directions)", WP, like_dtype))

    def like_dtype_and_raw_cycles(tree):
        ok = like_dtype(tree)
        f = find_func(tree, "WoehlerCurve.basquin_load")
        for i_, st in enumerate(f.body):
            if isinstance(st, ast.If) and "isinstance" in ast.unparse(st.test) and any(
                    isinstance(x, ast.Assign) and isinstance(x.targets[0], ast.Name) and x.targets[0].id == "cycles" for x in ast.walk(st)):
                del f.body[i_]
                return ok
        return False
    out.append(witness("full_like without dtype while the cycle numbers keep the caller's element type", WP, like_dtype_and_raw_cycles, "R-C08-9"))

    def no_float_norm(tree):
        f = find_func(tree, "WoehlerCurve.basquin_cycles")
        for st in list(f.body):
            if isinstance(st, ast.Assign) and isinstance(st.value, ast.Call) and isinstance(st.value.func, ast.Name) and \
                    st.value.func.id == "ensure_float_to_prevent_int_overflow":
                f.body.remove(st)
                return True
        return False
    out.append(witness("load no longer converted to float before full_like", WP, no_float_norm, "R-C08-9"))

    def transform_inplace(tree):
        f = find_func(tree, "WoehlerCurve.transform_to_failure_probability")
        for st in f.body:
            if isinstance(st, ast.Assign) and isinstance(st.value, ast.Call) and isinstance(st.value.func, ast.Attribute) and \
                    st.value.func.attr == "copy" and isinstance(st.targets[0], ast.Name):
                st.value = parse_expr("self._obj")
                return True
        return False
    out.append(witness("probability transform writes into the curve itself", WP, transform_inplace, "R-C08-10"))

    # twins
    def haibach_eq(tree):
        f = find_func(tree, "WoehlerCurve.miner_haibach")
        st = [x for x in f.body if isinstance(x, ast.Assign) and isinstance(x.targets[0], ast.Subscript)][0]
        st.value = parse_expr("self._obj.k_1 + self._obj.k_1 - 1")
        return True
    out.append(twin("k_2 = k+k-1", WP, haibach_eq))

    def cyc_div(tree):
        f = find_func(tree, "WoehlerCurve.basquin_cycles")
        st = [s for s in f.body if isinstance(s, ast.Assign) and isinstance(s.targets[0], ast.Subscript)][0]
        st.value = parse_expr("wc.ND[in_limit] / np.power(ld[in_limit] / wc.SD[in_limit], k[in_limit])")
        return True
    out.append(twin("cycles = ND / (L/SD)^k", WP, cyc_div))

    def const_expr(tree):
        f = find_func(tree, "scattering_range_to_std")
        for n in ast.walk(f):
            if isinstance(n, ast.Constant) and isinstance(n.value, float):
                return replace_node(n, parse_expr("(0.19507603651809477 * 2)"))
        return False
    out.append(twin("c1 written as a constant expression", UF, const_expr))
    return out
