"""C01 — chunk independence of rainflow counting: the state-carry discipline.

Decided (necessary conditions): carried detector state is written back on
every exit, `_new_turns` index arithmetic uses pre-update state and advances the
head by exactly len(chunk), one report_chunk(len(chunk)) per process, parallel
value/index arrays stay length-aligned, chunk look-up bracket [cum_k, cum_k+1),
three-/four-point `process` agree up to the kernel call.
Not decided: equality of cycles/residuals for all signals x partitions.
"""
from __future__ import annotations

import ast

from ..nf import to_nf, NFUnsupported
from ..astutil import (assigned_targets, call_name, calls_in, const_value, dotted, find_func, is_self_attr, kwarg,
                       names_in, parse_expr, parse_stmt, replace_node, subst_names, clone)
from ..cfg import CFG
from ..dataflow import inline_env
from ..domains import Affine, affine_eval
from ..frontend import AnalysisError, walk_function
from ..report import norm_text
from ..witness import witness, twin

LEVEL = "other"
GEN = "pylife.stress.rainflow.general"
EXPLANATION = (
    "Static decision of the state-carry discipline every chunk-independent detector needs (C01). For each concrete "
    "subclass of AbstractDetector: a must-analysis on the CFG shows that locals initialised from detector attributes are "
    "stored back after their last redefinition on every normal path, that state handed to a helper comes back into the "
    "same attribute, and that the residual attributes are assigned after the kernel call (R-C01-1). In _new_turns the "
    "global-index offset reads the head index and the tail length before any of them is updated, the head index advances "
    "exactly once per non-empty chunk by len(chunk) and not at all for an empty one, the tail is cut from the array the "
    "turns were computed on at the local (pre-globalisation) turn index, and the flush index is head-1 of the updated head "
    "(R-C01-2). Index-reporting detectors report len(chunk) exactly once per process (R-C01-3). A symbolic length domain "
    "proves inductively that value and index arrays handed to the kernels stay aligned (R-C01-4). The chunk look-up is "
    "shown to realise the bracket [cum_k, cum_k+1) from searchsorted's specification (R-C01-5). Three- and four-point "
    "process agree on closed forms of every kernel argument, recorder call and state store (R-C01-6). Not decided: whether "
    "the kept tail is the right one, plateaus across chunk borders, i.e. equality of results for all signals and partitions.")
EXPLANATION += (" R-C01-7: no detector attribute holds an alias or view of the caller's chunk (attribute provenance from the effect analysis), and values cached on recorders/detectors are reset by every method that changes what they are computed from (memo rule with a built-in positive example).")
EXPLANATION += (' R-C01-8: in every detector process() every path to a normal exit passes the _new_turns call (CFG must-pass: no chunk bypasses the tail / head bookkeeping), and no record_* / report_chunk method of a recorder branches on the values it is handed (np.any, truthiness, comparisons) - only on their number.')
EXPLANATION += (" R-C01-2 (b'): every return of _new_turns that is not dominated by the head-index store is guarded by exactly one test, 'the chunk is empty' (len / size / shape[0] of the chunk or its array conversion compared with 0).")
EXPLANATION += (" R-C01-1 (iii): an attribute that process() overwrites from a local at its end is carried state - that local starts from the attribute's previous content (carry-in), not from a value re-derived from other state.")
ASSUMPTIONS = [
    "np.searchsorted(a, v, side) follows its documented bracket on an ascending array",
    "the compiled rainflow_ext kernels are built from extension.pyx",
    "np.concatenate / slicing lengths follow numpy semantics for 1-D arrays",
]


def detectors(prog):
    cs = prog.subclasses(GEN + ":AbstractDetector")
    out = []
    for c in cs:
        p = c.methods.get("process")
        if p:
            out.append((c, p[-1]))
    if len(out) < 4:
        raise AnalysisError("expected >= 4 concrete detectors, found %d" % len(out))
    return out


def _canon(e):
    """canonical text: x.size -> len(x)"""
    e = clone(e)
    for n in ast.walk(e):
        for f, v in ast.iter_fields(n):
            if isinstance(v, ast.Attribute) and v.attr == "size":
                setattr(n, f, ast.Call(func=ast.Name(id="len", ctx=ast.Load()), args=[v.value], keywords=[]))
            elif isinstance(v, list):
                for i, x in enumerate(v):
                    if isinstance(x, ast.Attribute) and x.attr == "size":
                        v[i] = ast.Call(func=ast.Name(id="len", ctx=ast.Load()), args=[x.value], keywords=[])
    return norm_text(e)


def run(ctx):
    prog = ctx.prog
    dets = detectors(prog)
    ctx.attempt(_r1_carried_state, prog, dets)
    ctx.attempt(_r2_new_turns, prog)
    ctx.attempt(_r3_report_chunk, prog, dets)
    ctx.attempt(_r4_lengths, prog, dets)
    ctx.attempt(_r5_bracket, prog)
    ctx.attempt(_r6_siblings, prog, dets)
    ctx.attempt(_r7_state, prog, dets)
    ctx.attempt(_r8_every_chunk_consumed, prog, dets)


def value_conditioned_branches(fn_node, params):
    """branch conditions of a recorder method that look at the VALUES of what is recorded (np.any / np.all / bool / comparison
    of a parameter), as opposed to how many there are (len, .size, .shape, `is None`).  A zero is a value like any other: a
    chunk whose closed loops all start at 0.0 is not an empty chunk."""
    out = []
    for st in ast.walk(fn_node):
        test = st.test if isinstance(st, (ast.If, ast.While, ast.IfExp, ast.Assert)) else None
        if test is None:
            continue
        for n in ast.walk(test):
            if isinstance(n, ast.Name) and n.id in params and isinstance(n.ctx, ast.Load):
                par = getattr(n, "_parent", None)
                ok = False
                anc = par
                # allowed contexts: len(p), p.size / p.shape / p.ndim, p is None / is not None, isinstance(p, ...)
                if isinstance(par, ast.Call) and call_name(par) in ("len", "isinstance", "np.ndim", "np.size", "np.shape"):
                    ok = True
                if isinstance(par, ast.Attribute) and par.attr in ("size", "shape", "ndim", "index", "dtype"):
                    ok = True
                if isinstance(par, ast.Compare) and len(par.ops) == 1 and isinstance(par.ops[0], (ast.Is, ast.IsNot)):
                    ok = True
                if not ok:
                    out.append((st, n))
                    break
    return out


def _r8_every_chunk_consumed(ctx, prog, dets):
    """R-C01-8: (a) every chunk is consumed: in each detector's process() every path to a normal exit passes the call that moves
    the chunk into the carried sample tail and the head index (_new_turns) - an early return for 'too short' chunks loses the
    sample for good; (b) what a recorder stores does not depend on the values it is handed: no branch of a record_* /
    report_chunk method looks at the values (np.any(values) is False for a non-empty batch of zeros), only at their number."""
    from ..cfg import CFG
    from ..frontend import set_parents
    ctx.rule("R-C01-8", floor=5, what="every chunk reaches the tail bookkeeping on every path; recorders branch on counts, never on recorded values")
    for c, fi in dets:
        f2 = fi
        nts = [x for x in walk_function(f2.node) if isinstance(x, (ast.Assign, ast.Expr)) and
               any(isinstance(k.func, ast.Attribute) and is_self_attr(k.func) and k.func.attr == "_new_turns" for k in calls_in(x))]
        if len(nts) != 1:
            from ..inline import inlined
            f2 = inlined(prog, fi, skip=("_new_turns",))
            nts = [x for x in walk_function(f2.node) if isinstance(x, (ast.Assign, ast.Expr)) and
                   any(isinstance(k.func, ast.Attribute) and is_self_attr(k.func) and k.func.attr == "_new_turns" for k in calls_in(x))]
        if len(nts) != 1:
            raise AnalysisError("%s.process: the call of _new_turns was not found" % c.name)
        cfg = CFG(f2.node)
        if cfg.must_pass(cfg.exit, {cfg.node(nts[0])}):
            ctx.holds(fi, nts[0], "%s.process: every path to a normal exit passes _new_turns" % c.name)
        else:
            ctx.violated(fi, nts[0], "%s.process: a path returns without calling _new_turns: the samples of that chunk never enter "
                         "the carried tail and the head index, so the result depends on where the signal was cut" % c.name,
                         text="chunk not consumed " + c.name)
    ex = set_parents(ast.parse("def record_values(self, values_from, values_to):\n    if not np.any(values_from):\n        return\n"
                               "    if len(values_to) == 0 or values_from is None:\n        return\n")).body[0]
    if len(value_conditioned_branches(ex, {"values_from", "values_to"})) != 1:
        raise AnalysisError("R-C01-8 built-in example not matched")
    n = 0
    for key, fi in sorted(prog.functions.items()):
        if fi.module.name not in (GEN, "pylife.stress.rainflow.recorders") or fi.cls is None or fi.parent is not None:
            continue
        if not (fi.name.startswith("record_") or fi.name == "report_chunk"):
            continue
        n += 1
        params = {q for q in fi.params if q != "self"}
        bad = value_conditioned_branches(fi.node, params)
        for st, nm in bad:
            ctx.violated(fi, st, "%s.%s branches on the values of %s (%s): a batch whose values are all zero is treated like an "
                         "empty one, so what is recorded depends on how the loops are spread over the chunks" %
                         (fi.cls.name, fi.name, nm.id, norm_text(st.test)[:50]), text="value conditioned %s.%s" % (fi.cls.name, fi.name))
        if not bad:
            ctx.holds(fi, fi.node, "%s.%s branches on counts only" % (fi.cls.name, fi.name))
    if n < 4:
        raise AnalysisError("recorder methods not found")


def _r7_state(ctx, prog, dets):
    """State carried from chunk to chunk belongs to the detector: (a) nothing stored in the detector is a view of the caller's
    chunk (a reused read buffer would change the carried tail behind the detector's back) - effect analysis of what reaches
    self.<attr> in _new_turns and process(); (b) values cached on the recorder/detector are reset by every method that
    changes what they were computed from (shared memo rule)."""
    from ..effects import Effects
    from .. import memo
    ctx.rule("R-C01-7", floor=4, what="carried state is not a view of the caller's chunk; cached values are invalidated by every mutator")
    eff = Effects(prog)
    base = prog.cls(GEN + ":AbstractDetector")
    # the property names the three-point, four-point and FKM detectors (the FKM-nonlinear one stores pandas selections, which
    # are copies under copy-on-write; it is covered by the memo part only)
    classes = [base] + [c for c, _ in dets if c.name != "FKMNonlinearDetector"]
    all_classes = [base] + [c for c, _ in dets]
    seen = set()
    for ci in classes:
        prov = eff.attr_provenance(ci)
        for attr, srcs in sorted(prov.items()):
            if (ci.key, attr) in seen:
                continue
            seen.add((ci.key, attr))
            if attr in ("_recorder",):
                continue
            bad = [(o, m) for o, m in srcs if o[0] in ("param", "elem") and o[1] in ("samples", "chunk", "data")]
            if bad:
                f = next((fs[-1] for name, fs in ci.methods.items()
                          if any(isinstance(st, ast.Assign) and any(is_self_attr(t, attr) for t in st.targets)
                                 for st in walk_function(fs[-1].node))), None)
                ctx.violated(f or ci.key, f.node if f else None, "%s keeps a %s of the caller's chunk in self.%s: when the caller re-uses "
                             "its buffer for the next chunk the carried state changes, and chunked processing differs from "
                             "one-piece processing" % (ci.name, bad[0][1], attr), text="%s.%s aliases chunk" % (ci.name, attr))
            else:
                ctx.holds(ci.key, None, "%s.%s holds no view of the caller's chunk" % (ci.name, attr))
    recs = [prog.cls(GEN + ":AbstractRecorder")] + list(prog.subclasses(GEN + ":AbstractRecorder"))
    memo.run_rule(ctx, classes=recs + all_classes)


# ----------------------------------------------------------------------------- R-C01-1

def _r1_carried_state(ctx, prog, dets):
    ctx.rule("R-C01-1", floor=7, what="carried detector state is written back on every normal exit")
    for ci, fi in dets:
        cfg = CFG(fi.node)
        # (i) locals initialised from self attributes and redefined later
        pairs = []
        for s in fi.node.body:
            if isinstance(s, ast.Assign) and len(s.targets) == 1 and isinstance(s.targets[0], ast.Name) and \
                    is_self_attr(s.value):
                local, attr = s.targets[0].id, s.value.attr
                redefs = [x for x in walk_function(fi.node) if isinstance(x, (ast.Assign, ast.AugAssign)) and x is not s
                          and any(isinstance(t, ast.Name) and t.id == local for t in assigned_targets(x))]
                if redefs:
                    pairs.append((local, attr, s))
        for local, attr, init in pairs:
            # forward must-analysis: 'synced' at exit
            state = {n: None for n in cfg.nodes()}
            state[cfg.entry] = True
            work = [cfg.entry]
            while work:
                n = work.pop()
                st = state[n]
                s = cfg.stmt[n]
                out = st
                if s is not None and cfg.kind[n] == "stmt":
                    if isinstance(s, (ast.Assign, ast.AugAssign)):
                        tg = assigned_targets(s)
                        if any(isinstance(t, ast.Name) and t.id == local for t in tg) and s is not init:
                            out = False
                        if isinstance(s, ast.Assign) and any(is_self_attr(t, attr) for t in tg) and \
                                isinstance(s.value, ast.Name) and s.value.id == local:
                            out = True
                        elif any(is_self_attr(t, attr) for t in tg) and s is not init:
                            # attribute overwritten with something else: local no longer mirrors it
                            out = False if not (isinstance(s, ast.Assign) and isinstance(s.value, ast.Name)
                                                and s.value.id == local) else True
                for d, lab in cfg.succ[n]:
                    if lab == "exc":
                        continue
                    new = out if state[d] is None else (state[d] and out)
                    if new != state[d]:
                        state[d] = new
                        work.append(d)
            if state[cfg.exit] is None:
                raise AnalysisError("%s: exit unreachable" % fi.key)
            if state[cfg.exit]:
                ctx.holds(fi, init, "local %s mirrors self.%s and is stored back after its last redefinition on every path"
                          % (local, attr))
            else:
                ctx.violated(fi, init, "local %r is initialised from self.%s and redefined, but a path reaches the end of "
                             "process() without storing it back: the next chunk restarts from stale state" % (local, attr))
        # (iii) carry-in: an attribute that is overwritten from a local at the end of process() is the detector's memory of the
        # chunks before - the local has to start from the attribute's previous content, not from something re-derived
        for s in walk_function(fi.node):
            if isinstance(s, ast.Assign) and len(s.targets) == 1 and is_self_attr(s.targets[0]) and isinstance(s.value, ast.Name):
                attr, local = s.targets[0].attr, s.value.id
                first = None
                for st in walk_function(fi.node):
                    if st is s:
                        break
                    if isinstance(st, (ast.Assign, ast.AugAssign)) and any(isinstance(t, ast.Name) and t.id == local for t in assigned_targets(st)):
                        first = st
                        break
                if first is None or isinstance(first, ast.AugAssign):
                    continue
                if any(is_self_attr(n, attr) for n in ast.walk(first.value)):
                    ctx.holds(fi, first, "local %s starts from self.%s, which it is stored back to" % (local, attr))
                elif any(isinstance(n, ast.Name) and n.id in fi.params for n in ast.walk(first.value)) and \
                        not any(is_self_attr(n) for n in ast.walk(first.value)):
                    continue                # built from the chunk itself (not carried state)
                else:
                    ctx.violated(fi, first, "self.%s is overwritten from the local %r at the end of process(), but %r starts from `%s` "
                                 "instead of the attribute's previous content: what the chunks before had accumulated there is "
                                 "re-derived, a one-piece run and a chunked run diverge" % (attr, local, local, norm_text(first.value)[:70]),
                                 text="carry-in of self.%s" % attr)
        # (ii) state handed to a helper and returned
        for s in walk_function(fi.node):
            if isinstance(s, ast.Assign) and isinstance(s.value, ast.Call) and len(s.targets) == 1 and \
                    isinstance(s.targets[0], ast.Tuple):
                call = s.value
                passed = {k.arg: k.value.attr for k in call.keywords if k.arg and is_self_attr(k.value)}
                if not passed:
                    continue
                tg = prog.resolve_call(fi, call)
                callee = prog.functions.get(tg[0]) if tg else None
                if callee is None:
                    raise AnalysisError("%s: helper receiving carried state not resolved" % fi.key)
                rets = [r for r in walk_function(callee.node) if isinstance(r, ast.Return) and r.value is not None]
                if len(rets) != 1 or not isinstance(rets[0].value, ast.Tuple):
                    raise AnalysisError("%s: helper %s does not return one tuple" % (fi.key, callee.key))
                rnames = [e.id if isinstance(e, ast.Name) else None for e in rets[0].value.elts]
                targets = s.targets[0].elts
                if len(rnames) != len(targets):
                    ctx.violated(fi, s, "result of %s has %d components but %d are unpacked" %
                                 (callee.name, len(rnames), len(targets)))
                    continue
                for kw, attr in passed.items():
                    if kw not in rnames:
                        ctx.violated(fi, s, "state self.%s is handed to %s as %r but never comes back" %
                                     (attr, callee.name, kw))
                        continue
                    t = targets[rnames.index(kw)]
                    if is_self_attr(t, attr):
                        ctx.holds(fi, s, "self.%s -> %s(%s=...) -> self.%s" % (attr, callee.name, kw, attr))
                    else:
                        ctx.violated(fi, s, "state self.%s is handed to %s as %r but the returned value is stored in %s"
                                     % (attr, callee.name, kw, norm_text(t)))
        # (iii) residual attributes assigned after the kernel call on every path (directly or by a helper method that stores
        # them on each of its own paths)
        kernel_calls = [s for s in walk_function(fi.node) if isinstance(s, (ast.Assign, ast.Expr)) and isinstance(s.value, ast.Call)
                        and (call_name(s.value) or "").endswith("point_loop")]
        for ks in kernel_calls:
            for attr in ("_residuals", "_residual_index"):
                stores = _must_effect_nodes(prog, fi, cfg, lambda f2, x: isinstance(x, ast.Assign) and
                                            any(is_self_attr(t, attr) for t in x.targets))
                if stores and cfg.must_pass(cfg.exit, stores, start=cfg.node(ks)):
                    ctx.holds(fi, ks, "self.%s is re-assigned from the kernel result on every path" % attr)
                else:
                    ctx.violated(fi, ks, "a path from the kernel call to the end of process() does not store self.%s" % attr,
                                 text="%s after %s" % (attr, norm_text(ks.value.func)))
            # (iv) once _new_turns has consumed the chunk (head and sample tail advance), every normal exit passes the kernel:
            # a short cut that returns without it leaves residuals / residual index behind the consumed samples
            nts = _must_effect_nodes(prog, fi, cfg, lambda f2, x: isinstance(x, (ast.Assign, ast.Expr)) and any(
                isinstance(c.func, ast.Attribute) and is_self_attr(c.func) and c.func.attr == "_new_turns" for c in calls_in(x)),
                may=True)
            for a in nts:
                b = cfg.node(ks)
                if a is None or b is None:
                    continue
                if cfg.must_pass(cfg.exit, {b}, start=a):
                    ctx.holds(fi, ks, "every path from _new_turns (chunk consumed) to the end of process() runs the kernel")
                else:
                    ctx.violated(fi, cfg.stmt[a], "%s: a path from _new_turns - which consumes the chunk and advances head and sample tail - "
                                 "reaches the end of process() without running %s and storing its residuals: the carried "
                                 "residuals no longer match the consumed samples" % (fi.cls.name if fi.cls else fi.name,
                                                                                    norm_text(ks.value.func)),
                                 text="shortcut around %s" % norm_text(ks.value.func))


def _must_effect_nodes(prog, fi, cfg, pred, may=False, depth=0, _seen=None):
    """CFG nodes of `fi` whose statement has the effect `pred(function, stmt)` itself, or calls a method of the same object that
    has it on every one of its paths (may=True: on some path).  Interprocedural, depth-limited."""
    _seen = _seen or set()
    out = set()
    for x in walk_function(fi.node):
        if not isinstance(x, ast.stmt):
            continue
        n = cfg.node(x)
        if n is None:
            continue
        if pred(fi, x):
            out.add(n)
            continue
        if depth >= 3 or isinstance(x, (ast.If, ast.For, ast.While, ast.Try, ast.With, ast.FunctionDef)):
            continue
        for c in calls_in(x):
            if isinstance(c.func, ast.Attribute) and is_self_attr(c.func):
                for key in prog.resolve_call(fi, c):
                    callee = prog.functions.get(key)
                    if callee is None or callee.key in _seen:
                        continue
                    ccfg = CFG(callee.node)
                    inner = _must_effect_nodes(prog, callee, ccfg, pred, may, depth + 1, _seen | {fi.key})
                    if inner and (may or ccfg.must_pass(ccfg.exit, inner)):
                        out.add(n)
    return out


# ----------------------------------------------------------------------------- R-C01-2

def _stores(fnode, attr):
    return [s for s in walk_function(fnode) if isinstance(s, (ast.Assign, ast.AugAssign)) and
            any(is_self_attr(t, attr) for t in assigned_targets(s))]


def _r2_new_turns(ctx, prog):
    ctx.rule("R-C01-2", floor=5, what="_new_turns: offset from pre-update state; head += len(chunk) exactly once; tail from local index; flush index from updated head")
    _r2_new_turns_core(ctx, prog)


def _r2_new_turns_core(ctx, prog):
    """Chunk bookkeeping of AbstractDetector._new_turns, decided on its symbolic execution (sa/absint.TermDomain with the
    object's attributes as state, helper methods followed, find_turns kept opaque): with SEEN = concatenate(tail, chunk) and
    L = find_turns(SEEN)[0],
      (a) the reported index is L + head_index - len(tail) (both as they were on entry),
      (b) head_index becomes head_index + len(chunk) on the non-empty path and is untouched on the empty one,
      (c) the new tail is SEEN[L[-1] or 0 :] (after a flush: its last sample),
      (d) a flush appends index head_index + len(chunk) - 1.
    Temporaries, renames, statement order and helper extraction do not matter."""
    from ..absint import Interp, TermDomain, Seq, term_walk, term_alternatives, term_to_nf
    fi = prog.func(GEN + ":AbstractDetector._new_turns")
    params = [p for p in fi.params if p != "self"]
    chunk = params[0]
    it = Interp(prog, TermDomain(), follow=lambda c: c.name != "find_turns")
    args = [("p", q) for q in params]
    # flags: evaluate with their parameters unknown (both arms of every test are joined)
    it.run(fi, args)
    exits = it.exits
    H, T0, S = ("self", "_head_index"), ("self", "_sample_tail"), ("p", chunk)
    LEN_T, LEN_S = ("call", "len", (T0,), ()), ("call", "len", (S,), ())

    def is_seen(z):
        return isinstance(z, tuple) and z[:2] == ("call", "np.concatenate") and len(z[2]) == 1 and isinstance(z[2][0], Seq) and \
            tuple(z[2][0]) == (T0, S)

    def is_local(z):
        return isinstance(z, tuple) and len(z) == 3 and z[0] == "at" and z[2] == ("c", 0) and isinstance(z[1], tuple) and \
            z[1][:2] == ("call", "find_turns") and len(z[1][2]) == 1 and is_seen(z[1][2][0])

    opaque = {}

    def atom(z):
        if is_local(z):
            return "L"
        if z == H:
            return "H"
        if z == LEN_T:
            return "T"
        if z == LEN_S:
            return "N"
        if isinstance(z, tuple) and z and (z[0] in ("call", "m", "at", "attr", "phi", "ite", "where", "self", "p", "?", "cmp", "bool", "u") or
                                           (z[0] == "c" and not isinstance(z[1], (int, float)))):
            return opaque.setdefault(z, "X%d" % (len(opaque) + 1))      # anything else is an opaque quantity
        return None
    sym = lambda txt: to_nf(parse_expr(txt))
    moving = [(v, st) for v, st in exits if "self._head_index" in st or "self._sample_tail" in st]
    still = [(v, st) for v, st in exits if not ("self._head_index" in st or "self._sample_tail" in st)]
    if not moving:
        raise AnalysisError("_new_turns no longer stores _head_index/_sample_tail")
    # (a) the globalising offset
    offs = []
    for v, st in moving:
        for z in term_walk(v):
            if isinstance(z, tuple) and len(z) == 4 and z[0] == "op" and z[1] in ("+", "-") and any(is_local(y) for y in (z[2], z[3])) \
                    and z not in offs:
                offs.append(z)
    if not offs:
        raise AnalysisError("_new_turns: the local turn index of find_turns(concatenate(tail, chunk)) does not reach the result")
    for z in offs:
        try:
            nf = term_to_nf(z, atom)
        except NFUnsupported:
            raise AnalysisError("_new_turns: global-index offset outside the fragment: %r" % (z,))
        if nf == sym("L + H - T"):
            ctx.holds(fi, fi.node, "offset = head_index - len(tail), both as they were before this chunk")
        else:
            ctx.violated(fi, fi.node, "global-index offset: the reported index is %r (L local turn index, H/T head index and tail length "
                         "on entry, N chunk length); it must be L + head_index - len(sample_tail) with the values from before this "
                         "chunk" % nf, text="offset %r" % nf)
    # (b) head advances exactly once per non-empty chunk by len(chunk)
    for v, st in moving:
        h = st.get("self._head_index")
        try:
            nf = term_to_nf(h, atom) if h is not None else None
        except NFUnsupported:
            raise AnalysisError("_new_turns: head index update outside the fragment: %r" % (h,))
        if nf == sym("H + N"):
            ctx.holds(fi, fi.node, "head index advances by len(%s)" % chunk)
        else:
            ctx.violated(fi, fi.node, "head index is advanced to %r, not by the length of the incoming chunk (H + N)" % nf,
                         text="head %r" % nf)
    if still:
        ctx.holds(fi, fi.node, "head index stored exactly once on the non-empty path, never on the empty-chunk path",
                  {"exits": len(exits)})
    else:
        raise AnalysisError("_new_turns: no early exit for an empty chunk found")
    # (b') every return that is not preceded by the head store leaves because the chunk is EMPTY, nothing else: a chunk that is
    # left unprocessed for another reason (all samples equal to the last one, no new extreme, ...) still occupies len(chunk)
    # positions of the signal
    _early_exits_only_for_empty_chunks(ctx, fi, chunk)
    # (c) tail cut from the array find_turns saw, at the last local turn index
    for v, st in moving:
        tail = st.get("self._sample_tail")
        alts = term_alternatives(tail)

        def base_of(z):
            # flush keeps the last sample of the tail: X[-1:]
            if isinstance(z, tuple) and len(z) == 3 and z[0] == "at" and z[2] == ("slice", ("c", -1), None, None):
                return z[1], True
            return z, False
        bases = []
        for a_ in alts:
            b_, _ = base_of(a_)
            if b_ not in bases:
                bases.append(b_)
        if len(bases) != 1:
            ctx.violated(fi, fi.node, "the carried sample tail is one of %d different arrays depending on the path: anything removed "
                         "from or added to the suffix changes its length, which is the position offset of the next chunk" % len(bases),
                         text="tail stored twice")
            continue
        b_ = bases[0]
        if not (isinstance(b_, tuple) and len(b_) == 3 and b_[0] == "at" and isinstance(b_[2], tuple) and b_[2][:1] == ("slice",)
                and len(b_[2]) == 4 and b_[2][2] is None and b_[2][3] is None):
            ctx.violated(fi, fi.node, "sample tail is not a suffix slice of the analysed samples: %r" % (b_[:2] if isinstance(b_, tuple) else b_,),
                         text="tail not a suffix")
            continue
        if not is_seen(b_[1]):
            ctx.violated(fi, fi.node, "sample tail is cut from another array than the one the turns were found on "
                         "(concatenate(tail, chunk))", text="tail from other array")
            continue
        start = set(term_alternatives(b_[2][1]))
        want = {("c", 0)}
        lasts = {z for z in start if isinstance(z, tuple) and len(z) == 3 and z[0] == "at" and is_local(z[1]) and z[2] == ("c", -1)}
        if lasts and start == want | lasts:
            ctx.holds(fi, fi.node, "tail = analysed_samples[last local turn index (or 0):], index read before globalisation")
        else:
            ctx.violated(fi, fi.node, "the kept sample tail does not start exactly at the last turning point found (or at 0 if "
                         "there is none): start = %r; a shorter tail forgets the pending extremum and everything that decides "
                         "whether it is a reversal, a longer one re-reports turning points" % (sorted(start, key=repr),),
                         text="tail start")
    # (d) flush
    appended = []
    for v, st in moving:
        for z in term_walk(v):
            if isinstance(z, tuple) and z[:1] == ("call",) and z[1] in ("np.concatenate", "np.append") and z[2]:
                parts = list(z[2][0]) if isinstance(z[2][0], Seq) else list(z[2])
                if len(parts) == 2 and any(is_local(y) for y in term_walk(parts[0])):
                    last = parts[1][0] if isinstance(parts[1], Seq) and len(parts[1]) == 1 else parts[1]
                    if any(y == H for y in term_walk(last)) and last not in appended:
                        appended.append(last)
    if not appended:
        raise AnalysisError("_flush_new_turns: appended head index not found")
    for last in appended:
        try:
            nf = term_to_nf(last, atom)
        except NFUnsupported:
            raise AnalysisError("flush index outside the fragment: %r" % (last,))
        if nf == sym("H + N - 1"):
            ctx.holds(fi, fi.node, "flush appends head_index - 1 of the already advanced head")
        else:
            ctx.violated(fi, fi.node, "flushed sample gets index %r; the last sample of the chunk is head_index + len(chunk) - 1" % nf,
                         text="flush index %r" % nf)


def _early_exits_only_for_empty_chunks(ctx, fi, chunk):
    fn = fi.node
    aliases = {chunk}
    for st in walk_function(fn):
        if isinstance(st, ast.Assign) and isinstance(st.value, ast.Call) and (call_name(st.value) or "") in ("np.asarray", "np.array", "np.asanyarray") \
                and st.value.args and isinstance(st.value.args[0], ast.Name) and st.value.args[0].id in aliases:
            aliases |= {t.id for t in st.targets if isinstance(t, ast.Name)}
    cfg = CFG(fn)
    doms = cfg.dominators()
    head_nodes = {cfg.node(s) for s in _stores(fn, "_head_index")}
    for r in walk_function(fn):
        if not isinstance(r, ast.Return):
            continue
        n = cfg.node(r)
        if n is None or doms.get(n) is None:
            continue
        if head_nodes & doms[n]:
            continue
        guards = []
        p, child = getattr(r, "_parent", None), r
        while p is not None and p is not fn:
            if isinstance(p, ast.If):
                guards.append((p.test, any(child is x for x in p.body)))
            elif isinstance(p, (ast.For, ast.While, ast.Try, ast.With)):
                guards.append((None, True))
            child, p = p, getattr(p, "_parent", None)
        ok = len(guards) == 1 and guards[0][0] is not None and _empty_chunk_test(guards[0][0], aliases, guards[0][1])
        if ok:
            ctx.holds(fi, r, "early return without head update only for an empty chunk")
        else:
            ctx.violated(fi, r, "_new_turns returns without advancing the head index under the condition %s: only an EMPTY chunk may be "
                         "skipped - any other chunk occupies len(chunk) sample positions, and every index reported afterwards is "
                         "too small by that length" % (" and ".join(norm_text(g[0]) if g[0] is not None else "<loop/try>" for g in guards)[:160] or "<none>"),
                         text="early exit without head update")


def _empty_chunk_test(t, names, in_body):
    """`len(chunk) == 0`-like test (true branch), or its negation when the return sits in the else branch"""
    neg = not in_body
    while isinstance(t, ast.UnaryOp) and isinstance(t.op, ast.Not):
        t, neg = t.operand, not neg

    def length_of(e):
        if isinstance(e, ast.Call) and call_name(e) == "len" and len(e.args) == 1 and isinstance(e.args[0], ast.Name) and e.args[0].id in names:
            return True
        if isinstance(e, ast.Attribute) and e.attr == "size" and isinstance(e.value, ast.Name) and e.value.id in names:
            return True
        if isinstance(e, ast.Subscript) and isinstance(e.value, ast.Attribute) and e.value.attr == "shape" and const_value(e.slice) == 0 and \
                isinstance(e.value.value, ast.Name) and e.value.value.id in names:
            return True
        return False
    if length_of(t):                       # `if not len(chunk)`
        return neg
    if isinstance(t, ast.Compare) and len(t.ops) == 1:
        l, op, r = t.left, t.ops[0], t.comparators[0]
        if length_of(r) and not length_of(l):
            l, r = r, l
            op = {ast.Lt: ast.Gt, ast.Gt: ast.Lt, ast.LtE: ast.GtE, ast.GtE: ast.LtE}.get(type(op), type(op))()
        if length_of(l):
            c = const_value(r)
            empty = (isinstance(op, ast.Eq) and c == 0) or (isinstance(op, ast.Lt) and c == 1) or (isinstance(op, ast.LtE) and c == 0)
            nonempty = (isinstance(op, ast.NotEq) and c == 0) or (isinstance(op, ast.Gt) and c == 0) or (isinstance(op, ast.GtE) and c == 1)
            if empty:
                return not neg
            if nonempty:
                return neg
    return False


def _is_empty_test(t, chunk):
    return isinstance(t, ast.Compare) and len(t.ops) == 1 and isinstance(t.ops[0], ast.Eq) and \
        isinstance(t.left, ast.Call) and call_name(t.left) == "len" and isinstance(t.left.args[0], ast.Name) and \
        t.left.args[0].id == chunk and const_value(t.comparators[0]) == 0


# ----------------------------------------------------------------------------- R-C01-3

def _r3_report_chunk(ctx, prog, dets):
    ctx.rule("R-C01-3", floor=2, what="index-reporting process() reports len(chunk) exactly once on every normal path")
    dets = [(ci, _expanded(prog, fi)) for ci, fi in dets]
    for ci, fi in dets:
        if not any(isinstance(c.func, ast.Attribute) and c.func.attr == "record_index" for c in calls_in(fi.node)):
            continue
        cfg = CFG(fi.node)
        chunk = [p for p in fi.params if p != "self"][0]
        reps = [s for s in walk_function(fi.node) if isinstance(s, ast.Expr) and isinstance(s.value, ast.Call) and
                isinstance(s.value.func, ast.Attribute) and s.value.func.attr == "report_chunk"]
        nodes = {cfg.node(s) for s in reps}
        paths = [p for p in cfg.paths(cfg.entry, {cfg.exit}, limit=256) if p and p[-1][0] == cfg.exit]   # normal exits only: a
        counts = {sum(1 for n, _ in p if n in nodes) for p in paths}                                        # path that raises reports nothing
        if counts != {1}:
            ctx.violated(fi, reps[0] if reps else fi.node, "report_chunk is called %s times on some path; index-reporting "
                         "detectors must report each chunk exactly once" % sorted(counts),
                         text="report_chunk@%s" % fi.qualname)
            continue
        for s in reps:
            env = inline_env(cfg, s)
            env.pop("__ambiguous__")
            arg = subst_names(s.value.args[0], env)
            a = arg
            ok = False
            if isinstance(a, ast.Call) and call_name(a) == "len" and a.args:
                inner = a.args[0]
                while isinstance(inner, ast.Call) and call_name(inner) in ("np.asarray", "np.array", "np.asanyarray"):
                    inner = inner.args[0]
                ok = isinstance(inner, ast.Name) and inner.id == chunk
            if ok:
                ctx.holds(fi, s, "report_chunk(len(%s)) exactly once" % chunk)
            else:
                ctx.violated(fi, s, "report_chunk is given %s, not the length of the incoming chunk" % norm_text(arg))


# ----------------------------------------------------------------------------- R-C01-4

def _length(e, L):
    """symbolic length (Affine) of a 1-D array expression; L(expr) gives symbols for leaves."""
    a = L(e)
    if a is not None:
        return a
    if isinstance(e, ast.IfExp):
        return None
    if isinstance(e, ast.Subscript):
        sl = e.slice
        if isinstance(sl, ast.Slice):
            lo, up = sl.lower, sl.upper
            base = _length(e.value, L)
            if lo is None and up is not None and isinstance(const_value(up), int) and const_value(up) > 0:
                return Affine(const=const_value(up))
            if lo is not None and isinstance(const_value(lo), int) and const_value(lo) < 0 and up is None:
                return Affine(const=-const_value(lo))
            if lo is None and const_value(up) == -1 and base is not None:
                return base - Affine(const=1)
            return None
        # fancy indexing by an index array
        return _length(sl, L)
    if isinstance(e, ast.Call):
        fn = call_name(e)
        if fn in ("np.concatenate", "numpy.concatenate") and e.args and isinstance(e.args[0], (ast.Tuple, ast.List)):
            tot = Affine()
            for x in e.args[0].elts:
                l = _length(x, L)
                if l is None:
                    return None
                tot = tot + l
            return tot
        if isinstance(e.func, ast.Attribute) and e.func.attr in ("astype", "copy"):
            return _length(e.func.value, L)
        if fn in ("np.asarray", "np.array"):
            return _length(e.args[0], L)
    return None


def _expanded(prog, fi):
    """process() with its private helper methods expanded (the chunk bookkeeping may live in extracted helpers); _new_turns and
    the other rule anchors stay calls"""
    from ..inline import inlined
    return inlined(prog, fi, skip=("_new_turns", "_new_turns_multiple_assessment_points", "_flush_new_turns", "_preserve_start"))


def _r4_lengths(ctx, prog, dets):
    ctx.rule("R-C01-4", floor=6, what="value array = index array + provisional last sample (lengths, inductive)")
    dets = [(ci, _expanded(prog, fi)) for ci, fi in dets]
    for ci, fi in dets:
        ks = [s for s in walk_function(fi.node) if isinstance(s, ast.Assign) and isinstance(s.value, ast.Call)
              and (call_name(s.value) or "").endswith("point_loop")]
        if not ks:
            continue
        ks = ks[0]
        cfg = CFG(fi.node)
        env = inline_env(cfg, ks)
        env.pop("__ambiguous__")
        vals = subst_names(ks.value.args[0], env)
        idxs = subst_names(ks.value.args[1], env)
        # split on the residual selection (IfExp): two cases
        ifexps = [n for n in ast.walk(vals) if isinstance(n, ast.IfExp)]
        if len({norm_text(n) for n in ifexps}) != 1:
            raise AnalysisError("%s: residual selection not found in the kernel's value argument" % fi.key)
        sel = ifexps[0]
        test = _canon(sel.test)
        first_call = "len(self._residuals) == 0" in test
        if not first_call:
            raise AnalysisError("%s: residual selection condition %s not understood" % (fi.key, test))

        def mk(case):
            def L(e):
                if isinstance(e, ast.IfExp) and norm_text(e) == norm_text(sel):
                    return _length(e.body if case == "first" else e.orelse, L)
                if is_self_attr(e, "_residuals"):
                    return Affine(const=0) if case == "first" else Affine({"R": 1})
                if is_self_attr(e, "_residual_index"):
                    # invariant: constructor gives length 1 with no residuals; afterwards R-1
                    return Affine(const=1) if case == "first" else Affine({"R": 1}, -1)
                if isinstance(e, ast.Subscript) and isinstance(e.value, ast.Call) and isinstance(e.value.func, ast.Attribute) \
                        and e.value.func.attr == "_new_turns" and not isinstance(e.slice, ast.Slice):
                    return Affine({"T": 1})
                if isinstance(e, ast.Name):
                    return Affine({"len(%s)" % e.id: 1})
                return None
            return L
        for case in ("first", "later"):
            L = mk(case)
            lv, li = _length(vals, L), _length(idxs, L)
            if lv is None or li is None:
                raise AnalysisError("%s: lengths of the kernel arguments not derivable" % fi.key)
            if lv - li == Affine(const=1):
                ctx.holds(fi, ks, "%s call: len(values) = len(indices) + 1" % case, {"values": repr(lv), "indices": repr(li)})
            else:
                ctx.violated(fi, ks, "%s call: value array has length %s but index array %s; the kernel needs exactly one "
                             "more value (the provisional last sample) than indices" % (case, lv, li),
                             text="%s lengths" % case)
        # stores re-establish the invariant
        res_name = ks.targets[0].elts[-1].id if isinstance(ks.targets[0], ast.Tuple) else None
        if res_name is None and isinstance(ks.targets[0], ast.Name):
            # the kernel's result tuple is kept in one local and unpacked later
            for s_ in walk_function(fi.node):
                if isinstance(s_, ast.Assign) and isinstance(s_.value, ast.Name) and s_.value.id == ks.targets[0].id and \
                        isinstance(s_.targets[0], ast.Tuple) and isinstance(s_.targets[0].elts[-1], ast.Name):
                    res_name = s_.targets[0].elts[-1].id
        sv = [s for s in walk_function(fi.node) if isinstance(s, ast.Assign) and any(is_self_attr(t, "_residuals") for t in s.targets)]
        si = [s for s in walk_function(fi.node) if isinstance(s, ast.Assign) and any(is_self_attr(t, "_residual_index") for t in s.targets)]
        if not sv or not si or res_name is None:
            raise AnalysisError("%s: residual stores not found" % fi.key)

        def L2(e):
            if isinstance(e, ast.Name) and e.id == res_name:
                return Affine({"K": 1})
            return None
        a, b = _length(sv[-1].value, L2), _length(si[-1].value, L2)
        if a is None or b is None:
            raise AnalysisError("%s: lengths of the stored residual arrays not derivable" % fi.key)
        if a - b == Affine(const=1):
            ctx.holds(fi, si[-1], "stored residual index is one shorter than the stored residuals (invariant re-established)")
        else:
            ctx.violated(fi, si[-1], "stored residual values have length %s and indices %s: the invariant "
                         "len(index) = len(values) - 1 is broken for the next chunk" % (a, b))


# ----------------------------------------------------------------------------- R-C01-5

def _r5_bracket(ctx, prog):
    ctx.rule("R-C01-5", floor=1, what="chunk look-up realises the bracket [cum_k, cum_k+1)")
    fi = prog.func(GEN + ":AbstractRecorder.chunk_local_index")
    g = [p for p in fi.params if p != "self"][0]
    cfg = CFG(fi.node)
    ret = [s for s in walk_function(fi.node) if isinstance(s, ast.Return)][-1]
    env = inline_env(cfg, ret)
    env.pop("__ambiguous__")
    R = subst_names(ret.value, env)
    if not (isinstance(R, ast.Tuple) and len(R.elts) == 2):
        raise AnalysisError("chunk_local_index does not return a pair")
    knum, local = R.elts
    ss = [c for c in calls_in(knum) if call_name(c) in ("np.searchsorted", "numpy.searchsorted")]
    if len(ss) != 1:
        raise AnalysisError("chunk_local_index: expected one searchsorted")
    c = ss[0]
    arr, v = c.args[0], c.args[1]
    side = const_value(kwarg(c, "side", 2)) if kwarg(c, "side", 2) is not None else "left"
    vshift = affine_eval(v, lambda e: "G" if isinstance(e, ast.Name) and e.id == g else None)
    kaff = affine_eval(knum, lambda e: "P" if e is c else None)
    if vshift is None or kaff is None or vshift.terms != {"G": 1} or kaff.terms != {"P": 1}:
        raise AnalysisError("chunk_local_index: search key / result not affine")
    cshift, d = vshift.const, kaff.const
    if side == "right":
        lo, hi = -cshift, -cshift
    else:
        lo, hi = -cshift + 1, -cshift + 1
    # bracket: g >= a[k - d - 1] + lo ; g < a[k - d] + hi   (integers)
    ok_bracket = (d == -1 and lo == 0 and hi == 0)
    # the searched array must be [0, cumsum(chunks)]
    at = norm_text(arr)
    ok_arr = isinstance(arr, ast.Call) and call_name(arr) == "np.insert" and len(arr.args) == 3 and \
        isinstance(arr.args[0], ast.Call) and call_name(arr.args[0]) == "np.cumsum" and \
        is_self_attr(arr.args[0].args[0], "_chunks") and const_value(arr.args[1]) == 0 and const_value(arr.args[2]) == 0
    if not ok_arr and isinstance(arr, ast.Call) and call_name(arr) in ("np.concatenate", "np.hstack") and len(arr.args) == 1 and \
            isinstance(arr.args[0], (ast.Tuple, ast.List)) and len(arr.args[0].elts) == 2:
        # second accepted idiom: np.concatenate(([0], np.cumsum(chunks)))
        z_, cs_ = arr.args[0].elts
        ok_arr = isinstance(z_, (ast.List, ast.Tuple)) and [const_value(x_) for x_ in z_.elts] == [0] and \
            isinstance(cs_, ast.Call) and call_name(cs_) == "np.cumsum" and cs_.args and is_self_attr(cs_.args[0], "_chunks")
    if not ok_arr:
        alt = isinstance(arr, ast.Call) and call_name(arr) in ("np.concatenate", "np.append", "np.r_")
        ctx.violated(fi, ret, "chunk limits %s are not [0, cumsum(chunks)...]" % at) if not alt else None
        if alt:
            raise AnalysisError("chunk_local_index: chunk-limit construction %s not modelled" % at)
        return
    # local index = g - limits[k]
    sub = isinstance(local, ast.BinOp) and isinstance(local.op, ast.Sub) and isinstance(local.left, ast.Name) and \
        local.left.id == g and isinstance(local.right, ast.Subscript) and norm_text(local.right.value) == at and \
        norm_text(local.right.slice) == norm_text(knum)
    if not ok_bracket:
        ctx.violated(fi, ret, "chunk number satisfies limits[k%+d] %s g %s limits[k%+d]: a sample on a chunk border is "
                     "attributed to the wrong chunk (needed: limits[k] <= g < limits[k+1])" %
                     (-d - 1, "<=" if lo == 0 else "<", "<" if hi == 0 else "<=", -d))
    elif not sub:
        ctx.violated(fi, ret, "chunk-local index is %s, not global index minus the start of its chunk" % norm_text(local))
    else:
        ctx.holds(fi, ret, "searchsorted(side=%r)%+d on [0, cumsum(chunks)] gives limits[k] <= g < limits[k+1]; local = g - limits[k]"
                  % (side, int(d)))


# ----------------------------------------------------------------------------- R-C01-6

def _facts(prog, fi):
    """What a kernel-based process() does, as symbolic terms (helper methods followed, _new_turns and the kernel opaque):
    the two arrays handed to the kernel, the recorder calls in order, the detector state afterwards - with every occurrence
    of the kernel call replaced by KERNEL, so that the three- and four-point versions can be compared."""
    from ..absint import Interp, TermDomain, Seq, term_walk
    it = Interp(prog, TermDomain(), follow=lambda c: c.name not in ("_new_turns", "find_turns") and not c.name.endswith("point_loop"),
                max_depth=4)
    params = [p for p in fi.params if p != "self"]
    it.run(fi, [("p", q) for q in params])
    kernels = []
    pool = [v for v, st in it.exits] + [x for v, st in it.exits for x in st.values()] + list(it.effects)
    for t in pool:
        for z in term_walk(t):
            if isinstance(z, tuple) and z[:1] == ("call",) and isinstance(z[1], str) and z[1].endswith("point_loop") and z not in kernels:
                kernels.append(z)
    if len(kernels) != 1:
        raise AnalysisError("%s: kernel call not found in the symbolic execution (%d candidates)" % (fi.key, len(kernels)))
    k = kernels[0]

    def canon(t):
        if t == k:
            return "KERNEL"
        if isinstance(t, Seq):
            return Seq(canon(x) for x in t)
        if isinstance(t, tuple):
            return tuple(canon(x) for x in t)
        return t
    facts = {"kernel values": repr(canon(k[2][0]))[:4000], "kernel indices": repr(canon(k[2][1]))[:4000] if len(k[2]) > 1 else ""}
    calls = [e for e in it.effects if isinstance(e, tuple) and e[:1] == ("m",) and e[1] == ("self", "_recorder")]
    facts["recorder calls"] = repr([canon(("m", e[2], e[3], e[4])) for e in calls])[:4000]
    final = [st for v, st in it.exits if st]
    for attr in ("self._residuals", "self._residual_index"):
        vals = {repr(canon(st.get(attr)))[:4000] for st in final}
        facts["state " + attr] = " | ".join(sorted(vals))
    ks = [s_ for s_ in walk_function(fi.node) if isinstance(s_, ast.Assign) and isinstance(s_.value, ast.Call)
          and (call_name(s_.value) or "").endswith("point_loop")]
    return facts, (ks[0] if ks else fi.node)


def _r6_siblings(ctx, prog, dets):
    ctx.rule("R-C01-6", floor=5, what="three-/four-point process agree up to the kernel call (closed forms)")
    sib = [(ci, fi) for ci, fi in dets if any((call_name(c) or "").endswith("point_loop") for c in calls_in(fi.node))]
    if len(sib) != 2:
        raise AnalysisError("expected two kernel-based detectors, found %d" % len(sib))
    (c1, f1), (c2, f2) = sib
    a, k1 = _facts(prog, f1)
    b, k2 = _facts(prog, f2)
    for key in sorted(set(a) | set(b)):
        if a.get(key) == b.get(key):
            ctx.holds(f2, k2, "siblings agree on %s" % key, {"form": (a.get(key) or "")[:160]})
        else:
            ctx.violated(f2, k2, "%s and %s disagree on %s: %s  vs  %s" %
                         (c1.name, c2.name, key, a.get(key), b.get(key)), text="sibling %s" % key)


# =========================================================================== variants

GP = "src/pylife/stress/rainflow/general.py"
FP = "src/pylife/stress/rainflow/fourpoint.py"
TP = "src/pylife/stress/rainflow/threepoint.py"
FK = "src/pylife/stress/rainflow/fkm.py"
FN = "src/pylife/stress/rainflow/fkm_nonlinear.py"


def variants():
    out = []

    def _first_if(f):
        for i, st in enumerate(f.body):
            if isinstance(st, ast.If) and st.body and isinstance(st.body[-1], ast.Return):
                return i, st
        return None, None

    def standstill_exit(tree):
        f = find_func(tree, "AbstractDetector._new_turns")
        i, st = _first_if(f)
        if st is None:
            return False
        p = f.args.args[1].arg
        f.body.insert(i + 1, parse_stmt("if len(self._sample_tail) > 0 and np.all(np.asarray(%s) == self._sample_tail[-1]):\n    return np.array([]), np.array([])" % p))
        return True
    out.append(witness("chunk that repeats the last sample is skipped without head update", GP, standstill_exit, "R-C01-2"))

    def short_exit(tree):
        f = find_func(tree, "AbstractDetector._new_turns")
        i, st = _first_if(f)
        if st is None or not isinstance(st.test, ast.Compare):
            return False
        st.test.ops = [ast.LtE()]
        st.test.comparators = [ast.Constant(1)]
        return True
    out.append(witness("one-sample chunks skipped like empty ones", GP, short_exit, "R-C01-2"))

    def empty_by_size(tree):
        f = find_func(tree, "AbstractDetector._new_turns")
        i, st = _first_if(f)
        if st is None:
            return False
        p = f.args.args[1].arg
        st.test = parse_expr("not len(%s)" % p)
        return True
    out.append(twin("empty chunk tested by `not len(chunk)`", GP, empty_by_size))

    def tail_view_of_chunk(tree):
        f = find_func(tree, "AbstractDetector._new_turns")
        for i, st in enumerate(f.body):
            if isinstance(st, ast.Assign) and isinstance(st.value, ast.Call) and call_name(st.value) == "np.concatenate" and \
                    isinstance(st.targets[0], ast.Name):
                t = st.targets[0].id
                f.body[i] = parse_stmt("if len(self._sample_tail) > 0:\n    %s\nelse:\n    %s = np.asarray(samples, dtype=np.float64)"
                                       % (ast.unparse(st), t))
                return True
        return False
    out.append(witness("first chunk not copied: the carried tail is a view of the caller's array", GP, tail_view_of_chunk, "R-C01-7"))

    def stale_chunk_limits(tree):
        f = find_func(tree, "AbstractRecorder.chunk_local_index")
        for i, st in enumerate(f.body):
            if isinstance(st, ast.Assign) and "cumsum" in ast.unparse(st.value) and isinstance(st.targets[0], ast.Name):
                t = st.targets[0].id
                f.body[i:i + 1] = [parse_stmt("if self._limits is None:\n    self._limits = %s" % ast.unparse(st.value)),
                                   parse_stmt("%s = self._limits" % t)]
                g = find_func(tree, "AbstractRecorder.__init__")
                g.body.append(parse_stmt("self._limits = None"))
                return True
        return False
    out.append(witness("chunk limits cached and never invalidated", GP, stale_chunk_limits, "R-C01-7"))

    def tail_last_two(tree):
        f = find_func(tree, "AbstractDetector._new_turns")
        for i, st in enumerate(f.body):
            if isinstance(st, ast.Assign) and is_self_attr(st.targets[0], "_sample_tail"):
                lo = st.value.slice.lower
                arr = ast.unparse(st.value.value)
                f.body.insert(i, parse_stmt("%s = max(%s, len(%s) - 2)" % (ast.unparse(lo), ast.unparse(lo), arr)))
                return True
        return False
    out.append(witness("sample tail truncated to the last two samples", GP, tail_last_two, "R-C01-2"))

    def shortcut_no_turn(tree):
        f = find_func(tree, "FourPointDetector.process")
        for i, st in enumerate(f.body):
            if isinstance(st, ast.Assign) and any(isinstance(c.func, ast.Attribute) and c.func.attr == "_new_turns" for c in calls_in(st)):
                tv = st.targets[0].elts[1].id
                f.body.insert(i + 1, parse_stmt("if %s.size == 0 and self._residuals.size > 0:\n"
                                                "    self._recorder.report_chunk(len(samples))\n    return self" % tv))
                return True
        return False
    out.append(witness("four-point process returns early when the chunk decides no turn", FP, shortcut_no_turn, "R-C01-1"))

    def drop_store(attr):
        def e(tree):
            f = find_func(tree, "FKMDetector.process")
            for s in ast.walk(f):
                if isinstance(s, ast.Assign) and is_self_attr(s.targets[0], attr):
                    return replace_node(s, ast.Pass())
            return False
        return e
    out.append(witness("FKM detector forgets self._max_turn", FK, drop_store("_max_turn"), "R-C01-1"))
    out.append(witness("FKM detector forgets self._ir", FK, drop_store("_ir"), "R-C01-1"))

    def store_before_redef(tree):
        f = find_func(tree, "FKMDetector.process")
        loop = [s for s in f.body if isinstance(s, ast.For)][0]
        st = [s for s in loop.body if isinstance(s, ast.Assign) and is_self_attr(s.targets[0], "_max_turn")][0]
        rd = [s for s in loop.body if isinstance(s, ast.Assign) and isinstance(s.targets[0], ast.Name)
              and s.targets[0].id == "max_turn"][0]
        loop.body.remove(st)
        loop.body.insert(loop.body.index(rd), st)
        return True
    out.append(witness("store before the redefinition", FK, store_before_redef, "R-C01-1"))

    def swap_returned(tree):
        f = find_func(tree, "FKMNonlinearDetector.process")
        for s in ast.walk(f):
            if isinstance(s, ast.Assign) and isinstance(s.targets[0], ast.Tuple) and isinstance(s.value, ast.Call) and \
                    isinstance(s.value.func, ast.Attribute) and s.value.func.attr == "_perform_hcm_algorithm":
                e = s.targets[0].elts
                e[1], e[2] = e[2], e[1]
                return True
        return False
    out.append(witness("iz/ir swapped when taking the state back", FN, swap_returned, "R-C01-1"))

    def cond_store(tree):
        f = find_func(tree, "FourPointDetector.process")
        for i, s in enumerate(f.body):
            if isinstance(s, ast.Assign) and is_self_attr(s.targets[0], "_residual_index"):
                f.body[i] = ast.If(test=parse_expr("len(from_vals) > 0"), body=[s], orelse=[])
                return True
        return False
    out.append(witness("residual index stored only when cycles closed", FP, cond_store, "R-C01-1"))

    def offset_after(tree):
        f = find_func(tree, "AbstractDetector._new_turns")
        off = [s for s in f.body if isinstance(s, ast.AugAssign) and isinstance(s.target, ast.Name)][0]
        hs = [s for s in f.body if isinstance(s, ast.AugAssign) and is_self_attr(s.target, "_head_index")][0]
        f.body.remove(off)
        f.body.insert(f.body.index(hs) + 1, off)
        return True
    out.append(witness("offset computed after head index update", GP, offset_after, "R-C01-2"))

    def head_by_turns(tree):
        f = find_func(tree, "AbstractDetector._new_turns")
        hs = [s for s in f.body if isinstance(s, ast.AugAssign) and is_self_attr(s.target, "_head_index")][0]
        hs.value = parse_expr("len(samples_with_last_tail)")
        return True
    out.append(witness("head advanced by len(tail+chunk)", GP, head_by_turns, "R-C01-2"))

    def head_twice(tree):
        f = find_func(tree, "AbstractDetector._new_turns")
        for s in f.body:
            if isinstance(s, ast.If) and "flush" in norm_text(s.test):
                s.body.append(parse_stmt("self._head_index += 0"))
                return True
        return False
    out.append(witness("second head store on the flush path", GP, head_twice, "R-C01-2"))

    def tail_other(tree):
        f = find_func(tree, "AbstractDetector._new_turns")
        ts = [s for s in f.body if isinstance(s, ast.Assign) and is_self_attr(s.targets[0], "_sample_tail")][0]
        ts.value.value = ast.Name(id="samples", ctx=ast.Load())
        return True
    out.append(witness("tail cut from the chunk instead of tail+chunk", GP, tail_other, "R-C01-2"))

    def tail_after_shift(tree):
        f = find_func(tree, "AbstractDetector._new_turns")
        d = [s for s in f.body if isinstance(s, ast.Assign) and isinstance(s.targets[0], ast.Name)
             and s.targets[0].id == "sample_tail_index"][0]
        off = [s for s in f.body if isinstance(s, ast.AugAssign) and isinstance(s.target, ast.Name)][0]
        f.body.remove(d)
        f.body.insert(f.body.index(off) + 1, d)
        return True
    out.append(witness("tail start read after globalisation", GP, tail_after_shift, "R-C01-2"))

    def flush_idx(tree):
        f = find_func(tree, "AbstractDetector._flush_new_turns")
        for n in ast.walk(f):
            if isinstance(n, ast.BinOp) and is_self_attr(n.left, "_head_index"):
                return replace_node(n, n.left)
        return False
    out.append(witness("flush appends head_index", GP, flush_idx, "R-C01-2"))

    def report_turns(tree):
        f = find_func(tree, "FourPointDetector.process")
        for c in calls_in(f, attr="report_chunk"):
            c.args[0] = parse_expr("len(turns_np)")
            return True
        return False
    out.append(witness("report_chunk(len(turns))", FP, report_turns, "R-C01-3"))

    def report_dropped(tree):
        f = find_func(tree, "ThreePointDetector.process")
        for s in f.body:
            if isinstance(s, ast.Expr) and isinstance(s.value, ast.Call) and s.value.func.attr == "report_chunk":
                return replace_node(s, ast.If(test=parse_expr("len(from_vals) > 0"), body=[s], orelse=[]))
        return False
    out.append(witness("report_chunk only when cycles closed", TP, report_dropped, "R-C01-3"))

    def drop_slice(tree):
        f = find_func(tree, "FourPointDetector.process")
        for s in f.body:
            if isinstance(s, ast.Assign) and is_self_attr(s.targets[0], "_residual_index"):
                s.value.slice = s.value.slice.value
                return True
        return False
    out.append(witness("[:-1] dropped when storing the residual index", FP, drop_slice, "R-C01-4"))

    def residual_all(tree):
        f = find_func(tree, "ThreePointDetector.process")
        for s in ast.walk(f):
            if isinstance(s, ast.Assign) and isinstance(s.targets[0], ast.Name) and s.targets[0].id == "residuals" and \
                    isinstance(s.value, ast.Subscript) and is_self_attr(s.value.value, "_residuals"):
                s.value = s.value.value
                return True
        return False
    out.append(witness("all residuals (incl. provisional last) handed to the kernel", TP, residual_all, "R-C01-4"))

    def side_left(tree):
        f = find_func(tree, "AbstractRecorder.chunk_local_index")
        for c in calls_in(f, name="np.searchsorted"):
            c.keywords = [k for k in c.keywords if k.arg != "side"]
            return True
        return False
    out.append(witness("searchsorted side='left'", GP, side_left, "R-C01-5"))

    def no_minus(tree):
        f = find_func(tree, "AbstractRecorder.chunk_local_index")
        for s in f.body:
            if isinstance(s, ast.Assign) and isinstance(s.value, ast.BinOp):
                s.value = s.value.left
                return True
        return False
    out.append(witness("missing -1 on the chunk number", GP, no_minus, "R-C01-5"))

    def four_no_asarray_idx(tree):
        f = find_func(tree, "FourPointDetector.process")
        for s in f.body:
            if isinstance(s, ast.Assign) and isinstance(s.targets[0], ast.Name) and s.targets[0].id == "turns_np":
                s.value.args[0].elts[2] = parse_expr("samples[-2:]")
                return True
        return False
    out.append(witness("four-point appends two provisional samples", FP, four_no_asarray_idx, "R-C01-6"))

    def three_record_swapped(tree):
        f = find_func(tree, "ThreePointDetector.process")
        for c in calls_in(f, attr="record_index"):
            c.args[0], c.args[1] = c.args[1], c.args[0]
            return True
        return False
    out.append(witness("three-point records (to, from) indices", TP, three_record_swapped, "R-C01-6"))

    # twins
    def equiv_search(tree):
        f = find_func(tree, "AbstractRecorder.chunk_local_index")
        for s in f.body:
            if isinstance(s, ast.Assign) and isinstance(s.value, ast.BinOp):
                s.value = parse_expr("np.searchsorted(chunk_index, global_index + 1, side='left') - 1")
                return True
        return False
    out.append(twin("searchsorted(cum, g+1, 'left') - 1", GP, equiv_search))

    def head_assign(tree):
        f = find_func(tree, "AbstractDetector._new_turns")
        hs = [s for s in f.body if isinstance(s, ast.AugAssign) and is_self_attr(s.target, "_head_index")][0]
        return replace_node(hs, parse_stmt("self._head_index = len(samples) + self._head_index"))
    out.append(twin("head = len(samples) + head", GP, head_assign))

    def ifexp_to_if(tree):
        f = find_func(tree, "FourPointDetector.process")
        for i, s in enumerate(f.body):
            if isinstance(s, ast.Assign) and isinstance(s.value, ast.IfExp):
                new = ast.parse("if len(self._residuals) == 0:\n    residuals = samples[:1]\nelse:\n    residuals = self._residuals[:-1]").body[0]
                f.body[i] = new
                return True
        return False
    out.append(twin("IfExp written as if/else (four-point)", FP, ifexp_to_if))

    def rename(tree):
        f = find_func(tree, "ThreePointDetector.process")
        for n in ast.walk(f):
            if isinstance(n, ast.Name) and n.id == "turns":
                n.id = "tv"
        return True
    out.append(twin("rename value array", TP, rename))

    def fkm_store_end(tree):
        # move the two stores behind the loop: still on every path
        f = find_func(tree, "FKMDetector.process")
        loop = [s for s in f.body if isinstance(s, ast.For)][0]
        st = [s for s in loop.body if isinstance(s, ast.Assign) and is_self_attr(s.targets[0])]
        for s in st:
            loop.body.remove(s)
        idx = f.body.index(loop)
        f.body[idx + 1:idx + 1] = st
        return True
    out.append(twin("FKM stores moved behind the loop", FK, fkm_store_end))
    return out
