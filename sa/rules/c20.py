"""C20 — VMAP export/import agreement (structural clauses).

R-C20-1 schema agreement (paths, datasets, attributes, compound fields, enum
codes, column widths) between what the exporter writes and what the importer
reads, extracted by an abstract interpretation of HDF5 paths over both classes;
R-C20-2 roll-back blocks; R-C20-3 identifier narrowing; R-C20-4 read-only import.
"""
from __future__ import annotations

import ast

from ..astutil import (call_name, calls_in, const_value, dotted, find_func, is_self_attr, kwarg, names_in,
                       parse_expr, parse_stmt, replace_node)
from ..cfg import CFG
from ..frontend import AnalysisError, walk_function, walk_stmts
from ..report import norm_text
from ..witness import witness, twin

LEVEL = "other"
EXP = "pylife.vmap.vmap_export"
IMP = "pylife.vmap.vmap_import"
EXP_PATH = "src/pylife/vmap/vmap_export.py"
IMP_PATH = "src/pylife/vmap/vmap_import.py"
EXPLANATION = (
    "Static reader/writer agreement for the VMAP round trip. An abstract interpretation of HDF5 object paths (components, "
    "'*' for run-time names; interprocedural over the private helpers with call-site bindings) extracts from VMAPExport "
    "every group, dataset, attribute, compound field, enum code and column list it writes, and from VMAPImport everything "
    "it reads. R-C20-1: every key the importer reads is written by the exporter at a matching path; set-type codes and "
    "variable-location codes agree between the two classes and with the VariableLocations enum; literal column lists of a "
    "dataset agree in names/order/width between all writer sites and the reader. R-C20-2: every entity-creating block of "
    "the exporter lies in a try whose Exception handler deletes parent[name] with the same parent and name as the creation "
    "and re-raises, and size counters are committed after the last creating call. R-C20-3: identifier data written with a "
    "fixed narrower integer type is range-guarded. R-C20-4: the importer opens the file read-only and reaches no write "
    "call. Not decided: equality of values after a real round trip.")
EXPLANATION += (' R-C20-5: the identifier dataset and the value dataset of a variable are parallel arrays and must come from the same table in the same order class. R-C20-6: a value cached on the importer by a method with arguments must be keyed by them (zero instances expected; a built-in positive example is evaluated on every run).')
EXPLANATION += (" R-C20-7: the index the importer attaches to a variable's values follows that variable's own MYGEOMETRYIDS order (identifier frame on the left of an order-preserving merge); the exporter applies no unit-dependent tolerance (np.allclose/isclose) when it decides about the mesh.")
EXPLANATION += (' R-C20-8: an exporter attribute that a method sets under a data-dependent condition and another method reads (the dimension of the geometry) is assigned on every path of the setting method (CFG must-pass), so no value of an earlier add_* call survives.')
EXPLANATION += (' R-C20-9: a list that collects one array per element (groupby group) is not packed into a rectangular numpy array (mixed element types make it ragged).')
EXPLANATION += (" R-C20-10: a string attribute that the exporter creates from a Python bytes/str value (stored as a variable-length string, returned by h5py as str) is not decoded unconditionally by the importer. R-C20-2 requires the roll-back in every handler of an entity-creating block; R-C20-9 also compares the order classes of a flat array and of the sizes it is split by.")
EXPLANATION += (" R-C20-11: the exporter reduces the repeated rows of the element-nodal frame to one row per node by selection (groupby().first() and the like), never by an arithmetic aggregation (mean of k equal floats is not the float; integer columns become floats). R-C20-12: the importer computes the membership of mesh ids in a stored set without assume_unique=True (the id levels repeat every id). Both have a built-in example that must match on every run.")
EXPLANATION += (" R-C20-13: imported variables are attached to the mesh by a join on the index labels; giving a frame another frame's index by position (set_axis / set_index / .index = other.index) is a violation (built-in example). R-C20-3 also rejects a shortcut in the range-checking function whose condition does not establish a signed type of at most 32 bits.")
EXPLANATION += (" R-C20-14: the groupby over the element id that produces the element table of the file sorts its keys (elements ordered by id). R-C20-15: add_node_set validates the given ids against the index level 'node_id' and add_element_set against 'element_id' (level literals reaching get_level_values directly or through a helper).")
EXPLANATION += (" R-C20-16: no importer method transposes, reshapes or flattens the MYVALUES array it reads (expected count zero).")
ASSUMPTIONS = [
    "h5py semantics: group[name] addresses a child, create_group/create_dataset create it, attrs is a key/value store",
    "string formatting with %s inserts exactly one path component",
    "h5py returns a variable-length string attribute (created from a Python bytes or str value) as str and a fixed-length one "
    "(numpy bytes_) as bytes",
]

STAR = "*"


def _strpat(e, consts=None):
    """string pattern of an expression: literal text with '*' for unknown parts; None if not string-like."""
    consts = consts or {}
    if isinstance(e, ast.Constant) and isinstance(e.value, str):
        return e.value
    if isinstance(e, ast.Name):
        if e.id in consts and isinstance(consts[e.id], str):
            return consts[e.id]
        return STAR
    if isinstance(e, ast.BinOp) and isinstance(e.op, ast.Mod):
        l = _strpat(e.left, consts)
        if l is None:
            return None
        return l.replace("%s", STAR).replace("%d", STAR)
    if isinstance(e, ast.BinOp) and isinstance(e.op, ast.Add):
        l, r = _strpat(e.left, consts), _strpat(e.right, consts)
        if l is None or r is None:
            return None
        return l + r
    if isinstance(e, ast.JoinedStr):
        out = ""
        for v in e.values:
            out += v.value if isinstance(v, ast.Constant) else STAR
        return out
    if isinstance(e, ast.Call) and call_name(e) in ("str", "str.encode"):
        return STAR
    return None


def _comps(s):
    return tuple(c for c in s.split("/") if c != "")


def match(p, q):
    return len(p) == len(q) and all(a == b or STAR in (a, b) for a, b in zip(p, q))


class H5Model:
    """Abstract interpretation of HDF5 paths over the methods of one class."""

    def __init__(self, prog, ci, root_attr=None):
        self.prog = prog
        self.ci = ci
        self.root_attr = root_attr      # importer: self._file is the root
        self.records = []
        self._seen = set()
        self._memo = {}
        self._stack = []

    def rec(self, kind, path, fi, node, **extra):
        if path is None:
            return
        key = (kind, path, extra.get("key"), id(node))
        if key in self._seen:
            return
        self._seen.add(key)
        d = {"kind": kind, "path": tuple(path), "func": fi, "node": node}
        d.update(extra)
        self.records.append(d)

    # ------------------------------------------------------------ evaluation
    def hp(self, e, env, fi, load=True):
        """h5 path value of expression or None; ('attrs', path) for attribute stores."""
        if isinstance(e, ast.Name):
            return env.get(e.id)
        if self.root_attr and is_self_attr(e, self.root_attr):
            return ()
        if isinstance(e, ast.Attribute):
            if e.attr == "attrs":
                b = self.hp(e.value, env, fi)
                return ("@attrs", b) if b is not None and not _special(b) else None
            return None
        if isinstance(e, ast.Subscript):
            b = self.hp(e.value, env, fi)
            if b is None:
                return None
            if _special(b):
                if b[0] == "@attrs":
                    k = _strpat(e.slice, env.get("@consts"))
                    if isinstance(e.ctx, ast.Load):
                        self.rec("read_attr", b[1], fi, e, key=k)
                    return None
                return None
            sl = e.slice
            if isinstance(sl, ast.Tuple) and sl.elts and all(isinstance(x, ast.Constant) and isinstance(x.value, str)
                                                             for x in sl.elts):
                for x in sl.elts:
                    self.rec("read_field", b, fi, e, key=x.value)
                return b
            s = _strpat(sl, env.get("@consts"))
            if isinstance(sl, (ast.Slice,)) or (isinstance(sl, ast.Tuple) and not sl.elts) or \
                    (isinstance(sl, ast.Tuple) and any(isinstance(x, (ast.Slice, ast.Constant)) and not
                                                       (isinstance(x, ast.Constant) and isinstance(x.value, str))
                                                       for x in sl.elts)) or \
                    (isinstance(sl, ast.Constant) and not isinstance(sl.value, str)):
                return b     # data access on the same object
            if s is None:
                return None
            p = tuple(b) + _comps(s)
            if isinstance(e.ctx, ast.Load):
                self.rec("read_node", p, fi, e)
            return p
        if isinstance(e, ast.Call):
            f = e.func
            if isinstance(f, ast.Attribute):
                b = self.hp(f.value, env, fi)
                if b is not None and not _special(b):
                    if f.attr == "create_group" and e.args:
                        p = tuple(b) + _comps(_strpat(e.args[0], env.get("@consts")) or STAR)
                        self.rec("write_group", p, fi, e)
                        return p
                    if f.attr == "create_dataset" and e.args:
                        p = tuple(b) + _comps(_strpat(e.args[0], env.get("@consts")) or STAR)
                        self.rec("write_dataset", p, fi, e, dtype=kwarg(e, "dtype"), data=kwarg(e, "data"),
                                 env=dict(env))
                        return p
                    if f.attr in ("items", "values"):
                        return ("@iter", b)
                    if f.attr == "keys":
                        self.rec("read_keys", b, fi, e)
                        return None
                if b is not None and _special(b) and b[0] == "@attrs" and f.attr == "create" and e.args:
                    self.rec("write_attr", b[1], fi, e, key=_strpat(e.args[0], env.get("@consts")),
                             value=e.args[1] if len(e.args) > 1 else None, env=dict(env))
                    return None
            # own methods
            for key in self.prog.resolve_call(fi, e):
                callee = self.prog.functions.get(key)
                if callee is None or callee.cls is None:
                    continue
                if callee.cls not in self.prog.mro(self.ci):
                    continue
                return self.call(callee, e, env, fi)
            return None
        return None

    def call(self, callee, call, env, fi):
        params = [p for p in callee.params if p != "self"]
        binding = {}
        consts = {}
        argexprs = {}
        for i, a in enumerate(call.args):
            if isinstance(a, ast.Starred) or i >= len(params):
                continue
            argexprs[params[i]] = a
        for k in call.keywords:
            if k.arg:
                argexprs[k.arg] = k.value
        for p, a in argexprs.items():
            v = self.hp(a, env, fi)
            if v is not None:
                binding[p] = v
            c = const_value(a)
            if c is None and isinstance(a, ast.Name):
                c = (env.get("@consts") or {}).get(a.id)
            if c is not None:
                consts[p] = c
        # *args style: VMAPAttribute(...) arguments after the named parameters
        extra = [a for a in call.args[len([p for p in params if p not in (callee.node.args.vararg.arg if
                                                                          callee.node.args.vararg else None,)]):]]
        mkey = (callee.key, tuple(sorted((k, v) for k, v in binding.items())), tuple(sorted(consts.items())))
        if callee.key in self._stack or len(self._stack) > 6:
            return None
        self._stack.append(callee.key)
        try:
            env2 = dict(binding)
            env2["@consts"] = consts
            env2["@varargs"] = [a for a in call.args if isinstance(a, ast.Call) and
                                call_name(a) == "VMAPAttribute"]
            env2["@caller_env"] = env
            env2["@caller_fi"] = fi
            ret = self.run_function(callee, env2)
        finally:
            self._stack.pop()
        return ret

    def run_function(self, fi, env):
        ret = None
        for s in walk_stmts(fi.node.body):
            r = self.stmt(s, env, fi)
            if r is not None:
                ret = r
        return ret

    def stmt(self, s, env, fi):
        if isinstance(s, (ast.With, ast.AsyncWith)):
            for it in s.items:
                c = it.context_expr
                if isinstance(c, ast.Call) and call_name(c) in ("h5py.File",):
                    mode = c.args[1] if len(c.args) > 1 else kwarg(c, "mode")
                    self.rec("open", (), fi, c, key=const_value(mode) if mode is not None else "r")
                    if isinstance(it.optional_vars, ast.Name):
                        env[it.optional_vars.id] = ()
            return None
        if isinstance(s, ast.Assign):
            v = self.hp(s.value, env, fi)
            consts = env.setdefault("@consts", {})
            for t in s.targets:
                if isinstance(t, ast.Name):
                    if v is not None and not _special(v):
                        env[t.id] = v
                    else:
                        env.pop(t.id, None)
                    c = const_value(s.value)
                    if c is not None:
                        consts[t.id] = c
                    elif isinstance(s.value, ast.IfExp):
                        consts[t.id] = ("@ifexp", s.value)
                    else:
                        consts.pop(t.id, None)
                    if isinstance(s.value, ast.Call) and call_name(s.value) in ("np.dtype", "numpy.dtype"):
                        env["@dtype:" + t.id] = s.value
                elif isinstance(t, ast.Subscript):
                    b = self.hp(t.value, env, fi)
                    if b is not None and _special(b) and b[0] == "@attrs":
                        self.rec("write_attr", b[1], fi, s, key=_strpat(t.slice, consts), value=s.value, env=dict(env))
                    elif b is not None and not _special(b):
                        self.rec("write_item", b, fi, s)
                elif is_self_attr(t) and self.root_attr and t.attr == self.root_attr:
                    c = s.value
                    if isinstance(c, ast.Call) and call_name(c) == "h5py.File":
                        mode = c.args[1] if len(c.args) > 1 else kwarg(c, "mode")
                        self.rec("open", (), fi, c, key=const_value(mode) if mode is not None else "r")
            # visit nested expressions for reads
            self._visit_expr(s.value, env, fi)
            return None
        if isinstance(s, ast.Delete):
            for t in s.targets:
                if isinstance(t, ast.Subscript):
                    b = self.hp(t.value, env, fi)
                    if b is not None and not _special(b):
                        self.rec("delete", b, fi, s, key=norm_text(t.slice))
            return None
        if isinstance(s, ast.Return):
            if s.value is not None:
                v = self.hp(s.value, env, fi)
                self._visit_expr(s.value, env, fi)
                return v if v is not None and not _special(v) else None
            return None
        if isinstance(s, (ast.For, ast.AsyncFor)):
            v = self.hp(s.iter, env, fi)
            self._bind_iter(s.target, v, env)
            return None
        if isinstance(s, ast.Expr):
            self.hp(s.value, env, fi)
            self._visit_expr(s.value, env, fi)
            return None
        if isinstance(s, (ast.If, ast.While)):
            self._visit_expr(s.test, env, fi)
            return None
        if isinstance(s, ast.Raise) and s.exc is not None:
            self._visit_expr(s.exc, env, fi)
        return None

    def _bind_iter(self, target, v, env):
        if v is not None and _special(v) and v[0] == "@iter":
            child = tuple(v[1]) + (STAR,)
            if isinstance(target, ast.Tuple) and len(target.elts) == 2 and isinstance(target.elts[1], ast.Name):
                env[target.elts[1].id] = child
            elif isinstance(target, ast.Name):
                env[target.id] = child

    def _visit_expr(self, e, env, fi):
        if e is None:
            return
        for n in ast.walk(e):
            if isinstance(n, (ast.DictComp, ast.ListComp, ast.SetComp, ast.GeneratorExp)):
                env2 = dict(env)
                for g in n.generators:
                    v = self.hp(g.iter, env2, fi)
                    self._bind_iter(g.target, v, env2)
                    for cond in g.ifs:
                        self._visit_plain(cond, env2, fi)
                for part in ([n.key, n.value] if isinstance(n, ast.DictComp) else [n.elt]):
                    self._visit_plain(part, env2, fi)
        self._visit_plain(e, env, fi)

    def _visit_plain(self, e, env, fi):
        for n in ast.walk(e):
            if isinstance(n, (ast.Subscript, ast.Call)):
                self.hp(n, env, fi)
            if isinstance(n, ast.Compare):
                # attrs[...] == const  comparisons (enum codes on the reader side)
                l = n.left
                if isinstance(l, ast.Subscript):
                    b = self.hp(l.value, env, fi)
                    if b is not None and _special(b) and b[0] == "@attrs":
                        self.rec("compare_attr", b[1], fi, n, key=_strpat(l.slice), other=n.comparators[0],
                                 env=dict(env))

    def analyse_entries(self):
        for name, defs in self.ci.methods.items():
            fi = defs[-1]
            if name.startswith("_") and name != "__init__":
                continue
            self._stack = [fi.key]
            self.run_function(fi, {"@consts": {}})
        return self


def _special(v):
    return isinstance(v, tuple) and len(v) > 0 and isinstance(v[0], str) and v[0].startswith("@")


# ------------------------------------------------------------------------------- rules

def _vmap_attr_writes(model, prog):
    """attributes written through _create_group_with_attributes(parent, name, VMAPAttribute(k, v), ...)"""
    out = []
    for fi in [d[-1] for d in model.ci.methods.values()]:
        pass
    return out


def _check_element_order(ctx, prog, exp_ci):
    """R-C20-14: 'elements ordered by id' - the element table of the file is written group by group of a groupby over the element
    id, and the importer keeps the file order.  The groupby has to sort its keys (the default); sort=False writes the elements in
    the order of their first row in the caller's frame."""
    ctx.rule("R-C20-14", floor=1, what="the groupby over the element id that produces the element table sorts its keys")
    n = 0
    for name, defs in sorted(exp_ci.methods.items()):
        fi = defs[-1]
        for c in ast.walk(fi.node):
            if isinstance(c, ast.Call) and isinstance(c.func, ast.Attribute) and c.func.attr == "groupby" and \
                    any("element_id" in norm_text(a) for a in list(c.args) + [k.value for k in c.keywords if k.arg in ("by", "level")]):
                n += 1
                srt = next((k.value for k in c.keywords if k.arg == "sort"), None)
                if srt is not None and const_value(srt) is not True:
                    ctx.violated(fi, c, "%s groups the mesh by element id with sort=%s: the elements are written in the order of their "
                                 "first appearance in the frame, not ordered by id; the importer keeps the file order" % (name, norm_text(srt)),
                                 text="unsorted element groupby in " + name)
                else:
                    ctx.holds(fi, c, "%s: groupby over the element id sorts its keys" % name)
    if n == 0:
        raise AnalysisError("no groupby over the element id found in the exporter")


def _table_driven_level(fi, e):
    """the level name when it comes out of a module-level literal table: `level, what = _TABLE[<constant key>]` -> the string"""
    mod = fi.module.tree

    def mconst(n):
        if isinstance(n, ast.Constant):
            return n.value
        if isinstance(n, ast.Name):
            for st in mod.body:
                if isinstance(st, ast.Assign) and len(st.targets) == 1 and isinstance(st.targets[0], ast.Name) and st.targets[0].id == n.id and \
                        isinstance(st.value, ast.Constant):
                    return st.value.value
        return None
    if not isinstance(e, ast.Name):
        return None
    for st in walk_function(fi.node):
        if isinstance(st, ast.Assign) and len(st.targets) == 1:
            t, v, pos = st.targets[0], st.value, None
            if isinstance(t, ast.Tuple):
                for i, x in enumerate(t.elts):
                    if isinstance(x, ast.Name) and x.id == e.id:
                        pos = i
            elif isinstance(t, ast.Name) and t.id == e.id:
                pos = -1
            if pos is None or not (isinstance(v, ast.Subscript) and isinstance(v.value, ast.Name)):
                continue
            key = mconst(v.slice)
            for ms in mod.body:
                if isinstance(ms, ast.Assign) and len(ms.targets) == 1 and isinstance(ms.targets[0], ast.Name) and \
                        ms.targets[0].id == v.value.id and isinstance(ms.value, ast.Dict):
                    for k_, val in zip(ms.value.keys, ms.value.values):
                        if k_ is not None and mconst(k_) == key and key is not None:
                            item = val.elts[pos] if pos >= 0 and isinstance(val, (ast.Tuple, ast.List)) and pos < len(val.elts) else val
                            if isinstance(item, ast.Constant) and isinstance(item.value, str):
                                return item.value
    return None


def _check_value_layout(ctx, prog, imp_ci):
    """R-C20-16: the importer takes the variable values in the layout the exporter writes (one row per location, one column per
    component).  It does not transpose or reshape the MYVALUES array, least of all depending on its shape: a variable with exactly as
    many rows as components would come back transposed."""
    ctx.rule("R-C20-16", floor=1, what="the importer does not transpose / reshape the MYVALUES array")
    hits, n = [], 0
    for name, defs in sorted(imp_ci.methods.items()):
        fi = defs[-1]
        if not any(isinstance(c, ast.Constant) and c.value == "MYVALUES" for c in ast.walk(fi.node)):
            continue
        n += 1
        vals = set()
        for st in walk_function(fi.node):
            if isinstance(st, ast.Assign) and len(st.targets) == 1 and isinstance(st.targets[0], ast.Name) and \
                    any(isinstance(c, ast.Constant) and c.value == "MYVALUES" for c in ast.walk(st.value)):
                vals.add(st.targets[0].id)
        for node in ast.walk(fi.node):
            base = None
            if isinstance(node, ast.Attribute) and node.attr in ("T", "transpose", "reshape", "swapaxes", "ravel", "flatten"):
                base = node.value
            elif isinstance(node, ast.Call) and (call_name(node) or "") in ("np.transpose", "np.reshape", "np.swapaxes", "np.moveaxis", "np.ravel") and node.args:
                base = node.args[0]
            if base is None:
                continue
            if any((isinstance(x, ast.Constant) and x.value == "MYVALUES") or (isinstance(x, ast.Name) and x.id in vals) for x in ast.walk(base)):
                hits.append((fi, node))
    for fi, node in hits:
        ctx.violated(fi, node, "%s changes the layout of the stored values (%s): the exporter writes one row per location and one column per "
                     "component, a variable with as many rows as components is read back transposed" % (fi.name, norm_text(node)[:60]),
                     text="layout of MYVALUES changed in " + fi.name)
    if n == 0:
        raise AnalysisError("no importer method reads MYVALUES")
    if not hits:
        ctx.holds(imp_ci.key, None, "%d method(s) read MYVALUES as stored" % n)


def _check_set_levels(ctx, prog, exp_ci):
    """R-C20-15: a node set is validated against the node ids of the mesh, an element set against its element ids.  The index
    level literals reaching get_level_values (directly or as arguments of a helper of the exporter) in add_node_set are exactly
    {'node_id'}, in add_element_set exactly {'element_id'}."""
    ctx.rule("R-C20-15", floor=2, what="add_node_set validates against 'node_id', add_element_set against 'element_id'")
    for meth, want in (("add_node_set", "node_id"), ("add_element_set", "element_id")):
        fi = prog.lookup_method(exp_ci, meth)
        if fi is None:
            raise AnalysisError("VMAPExport.%s vanished" % meth)
        lits = set()
        from ..inline import inlined as _inl
        fi = _inl(prog, fi)
        for c in ast.walk(fi.node):
            if isinstance(c, ast.Call) and isinstance(c.func, ast.Attribute) and c.func.attr == "get_level_values" and c.args and \
                    not isinstance(c.args[0], ast.Constant):
                v = _table_driven_level(fi, c.args[0])
                if v is not None:
                    lits.add(v)
        for c in ast.walk(fi.node):
            if isinstance(c, ast.Call):
                direct = isinstance(c.func, ast.Attribute) and c.func.attr in ("get_level_values", "unique", "isin", "droplevel")
                helper = isinstance(c.func, ast.Attribute) and isinstance(c.func.value, ast.Name) and c.func.value.id in ("self", "VMAPExport", "cls")
                if direct or helper:
                    for a in list(c.args) + [k.value for k in c.keywords]:
                        v = const_value(a)
                        if isinstance(v, str) and v.endswith("_id"):
                            lits.add(v)
        if lits == {want}:
            ctx.holds(fi, fi.node, "%s validates against the level %r" % (meth, want))
        elif not lits:
            raise AnalysisError("%s: no index level literal found" % meth)
        else:
            ctx.violated(fi, fi.node, "%s validates the given ids against the index level(s) %s; a %s is a set of %ss: valid sets are refused "
                         "and sets of foreign ids are stored, filtering by the stored set then returns other members"
                         % (meth, sorted(lits), meth[4:].replace("_", " "), want[:-3]), text="%s validates against %s" % (meth, sorted(lits)))


def run(ctx):
    prog = ctx.prog
    exp_ci = prog.cls(EXP + ":VMAPExport")
    imp_ci = prog.cls(IMP + ":VMAPImport")
    W = H5Model(prog, exp_ci)
    _patch_group_with_attributes(W)
    W.analyse_entries()
    R = H5Model(prog, imp_ci, root_attr="_file").analyse_entries()

    writes = [r for r in W.records if r["kind"].startswith("write_")]
    reads = [r for r in R.records if r["kind"].startswith(("read_", "compare_"))]
    if len(writes) < 20 or len(reads) < 15:
        raise AnalysisError("schema extraction too small: %d writes, %d reads" % (len(writes), len(reads)))

    # ---------------------------------------------------------------- R-C20-1 schema
    ctx.rule("R-C20-1", floor=20, what="every key read by the importer is written by the exporter at a matching path; enums and widths agree")
    wnodes = {tuple(r["path"]) for r in writes if r["kind"] in ("write_group", "write_dataset")}
    wattrs = {(tuple(r["path"]), r["key"]) for r in writes if r["kind"] == "write_attr"}
    wfields = _dataset_fields(W)
    done = set()
    for r in reads:
        p, k = tuple(r["path"]), r.get("key")
        ident = ("node" if r["kind"] in ("read_node", "read_keys") else r["kind"], p, k, r["func"].key)
        if ident in done:
            continue
        done.add(ident)
        if r["kind"] in ("read_node", "read_keys"):
            if STAR in p and all(c == STAR for c in p):
                continue
            if p == ():
                continue
            ok = any(match(p, w) for w in wnodes)
            # a dynamic full path ('*' only because the caller passes it) is not a schema key
            if ok:
                ctx.holds(r["func"], r["node"], "reads /%s : written by the exporter" % "/".join(p))
            else:
                ctx.violated(r["func"], r["node"], "importer reads /%s which the exporter never creates" % "/".join(p))
        elif r["kind"] in ("read_attr", "compare_attr"):
            ok = any(match(p, wp) and (k == wk or STAR in (k, wk)) for wp, wk in wattrs)
            if ok:
                ctx.holds(r["func"], r["node"], "reads attribute %s of /%s : written by the exporter" % (k, "/".join(p)))
            else:
                ctx.violated(r["func"], r["node"], "importer reads attribute %r of /%s which the exporter never writes"
                             % (k, "/".join(p)))
        elif r["kind"] == "read_field":
            fields = set()
            for wp, names in wfields:
                if match(p, wp):
                    fields |= set(names)
            if k in fields:
                ctx.holds(r["func"], r["node"], "reads compound field %s of /%s : written" % (k, "/".join(p)))
            else:
                ctx.violated(r["func"], r["node"], "importer reads compound field %r of /%s; exporter writes %s" %
                             (k, "/".join(p), sorted(fields)))

    _check_set_codes(ctx, prog, W, R, exp_ci, imp_ci)
    _check_locations(ctx, prog, W, R, exp_ci, imp_ci)
    _check_widths(ctx, prog, W, R)
    ctx.attempt(lambda c: _check_string_attrs(c, prog, W, imp_ci))

    # ---------------------------------------------------------------- R-C20-2 rollback
    _check_rollback(ctx, prog, W, exp_ci)

    # ---------------------------------------------------------------- R-C20-3 narrowing
    _check_narrowing(ctx, prog, W, exp_ci)

    ctx.attempt(lambda c: _check_parallel_order(c, prog, exp_ci))
    ctx.attempt(lambda c: _check_cache_keys(c, prog, imp_ci))
    ctx.attempt(lambda c: _check_value_order(c, prog, exp_ci, imp_ci))
    ctx.attempt(lambda c: _check_per_call_state(c, prog, exp_ci))
    ctx.attempt(lambda c: _check_ragged(c, prog, exp_ci))
    ctx.attempt(lambda c: _check_selection_only(c, prog, exp_ci))
    ctx.attempt(lambda c: _check_membership(c, prog, imp_ci))
    ctx.attempt(lambda c: _check_label_joins(c, prog, imp_ci))
    ctx.attempt(lambda c: _check_element_order(c, prog, exp_ci))
    ctx.attempt(lambda c: _check_set_levels(c, prog, exp_ci))
    ctx.attempt(lambda c: _check_value_layout(c, prog, imp_ci))

    # ---------------------------------------------------------------- R-C20-4 read only
    ctx.rule("R-C20-4", floor=2, what="importer opens the file read-only and reaches no write call")
    opens = [r for r in R.records if r["kind"] == "open"]
    if not opens:
        raise AnalysisError("importer never opens an h5py.File")
    for o in opens:
        if o["key"] == "r":
            ctx.holds(o["func"], o["node"], "file opened with mode 'r'")
        else:
            ctx.violated(o["func"], o["node"], "importer opens the file with mode %r" % (o["key"],))
    bad = [r for r in R.records if r["kind"] in ("write_group", "write_dataset", "write_attr", "write_item", "delete")]
    for r in bad:
        ctx.violated(r["func"], r["node"], "importer performs a write (%s) on the HDF5 file" % r["kind"])
    if not bad:
        ctx.holds(IMP, None, "no create/attrs-store/item-store/del reachable in %d importer methods" %
                  len(imp_ci.methods), {"records": len(R.records)})


def _unwrap_data(e):
    """strip transposes, int32 guards, list wrappers and .values from a dataset's data expression"""
    while True:
        if isinstance(e, ast.Attribute) and e.attr in ("T", "values"):
            e = e.value
        elif isinstance(e, ast.Call) and isinstance(e.func, ast.Name) and len(e.args) == 1 and not e.keywords:
            e = e.args[0]           # in-module guard helper, np.asarray-like
        elif isinstance(e, ast.Call) and (call_name(e) or "") in ("np.asarray", "np.array", "np.transpose") and e.args:
            e = e.args[0]
        elif isinstance(e, (ast.List, ast.Tuple)) and len(e.elts) == 1:
            e = e.elts[0]
        else:
            return e


def _root_name(e):
    while True:
        if isinstance(e, (ast.Attribute, ast.Subscript)):
            e = e.value
        elif isinstance(e, ast.Call) and isinstance(e.func, ast.Attribute):
            e = e.func.value
        elif isinstance(e, ast.Call) and e.args:
            e = e.args[0]
        else:
            return e.id if isinstance(e, ast.Name) else None


ARITH_AGG = ("mean", "sum", "median", "prod", "std", "var", "sem", "cumsum", "cumprod", "mad", "quantile", "rolling", "ewm")
SELECT_AGG = ("first", "last", "nth", "head", "tail", "min", "max")


def _arithmetic_reductions(fn_node):
    """arithmetic aggregations of a groupby: <x>.groupby(...).mean() / .agg('mean') / .agg(np.mean) / .transform('sum')"""
    out = []
    for c in calls_in(fn_node):
        if not isinstance(c.func, ast.Attribute):
            continue
        below = [x for x in ast.walk(c.func.value) if isinstance(x, ast.Call) and isinstance(x.func, ast.Attribute) and
                 x.func.attr == "groupby"]
        if not below:
            continue
        if c.func.attr in ARITH_AGG:
            out.append((c, c.func.attr))
        elif c.func.attr in ("agg", "aggregate", "transform", "apply") and c.args:
            a = c.args[0]
            nm = const_value(a) if isinstance(const_value(a), str) else (call_name(ast.Call(func=a, args=[], keywords=[])) or "")
            nm = (nm or "").split(".")[-1]
            if nm in ARITH_AGG:
                out.append((c, nm))
    return out


def _check_selection_only(ctx, prog, exp_ci):
    """R-C20-11: the element-nodal mesh frame repeats a nodal value once per element the node belongs to.  The exporter reduces it
    to one row per node by *selecting* one of the (identical) rows.  An arithmetic aggregation (mean, sum/count, median) is not the
    identity on k equal floats for k = 3, 5, 6, 7 (one ulp off), and turns integer columns into floats: the stored values are then
    no longer the values of the mesh and the round trip is not lossless."""
    ctx.rule("R-C20-11", floor=1, what="the exporter reduces repeated rows by selection (first/last), never by arithmetic aggregation")
    ex = ast.parse("def f(mesh, c):\n    a = mesh.groupby('node_id').first()\n    b = mesh[c].groupby('node_id').mean()\n"
                   "    d = mesh.groupby('node_id').agg('sum')\n    return a, b, d\n").body[0]
    if len(_arithmetic_reductions(ex)) != 2:
        raise AnalysisError("R-C20-11 built-in example not matched")
    n = 0
    g = 0
    for name, fs in sorted(exp_ci.methods.items()):
        f = fs[-1]
        n += 1
        g += len([c for c in calls_in(f.node) if isinstance(c.func, ast.Attribute) and c.func.attr == "groupby"])
        for c, agg in _arithmetic_reductions(f.node):
            ctx.violated(f, c, "%s reduces the repeated rows of the mesh with %s(): k equal floating point values do not average / "
                         "sum back to the value for every k, and integer columns become floats, so what is written is not the "
                         "value of the mesh (the round trip is not lossless)" % (name, agg), text="arithmetic reduction %s %s" % (name, agg))
    if n < 5:
        raise AnalysisError("exporter methods not found")
    ctx.holds(exp_ci.key, None, "%d exporter methods, %d groupby reductions: all by selection" % (n, g))


def _unsound_membership(fn_node):
    """membership tests that promise duplicate-free operands (assume_unique=True) on values taken from an index level"""
    out = []
    for c in calls_in(fn_node):
        if (call_name(c) or "").split(".")[-1] in ("isin", "in1d", "intersect1d", "setdiff1d", "setxor1d") and \
                any(k.arg == "assume_unique" and const_value(k.value) is True for k in c.keywords):
            out.append(c)
    return out


def _check_membership(ctx, prog, imp_ci):
    """R-C20-12: the id levels of the mesh index repeat every id (a node once per element, an element once per node).  numpy's
    set routines with assume_unique=True are only correct for duplicate-free operands - with repeated ids the sort-based code
    path reports ids as members that are not in the stored set, so a filtered mesh is not the stored set."""
    ctx.rule("R-C20-12", floor=1, what="membership of mesh ids in a stored set is not computed under assume_unique=True")
    ex = ast.parse("def f(ids, s):\n    return np.isin(ids, s, assume_unique=True), np.isin(ids, s)\n").body[0]
    if len(_unsound_membership(ex)) != 1:
        raise AnalysisError("R-C20-12 built-in example not matched")
    n = 0
    for name, fs in sorted(imp_ci.methods.items()):
        f = fs[-1]
        n += 1
        for c in _unsound_membership(f.node):
            ctx.violated(f, c, "%s: %s with assume_unique=True on ids of the mesh index, which repeats every id: ids outside the "
                         "stored set are reported as members" % (name, call_name(c)), text="assume_unique " + name)
    if n < 5:
        raise AnalysisError("importer methods not found")
    ctx.holds(imp_ci.key, None, "%d importer methods: no membership test under assume_unique=True" % n)


def positional_relabellings(fn_node):
    """a frame gets the index of ANOTHER frame by position:  a.set_axis(b.index) / a.set_index(b.index) / a.index = b.index /
    pd.DataFrame(a.values, index=b.index) - row i of a is declared to be row i of b"""
    out = []

    def root(e):
        while isinstance(e, (ast.Attribute, ast.Subscript, ast.Call)):
            e = e.func.value if isinstance(e, ast.Call) and isinstance(e.func, ast.Attribute) else \
                (e.value if not isinstance(e, ast.Call) else None)
            if e is None:
                return None
        return norm_text(e) if e is not None else None

    def index_of(e):
        """the frame whose .index the expression is, if any"""
        if isinstance(e, ast.Attribute) and e.attr == "index":
            return norm_text(e.value)
        return None
    for n in ast.walk(fn_node):
        if isinstance(n, ast.Call) and isinstance(n.func, ast.Attribute) and n.func.attr in ("set_axis", "set_index") and n.args:
            other = index_of(n.args[0])
            if other is not None and other != norm_text(n.func.value):
                out.append((n, norm_text(n.func.value), other))
        elif isinstance(n, ast.Assign) and len(n.targets) == 1 and isinstance(n.targets[0], ast.Attribute) and \
                n.targets[0].attr == "index":
            other = index_of(n.value)
            if other is not None and other != norm_text(n.targets[0].value):
                out.append((n, norm_text(n.targets[0].value), other))
    return out


def _check_label_joins(ctx, prog, imp_ci):
    """R-C20-13: what the importer reads for a variable is attached to the mesh by a JOIN ON THE INDEX LABELS.  Geometry is written
    by ascending element id, a variable in the row order of the frame it was exported from, a variable may cover only part of
    the elements, and a filtered mesh may happen to have as many rows as a variable: equal length says nothing about equal
    order.  Giving one frame the index of another by position is a violation."""
    ctx.rule("R-C20-13", floor=1, what="imported variables are attached to the mesh by label (join), never by giving them the mesh index positionally")
    ex = ast.parse("def f(self, v):\n    a = v.set_axis(self._mesh.index, axis=0)\n    b = self._mesh.join(v)\n"
                   "    c = v.set_index('element_id')\n    return a, b, c\n").body[0]
    if len(positional_relabellings(ex)) != 1:
        raise AnalysisError("R-C20-13 built-in example not matched")
    n = 0
    m = 0
    for name, fs in sorted(imp_ci.methods.items()):
        f = fs[-1]
        n += 1
        for node, a, b in positional_relabellings(f.node):
            m += 1
            ctx.violated(f, node, "%s: %s gives %s the index of %s by position: row i is declared to belong to the i-th row of the "
                         "mesh, whatever element / node it was stored for" % (name, norm_text(node)[:70], a, b),
                         text="positional relabelling in " + name)
    if n < 5:
        raise AnalysisError("importer methods not found")
    if not m:
        ctx.holds(imp_ci.key, None, "%d importer methods: no frame is given another frame's index by position" % n)


def _check_parallel_order(ctx, prog, exp_ci):
    """R-C20-5: the identifier dataset and the value dataset of one variable are parallel arrays - row i of the values
    belongs to identifier i.  Both must therefore be taken from the same table in the same order class (row order of the mesh,
    or the key order of one groupby result); ids from a sorted unique / values in row order would attach values to the wrong
    elements whenever the mesh is not sorted."""
    from ..orders import Orders
    ctx.rule("R-C20-5", floor=2, what="identifier and value datasets of a variable come from the same table in the same order class")
    n = 0
    for name, fs in exp_ci.methods.items():
        f = fs[-1]
        frames = [p_ for p_ in f.params if p_ in ("mesh", "df", "frame")]
        if not frames:
            continue
        o = Orders(prog, [f.module.name])
        env = {p_: "ROW" for p_ in frames}
        for _ in range(2):
            for st in walk_stmts(f.node.body):
                if isinstance(st, ast.Assign) and isinstance(st.targets[0], ast.Name):
                    k = o.oc(st.value, env, f)
                    if k is not None:
                        env[st.targets[0].id] = k
        defs = {}
        for st in walk_stmts(f.node.body):
            if isinstance(st, ast.Assign) and isinstance(st.targets[0], ast.Name):
                defs.setdefault(st.targets[0].id, []).append(st.value)
        blocks = {}
        for c in calls_in(f.node):
            if isinstance(c.func, ast.Attribute) and c.func.attr == "create_dataset" and c.args:
                st = c
                while not isinstance(st, ast.stmt):
                    st = st._parent
                blk = id(st._parent), tuple(id(x) for x in (getattr(st._parent, "body", []) if st in getattr(st._parent, "body", []) else
                                                            getattr(st._parent, "orelse", [])))
                blocks.setdefault((blk, norm_text(c.func.value)), []).append((const_value(c.args[0]), c, st))
        for (blk, recv), items in blocks.items():
            names = {nm: (c, st) for nm, c, st in items}
            if not {"MYGEOMETRYIDS", "MYVALUES"} <= set(names):
                continue
            cls = {}
            for nm in ("MYGEOMETRYIDS", "MYVALUES"):
                c, st = names[nm]
                data = next((k.value for k in c.keywords if k.arg == "data"), None)
                if data is None:
                    raise AnalysisError("%s: dataset %s without data=" % (f.key, nm))
                e = _unwrap_data(data)
                k = o.oc(e, env, f)
                root = _root_name(e)
                # a local holding ids computed from the table: class and root of its definition
                if isinstance(e, ast.Name) and e.id in defs and len(defs[e.id]) == 1:
                    k = o.oc(defs[e.id][0], env, f)
                    root = _root_name(defs[e.id][0])
                cls[nm] = (k, root, norm_text(data))
            n += 1
            (k1, r1, t1), (k2, r2, t2) = cls["MYGEOMETRYIDS"], cls["MYVALUES"]
            st = names["MYGEOMETRYIDS"][1]
            # one identifier per element but one value row per (element, node): the rows of every element must be contiguous and
            # the elements in the identifiers' order.  Recognised construction: the frame is re-ordered with a stable argsort of
            # the rank of each row's element in the identifier array itself - parallel by construction, whatever order the ids have.
            ids_e = _unwrap_data(next(k.value for k in names["MYGEOMETRYIDS"][0].keywords if k.arg == "data"))
            per_element = isinstance(ids_e, ast.Name) and any(
                isinstance(x, ast.Call) and (call_name(x) in ("np.unique",) or (isinstance(x.func, ast.Attribute) and
                                                                                 x.func.attr in ("drop_duplicates", "unique")))
                for d_ in defs.get(ids_e.id, []) for x in ast.walk(d_))
            if per_element:
                vroot = r2
                regroup = None
                for d_ in defs.get(vroot, []):
                    if isinstance(d_, ast.Subscript) and isinstance(d_.value, ast.Attribute) and d_.value.attr == "iloc" and \
                            isinstance(d_.slice, ast.Call) and call_name(d_.slice) == "np.argsort" and \
                            any(k.arg == "kind" and const_value(k.value) == "stable" for k in d_.slice.keywords):
                        regroup = d_
                rank_ok = False
                if regroup is not None:
                    key = regroup.slice.args[0]
                    rank_defs = []
                    for n_ in ast.walk(key):
                        if isinstance(n_, ast.Subscript) and isinstance(n_.value, ast.Name):
                            rank_defs.extend(defs.get(n_.value.id, []))
                        elif isinstance(n_, ast.Subscript) and isinstance(n_.value, ast.Call):
                            rank_defs.append(n_.value)              # the rank table written in place
                    for d_ in rank_defs:
                        if isinstance(d_, ast.Call) and call_name(d_) == "pd.Series" and \
                                any(k.arg == "index" and isinstance(k.value, ast.Name) and k.value.id == ids_e.id for k in d_.keywords):
                            rank_ok = True
                if rank_ok:
                    ctx.holds(f, st, "%s: value rows are regrouped by a stable argsort of each row's rank in the identifier array %s: "
                              "element blocks contiguous and in the identifiers' order" % (f.name, ids_e.id))
                else:
                    ctx.violated(f, st, "%s: the identifiers %s hold one id per element, the values %s one row per (element, node) in "
                                 "the frame's row order: unless the rows of every element are contiguous and the elements in the "
                                 "identifiers' order, the importer (which rebuilds the index element by element) attaches values "
                                 "to the wrong rows" % (f.name, t1, t2), text="element rows not regrouped")
                continue
            if k1 is None or k2 is None:
                raise AnalysisError("%s: order class of %s / %s unknown" % (f.key, t1, t2))
            if k1 == k2 and r1 == r2:
                ctx.holds(f, st, "%s: ids %s and values %s are both %s of %s" % (f.name, t1, t2, k1, r1))
            else:
                ctx.violated(f, st, "%s: identifiers %s are in %s order of %s but the values %s are in %s order of %s: value row i "
                             "no longer belongs to identifier i for a mesh that is not sorted" % (f.name, t1, k1, r1, t2, k2, r2),
                             text="parallel datasets order")
    if n == 0:
        raise AnalysisError("no variable group with parallel id/value datasets found")


def _check_value_order(ctx, prog, exp_ci, imp_ci):
    """R-C20-7: (a) the index the importer attaches to a variable's values is in the order of that variable's own identifier
    dataset: where it is built by a merge, the identifier frame is the LEFT operand of an order-preserving merge (pandas
    inner/left merges keep the order of the left keys), never the geometry's index; (b) the exporter decides 2-D vs 3-D by
    exact comparison of the z coordinates, not with a tolerance that depends on the coordinate unit."""
    ctx.rule("R-C20-7", floor=2, what="imported value index follows the variable's own identifier order; no unit-dependent tolerance in the exporter")
    n = 0
    for name, fs in imp_ci.methods.items():
        f = fs[-1]
        idl = {st.targets[0].id for st in walk_function(f.node) if isinstance(st, ast.Assign) and isinstance(st.targets[0], ast.Name)
               and any(isinstance(x, ast.Constant) and x.value == "MYGEOMETRYIDS" for x in ast.walk(st.value))}
        for c in calls_in(f.node):
            left_ids = isinstance(c.func, ast.Attribute) and c.func.attr in ("merge", "join") and any(
                isinstance(x, ast.Constant) and x.value == "MYGEOMETRYIDS" for x in ast.walk(c.func.value)) and not any(
                isinstance(x, ast.Call) and isinstance(x.func, ast.Attribute) and x.func.attr in ("merge", "join") for x in ast.walk(c.func.value))
            right_ids = isinstance(c.func, ast.Attribute) and c.func.attr in ("merge", "join") and not left_ids and any(
                isinstance(x, ast.Constant) and x.value == "MYGEOMETRYIDS" for a_ in list(c.args) + [k_.value for k_ in c.keywords]
                for x in ast.walk(a_))                  # the identifier frame written in place as the RIGHT operand
            if isinstance(c.func, ast.Attribute) and c.func.attr in ("merge", "join") and (idl or left_ids or right_ids):
                in_place_ids = left_ids
                recv = c.func.value
                while isinstance(recv, (ast.Call, ast.Attribute, ast.Subscript)):
                    recv = recv.func.value if isinstance(recv, ast.Call) and isinstance(recv.func, ast.Attribute) else \
                        (recv.value if not isinstance(recv, ast.Call) else recv.args[0] if recv.args else recv.func)
                how = next((const_value(k.value) for k in c.keywords if k.arg == "how"), "inner" if c.func.attr == "merge" else "left")
                n += 1
                if in_place_ids and how in ("inner", "left"):
                    ctx.holds(f, c, "%s: <frame of MYGEOMETRYIDS>.%s(..., how=%r): result rows follow the variable's identifier order" %
                              (f.name, c.func.attr, how))
                elif isinstance(recv, ast.Name) and recv.id in idl and how in ("inner", "left"):
                    ctx.holds(f, c, "%s: %s.%s(..., how=%r): result rows follow the variable's identifier order" %
                              (f.name, recv.id, c.func.attr, how))
                else:
                    ctx.violated(f, c, "%s: the index for the variable's values is built by %s with %s on the left (how=%r): its rows "
                                 "follow that operand's order, but MYVALUES are stored in the order of the variable's MYGEOMETRYIDS - "
                                 "values land on the wrong elements when the two orders differ" %
                                 (f.name, c.func.attr, norm_text(recv), how), text="merge order " + f.name)
    if n == 0:
        raise AnalysisError("importer: no merge that builds a variable index found")
    for name, fs in exp_ci.methods.items():
        f = fs[-1]
        for c in calls_in(f.node):
            fn = call_name(c) or ""
            if fn in ("np.allclose", "np.isclose", "math.isclose", "np.round", "np.around"):
                st = c
                while not isinstance(st, ast.stmt):
                    st = st._parent
                ctx.violated(f, st, "%s: %s decides about the mesh with a tolerance that depends on the coordinate unit (a genuinely "
                             "3-D mesh with a small extent is written as 2-D)" % (f.name, norm_text(c)), text=norm_text(c))
    dims = [st for name, fs in exp_ci.methods.items() for st in walk_function(fs[-1].node)
            if isinstance(st, ast.If) and any(isinstance(x, ast.Assign) and any(is_self_attr(t, "_dimension") for t in x.targets) for x in st.body)]
    holder = prog.lookup_method(exp_ci, "_create_points_datasets")
    for st in dims:
        ctx.holds(holder or exp_ci.key, st, "dimension decided by the exact test %s" % norm_text(st.test))


def _check_ragged(ctx, prog, exp_ci):
    """R-C20-9: a list that collects one array per group of a groupby (the node ids of every element) has entries of
    different lengths as soon as the mesh mixes element types; converting it with np.asarray / np.array (without
    dtype=object) raises for such a mesh.  Mixed element types are part of the property."""
    ctx.rule("R-C20-9", floor=1, what="per-element arrays of different lengths are not packed into a rectangular numpy array")
    n = 0
    for name, fs in exp_ci.methods.items():
        f = fs[-1]
        for loop in [x for x in walk_function(f.node) if isinstance(x, ast.For)]:
            it = loop.iter
            grouped = isinstance(it, ast.Name) and any(
                isinstance(st, ast.Assign) and isinstance(st.targets[0], ast.Name) and st.targets[0].id == it.id and
                isinstance(st.value, ast.Call) and isinstance(st.value.func, ast.Attribute) and st.value.func.attr == "groupby"
                for st in walk_function(f.node)) or (isinstance(it, ast.Call) and isinstance(it.func, ast.Attribute) and
                                                     it.func.attr == "groupby")
            if not grouped:
                continue
            loop_vars = {x.id for x in ast.walk(loop.target) if isinstance(x, ast.Name)}     # `for g in ...` / `for key, rows in ...`
            per_group = {st.targets[0].id for st in loop.body if isinstance(st, ast.Assign) and isinstance(st.targets[0], ast.Name)
                         and any(isinstance(x, ast.Name) and x.id in loop_vars for x in ast.walk(st.value)) and
                         any(isinstance(x, ast.Attribute) and x.attr in ("values", "index") for x in ast.walk(st.value))}
            lists = {c.func.value.id for st in loop.body for c in calls_in(st) if isinstance(c.func, ast.Attribute) and
                     c.func.attr == "append" and isinstance(c.func.value, ast.Name) and c.args and isinstance(c.args[0], ast.Name)
                     and c.args[0].id in per_group}
            for lst in sorted(lists):
                n += 1
                packs = [c for c in calls_in(f.node) if (call_name(c) or "") in ("np.asarray", "np.array", "np.stack", "np.vstack")
                         and c.args and isinstance(c.args[0], ast.Name) and c.args[0].id == lst and
                         not any(k.arg == "dtype" and norm_text(k.value) in ("object", "np.object_", "'object'") for k in c.keywords)]
                if packs:
                    st = packs[0]
                    while not isinstance(st, ast.stmt):
                        st = st._parent
                    ctx.violated(f, st, "%s: %s collects one array per element and is packed with %s: for a mesh that mixes element "
                                 "types (different node counts) the list is ragged and the conversion raises" %
                                 (name, lst, norm_text(packs[0])), text="ragged " + lst)
                else:
                    ctx.holds(f, loop, "%s: per-element arrays in %s are kept as a list" % (name, lst))
    # per-element slices cut out of one flat array: the flat array and the slice sizes must be in the same order class
    from ..orders import Orders
    for name, fs in exp_ci.methods.items():
        f = fs[-1]
        frames = [p_ for p_ in f.params if p_ in ("mesh", "df", "frame")]
        splits = [c for c in calls_in(f.node) if (call_name(c) or "") in ("np.split", "np.array_split") and len(c.args) >= 2]
        if not frames or not splits:
            continue
        o = Orders(prog, [f.module.name])
        env = {p_: "ROW" for p_ in frames}
        for _ in range(3):
            for st in walk_stmts(f.node.body):
                if isinstance(st, ast.Assign) and isinstance(st.targets[0], ast.Name):
                    k = o.oc(st.value, env, f)
                    if k is not None:
                        env[st.targets[0].id] = k
        for c in splits:
            n += 1
            sizes = c.args[1]
            while True:     # cumulative sums and slices of the size vector keep its order class
                if isinstance(sizes, ast.Subscript):
                    sizes = sizes.value
                elif isinstance(sizes, ast.Call) and (call_name(sizes) or "") in ("np.cumsum", "np.asarray", "np.array") and sizes.args:
                    sizes = sizes.args[0]
                elif isinstance(sizes, ast.Call) and isinstance(sizes.func, ast.Attribute) and sizes.func.attr in ("cumsum", "to_numpy"):
                    sizes = sizes.func.value
                else:
                    break
            k0, k1 = o.oc(c.args[0], env, f), o.oc(sizes, env, f)
            st = c
            while not isinstance(st, ast.stmt):
                st = st._parent
            if k0 is None or k1 is None:
                raise AnalysisError("%s: order class of the operands of %s unknown (%s / %s)" % (f.key, norm_text(c)[:60], k0, k1))
            if k0 == k1 and k0 != "ROW":
                ctx.holds(f, st, "%s: flat array and slice sizes of %s are both in %s order" % (name, norm_text(c)[:60], k0))
            else:
                ctx.violated(f, st, "%s: %s cuts an array in %s order into pieces whose sizes are in %s order: the pieces are the "
                             "elements' node lists only if the rows of the mesh are already grouped by element in that order; "
                             "for any other row order elements receive the nodes of other elements" %
                             (name, norm_text(c)[:80], k0, k1), text="split order classes")
    if n == 0:
        raise AnalysisError("exporter: no per-element array list found")


def _check_per_call_state(ctx, prog, exp_ci):
    """R-C20-8: an exporter attribute that a method sets under a data-dependent condition (the dimension of the geometry being
    written) describes the current call, not the exporter: the same method must initialise it unconditionally before, so that
    every path through the method assigns it.  Otherwise the value left by an earlier add_* call decides (a flat mesh added
    after a solid one is typed as 3-D)."""
    from ..cfg import CFG
    ctx.rule("R-C20-8", floor=1, what="attributes set under a data-dependent condition are (re)initialised on every path of the same method")
    n = 0
    for name, fs in exp_ci.methods.items():
        f = fs[-1]
        if name == "__init__":
            continue
        cond = {}
        for st in walk_function(f.node):
            if isinstance(st, ast.Assign) and any(is_self_attr(t) for t in st.targets):
                attr = next(t.attr for t in st.targets if is_self_attr(t))
                par = st._parent
                inside_if = False
                while par is not None and par is not f.node:
                    if isinstance(par, (ast.If, ast.For, ast.While)):
                        inside_if = True
                    par = getattr(par, "_parent", None)
                cond.setdefault(attr, []).append((st, inside_if))
        for attr, sts in cond.items():
            if not any(c for _, c in sts):
                continue
            # is the attribute read by another method (i.e. does the stale value matter)?
            readers = [g for gname, gs in exp_ci.methods.items() if gname != name for g in gs[-1:]
                       if any(is_self_attr(x, attr) and isinstance(x.ctx, ast.Load) for x in ast.walk(g.node))]
            if not readers:
                continue
            n += 1
            cfg = CFG(f.node)
            nodes = {cfg.node(st) for st, _ in sts}
            nodes.discard(None)
            if cfg.must_pass(cfg.exit, nodes):
                ctx.holds(f, sts[0][0], "%s: self.%s is assigned on every path (read by %s)" % (name, attr, ", ".join(g.name for g in readers)))
            else:
                st = next(s_ for s_, c in sts if c)
                ctx.violated(f, st, "%s sets self.%s only under a condition on the data of this call and does not initialise it "
                             "before; %s then works with the value an earlier add_* call left behind" %
                             (name, attr, ", ".join(g.name for g in readers)), text="conditional state " + attr)
    if n == 0:
        ctx.holds(exp_ci.key, None, "no exporter attribute is set only conditionally")


def _check_cache_keys(ctx, prog, imp_ci):
    """R-C20-6: a value cached on the importer object by a method that takes arguments must be keyed by them (or the cache
    must be reset when they change).  A cache that ignores the geometry / state / variable name returns the first
    geometry's table for every later one."""
    ctx.rule("R-C20-6", floor=1, what="importer caches are keyed by the arguments their value depends on")
    n = 0

    def check(ci, label):
        nonlocal n
        out = []
        for name, fs in ci.methods.items():
            f = fs[-1]
            params = [p_ for p_ in f.params if p_ != "self"]
            if name == "__init__" or not params:
                continue
            for st in walk_function(f.node):
                if not (isinstance(st, ast.If) and any(isinstance(x, ast.Return) for x in st.body)):
                    continue
                # `if self._cache is not None: return self._cache`  /  `if key in self._cache: return self._cache[key]`
                rets = [x for x in st.body if isinstance(x, ast.Return) and x.value is not None]
                for r in rets:
                    attrs = [a for a in ast.walk(r.value) if is_self_attr(a)]
                    if not attrs:
                        continue
                    a = attrs[0]
                    stored = any(isinstance(x, ast.Assign) and any(is_self_attr(t, a.attr) or (isinstance(t, ast.Subscript) and is_self_attr(t.value, a.attr))
                                                                  for t in x.targets) for x in walk_function(f.node))
                    if not stored:
                        continue
                    used = {n_.id for n_ in ast.walk(st.test) if isinstance(n_, ast.Name)} | \
                        {n_.id for n_ in ast.walk(r.value) if isinstance(n_, ast.Name)}
                    dep = [p_ for p_ in params if any(isinstance(n_, ast.Name) and n_.id == p_ for x in f.node.body if x is not st
                                                       for n_ in ast.walk(x))]
                    n += 1
                    out.append((f, st, a.attr, [p_ for p_ in dep if p_ not in used]))
        return out
    for f, st, attr, missing in check(imp_ci, "importer"):
        if missing:
            ctx.violated(f, st, "%s returns the cached self.%s without looking at its argument(s) %s, on which the value depends: "
                         "a second geometry/state gets the table of the first" % (f.name, attr, ", ".join(missing)), text="cache " + attr)
        else:
            ctx.holds(f, st, "%s: cache self.%s is keyed by the method's arguments" % (f.name, attr))
    # positive example (the rule expects no unkeyed cache on the real importer)
    src = ("class I:\n    def __init__(self):\n        self._c = None\n        self._d = {}\n"
           "    def idx(self, geometry):\n        if self._c is not None:\n            return self._c\n"
           "        self._c = build(geometry)\n        return self._c\n"
           "    def idx2(self, geometry):\n        if geometry in self._d:\n            return self._d[geometry]\n"
           "        self._d[geometry] = build(geometry)\n        return self._d[geometry]\n")
    import ast as _a
    from ..frontend import Program as _P, Module as _M, set_parents as _sp
    tree = _sp(_a.parse(src))
    p2 = object.__new__(_P)
    p2.root, p2.overrides, p2._base = "", {}, None
    p2.modules = {"ex": _M("ex", "ex.py", src, tree, "0")}
    p2.modules["ex"].pysource = src
    p2.functions, p2.classes, p2.accessors, p2._subclasses = {}, {}, {}, {}
    p2._index()
    n0 = n
    got = sorted((f.name, bool(m)) for f, st, attr, m in check(p2.classes["ex:I"], "example"))
    n = n0
    if got != [("idx", True), ("idx2", False)]:
        raise AnalysisError("cache-key positive example failed: %s" % got)
    ctx.holds("selftest:positive-example", None, "cache rule fires on the unkeyed example cache and accepts the keyed one; "
              "%d cache sites on the importer" % n)


def _patch_group_with_attributes(model):
    """Teach the writer model the role of the group-with-attributes helper: it creates
    parent/name and one attribute per VMAPAttribute(key, value) argument."""
    orig_call = model.call

    def call(callee, call_node, env, fi):
        ret = orig_call(callee, call_node, env, fi)
        va = callee.node.args.vararg
        if va is not None and ret is not None and not _special(ret):
            for a in call_node.args:
                if isinstance(a, ast.Call) and call_name(a) == "VMAPAttribute" and len(a.args) >= 2:
                    model.rec("write_attr", ret, fi, a, key=_strpat(a.args[0], env.get("@consts")), value=a.args[1],
                              env=dict(env))
        return ret
    model.call = call


def _dtype_names(call):
    """np.dtype({"names": [...], "formats": [...]}) -> (names, formats exprs)"""
    if not (isinstance(call, ast.Call) and call.args and isinstance(call.args[0], ast.Dict)):
        return None
    d = call.args[0]
    names = formats = None
    for k, v in zip(d.keys, d.values):
        if const_value(k) == "names" and isinstance(v, ast.List):
            names = [const_value(x) for x in v.elts]
        if const_value(k) == "formats" and isinstance(v, ast.List):
            formats = list(v.elts)
    if names is None:
        return None
    return names, formats


def _dataset_fields(W):
    out = []
    for r in W.records:
        if r["kind"] != "write_dataset":
            continue
        dt = r.get("dtype")
        if isinstance(dt, ast.Name):
            call = r["env"].get("@dtype:" + dt.id)
            nf = _dtype_names(call) if call is not None else None
            if nf:
                out.append((tuple(r["path"]), nf[0]))
                r["fields"] = nf
    return out


def _eval_code(expr, consts, arg_value):
    """Evaluate ``0 if set_type == 'nsets' else 1`` style code selectors for a given string argument."""
    if isinstance(expr, tuple) and expr and expr[0] == "@ifexp":
        expr = expr[1]
    c = const_value(expr)
    if c is not None:
        return c
    if isinstance(expr, ast.IfExp) and isinstance(expr.test, ast.Compare) and len(expr.test.ops) == 1:
        l, r = expr.test.left, expr.test.comparators[0]
        lc = arg_value if isinstance(l, ast.Name) else const_value(l)
        rc = arg_value if isinstance(r, ast.Name) else const_value(r)
        eq = lc == rc
        if isinstance(expr.test.ops[0], ast.NotEq):
            eq = not eq
        elif not isinstance(expr.test.ops[0], ast.Eq):
            return None
        return _eval_code(expr.body if eq else expr.orelse, consts, arg_value)
    return None


def _code_reaching(prog, fi, call, known, depth):
    """value of the MYSETTYPE attribute written when `call` (inside fi, whose parameters have the constant values `known`)
    is made; None when the call does not lead to such a write or the value is not a constant"""
    if depth > 3:
        return None
    for k in prog.resolve_call(fi, call):
        callee = prog.functions.get(k)
        if callee is None:
            continue
        params = [p for p in callee.params if p != "self"]
        vals = {}
        for i, a in enumerate(call.args):
            if i < len(params):
                vals[params[i]] = const_value(a) if const_value(a) is not None else (known.get(a.id) if isinstance(a, ast.Name) else None)
        for kw in call.keywords:
            if kw.arg in params:
                vals[kw.arg] = const_value(kw.value) if const_value(kw.value) is not None else \
                    (known.get(kw.value.id) if isinstance(kw.value, ast.Name) else None)
        for a in calls_in(callee.node, name="VMAPAttribute"):
            if len(a.args) >= 2 and const_value(a.args[0]) == "MYSETTYPE":
                v = a.args[1]
                if isinstance(v, ast.Name) and vals.get(v.id) is not None:
                    return vals[v.id]
                if const_value(v) is not None:
                    return const_value(v)
        for c2 in calls_in(callee.node):
            if isinstance(c2.func, ast.Attribute) and isinstance(c2.func.value, ast.Name) and c2.func.value.id == "self":
                r = _code_reaching(prog, callee, c2, vals, depth + 1)
                if r is not None:
                    return r
    return None


def _check_set_codes(ctx, prog, W, R, exp_ci, imp_ci):
    # writer: MYSETTYPE value per public set-adding method
    wcodes = {}
    for kind in ("node", "element"):
        for name, defs in exp_ci.methods.items():
            if name.startswith("add_") and kind in name and "set" in name:
                fi = defs[-1]
                for c in calls_in(fi.node):
                    # the constant that flows from this call, through any chain of helpers, into VMAPAttribute('MYSETTYPE', <.>)
                    code = _code_reaching(prog, fi, c, {}, 0)
                    if code is not None:
                        wcodes[kind] = (code, fi, c)
    rcodes = {}
    for kind in ("node", "element"):
        for name, defs in imp_ci.methods.items():
            if kind in name and name.endswith("sets") and not name.startswith("_"):
                fi = defs[-1]
                for c in calls_in(fi.node):
                    for k in prog.resolve_call(fi, c):
                        callee = prog.functions.get(k)
                        if callee is None:
                            continue
                        cmps = [n for n in ast.walk(callee.node) if isinstance(n, ast.Compare) and
                                isinstance(n.left, ast.Subscript) and const_value(n.left.slice) == "MYSETTYPE"]
                        if not cmps:
                            continue
                        other = cmps[0].comparators[0]
                        params = [p for p in callee.params if p != "self"]
                        # selector variable defined from the string argument
                        sel = None
                        for s in walk_function(callee.node):
                            if isinstance(s, ast.Assign) and isinstance(other, ast.Name) and \
                                    any(isinstance(t, ast.Name) and t.id == other.id for t in s.targets):
                                sel = s.value
                        argval = None
                        if sel is not None:
                            used = [p for p in params if p in names_in(sel)]
                            if used:
                                i = params.index(used[0])
                                if i < len(c.args):
                                    argval = const_value(c.args[i])
                        code = _eval_code(sel if sel is not None else other, {}, argval)
                        rcodes[kind] = (code, fi, c)
    if set(wcodes) != {"node", "element"} or set(rcodes) != {"node", "element"}:
        raise AnalysisError("set-type codes not found (writer %s, reader %s)" % (sorted(wcodes), sorted(rcodes)))
    for kind in ("node", "element"):
        w, r = wcodes[kind], rcodes[kind]
        if w[0] is None or r[0] is None:
            raise AnalysisError("set-type code for %s sets is not a constant" % kind)
        if w[0] == r[0]:
            ctx.holds(r[1], r[2], "%s sets: exporter writes MYSETTYPE=%r, importer selects %r" % (kind, w[0], r[0]))
        else:
            ctx.violated(r[1], r[2], "%s sets: exporter writes MYSETTYPE=%r but the importer selects %r" %
                         (kind, w[0], r[0]))
    if wcodes["node"][0] == wcodes["element"][0]:
        ctx.violated(wcodes["node"][1], wcodes["node"][2], "node and element sets are written with the same MYSETTYPE")


def _check_locations(ctx, prog, W, R, exp_ci, imp_ci):
    st = prog.module("pylife.vmap.vmap_structures")
    enum = {}
    for n in st.tree.body:
        if isinstance(n, ast.ClassDef) and n.name == "VariableLocations":
            for s in n.body:
                if isinstance(s, ast.Assign) and isinstance(s.targets[0], ast.Name):
                    enum[s.targets[0].id] = const_value(s.value)
    if not enum:
        raise AnalysisError("VariableLocations enum not found")
    # reader: location == K -> function ; function -> index level names
    handled = {}
    for name, defs in imp_ci.methods.items():
        fi = defs[-1]
        locnames = {s_.targets[0].id for s_ in walk_function(fi.node) if isinstance(s_, ast.Assign) and
                    isinstance(s_.targets[0], ast.Name) and any(isinstance(x, ast.Constant) and x.value == "MYLOCATION"
                                                                for x in ast.walk(s_.value))}
        for s in walk_function(fi.node):
            if isinstance(s, ast.If) and isinstance(s.test, ast.Compare) and len(s.test.ops) == 1 and \
                    isinstance(s.test.ops[0], ast.Eq) and isinstance(s.test.left, ast.Name) and \
                    s.test.left.id in locnames and const_value(s.test.comparators[0]) is not None:
                names = {x.value for b_ in s.body for x in ast.walk(b_) if isinstance(x, ast.Constant) and isinstance(x.value, str)
                         and x.value.endswith("_id")}            # the level name may be an argument of a shared helper
                for c in calls_in(s):
                    for k in prog.resolve_call(fi, c):
                        callee = prog.functions.get(k)
                        if callee is not None:
                            for x in ast.walk(callee.node):
                                if isinstance(x, ast.Constant) and isinstance(x.value, str) and x.value.endswith("_id"):
                                    names.add(x.value)
                handled[const_value(s.test.comparators[0])] = (names, fi, s)
    if not handled:
        raise AnalysisError("importer location switch not found")
    # writer: per enum member the id level it stores as MYGEOMETRYIDS
    add_var = prog.lookup_method(exp_ci, "add_variable")
    wlevels = {}
    if add_var is not None:
        for s in walk_function(add_var.node):
            if isinstance(s, ast.If) and isinstance(s.test, ast.Compare) and "VariableLocations" in norm_text(s.test):
                member = norm_text(s.test.comparators[0]).split(".")[-1]
                def levels(block):
                    out = set()
                    for b in block:
                        for c in calls_in(b):
                            if isinstance(c.func, ast.Attribute) and c.func.attr == "create_dataset" and \
                                    const_value(c.args[0]) == "MYGEOMETRYIDS":
                                d = kwarg(c, "data")
                                nm = set(names_in(d))
                                for _ in range(3):      # follow local definitions transitively
                                    for b2 in block:
                                        if isinstance(b2, ast.Assign) and any(isinstance(t, ast.Name) and t.id in nm
                                                                              for t in b2.targets):
                                            nm |= set(names_in(b2.value))
                                for b2 in block:
                                    if isinstance(b2, ast.Assign) and any(isinstance(t, ast.Name) and t.id in nm
                                                                          for t in b2.targets):
                                        for x in ast.walk(b2.value):
                                            if isinstance(x, ast.Constant) and isinstance(x.value, str) and \
                                                    x.value.endswith("_id"):
                                                out.add(x.value)
                    return out
                wlevels[member] = levels(s.body)
                for other in enum:
                    if other != member:
                        wlevels.setdefault(other, levels(s.orelse))
    for member, val in enum.items():
        if val not in handled:
            ctx.violated("pylife.vmap.vmap_structures:VariableLocations", None,
                         "location %s=%r can be written but the importer's location switch does not handle it" %
                         (member, val), text="%s = %r" % (member, val))
            continue
        rn, fi, s = handled[val]
        wl = wlevels.get(member, set())
        if wl and not rn:
            raise AnalysisError("location %s: the id level the importer gives the stored ids was not found" % member)
        if wl and not (wl & rn):
            ctx.violated(fi, s, "location %s: exporter stores %s ids, importer interprets them as %s" %
                         (member, sorted(wl), sorted(rn)))
        else:
            ctx.holds(fi, s, "location %s=%r handled; id level %s" % (member, val, sorted(wl & rn) or sorted(rn)))


def _module_string_tuple(fi, name):
    """a module-level name bound once to a literal list/tuple of strings"""
    ds = [st.value for st in fi.module.tree.body if isinstance(st, ast.Assign) and
          any(isinstance(t, ast.Name) and t.id == name for t in st.targets)]
    if len(ds) == 1 and isinstance(ds[0], (ast.List, ast.Tuple)) and ds[0].elts and \
            all(isinstance(x, ast.Constant) and isinstance(x.value, str) for x in ds[0].elts):
        return [x.value for x in ds[0].elts]
    return None


def _literal_columns(e):
    """column-name lists inside a data expression: x[['a','b']] -> ['a','b']"""
    for n in ast.walk(e):
        if isinstance(n, ast.Subscript) and isinstance(n.slice, ast.List) and n.slice.elts and \
                all(isinstance(x, ast.Constant) and isinstance(x.value, str) for x in n.slice.elts):
            return [x.value for x in n.slice.elts]
    return None


def _bytes_only_reads(fn_node):
    """`<attrs[K]>.decode(...)` sites (directly or through a single local): [(call, key, guarded?)] - guarded when an enclosing
    conditional tests isinstance(<receiver>, bytes ...)"""
    out = []
    defs = {}
    for st in ast.walk(fn_node):
        if isinstance(st, ast.Assign) and len(st.targets) == 1 and isinstance(st.targets[0], ast.Name):
            defs.setdefault(st.targets[0].id, []).append(st.value)
    for c in ast.walk(fn_node):
        if not (isinstance(c, ast.Call) and isinstance(c.func, ast.Attribute) and c.func.attr == "decode"):
            continue
        recv = c.func.value
        src = recv
        if isinstance(recv, ast.Name) and len(defs.get(recv.id, [])) == 1:
            src = defs[recv.id][0]
        key = None
        for n in ast.walk(src):
            if isinstance(n, ast.Subscript) and isinstance(n.value, ast.Attribute) and n.value.attr == "attrs":
                key = const_value(n.slice)
        if key is None:
            continue
        guarded = False
        n = c
        while getattr(n, "_parent", None) is not None and n is not fn_node:
            par = n._parent
            test = par.test if isinstance(par, (ast.If, ast.IfExp)) else None
            if test is not None and n is not test:
                for t in ast.walk(test):
                    if isinstance(t, ast.Call) and call_name(t) == "isinstance" and len(t.args) == 2 and \
                            norm_text(t.args[0]) == norm_text(recv) and "bytes" in norm_text(t.args[1]):
                        in_body = (n is par.body) if isinstance(par, ast.IfExp) else any(n is x for x in par.body)
                        negated = isinstance(test, ast.UnaryOp) and isinstance(test.op, ast.Not)
                        guarded = in_body != negated
            n = par
        out.append((c, key, guarded))
    return out


def _check_string_attrs(ctx, prog, W, imp_ci):
    """R-C20-10: h5py returns a string attribute as `bytes` only when it was stored with a fixed length (numpy bytes_); what the
    exporter creates from a Python bytes / str value is a variable-length string and comes back as `str`.  A bytes-only method
    (.decode) applied unconditionally to such an attribute raises for every file the exporter wrote."""
    ctx.rule("R-C20-10", floor=1, what="string attributes the exporter writes as Python bytes/str are not decoded unconditionally by the importer")
    import ast as _a
    from ..frontend import set_parents as _sp
    ex = _sp(_a.parse("def f(g):\n    a = g.attrs['N'].decode('UTF-8')\n    n = g.attrs['N']\n"
                      "    b = n.decode('UTF-8') if isinstance(n, bytes) else n\n    return a, b\n")).body[0]
    if [(k, g) for _, k, g in _bytes_only_reads(ex)] != [("N", False), ("N", True)]:
        raise AnalysisError("R-C20-10 built-in example not matched")
    n = 0
    # the importer's methods and the private module-level functions next to it (a closure may have been moved there)
    fis = [defs[-1] for defs in imp_ci.methods.values()] + \
        [f_ for f_ in prog.functions.values() if f_.module is imp_ci.module and f_.cls is None and f_.parent is None]
    for fi in fis:
        for c, key, guarded in _bytes_only_reads(fi.node):
            n += 1
            wr = [r for r in W.records if r["kind"] == "write_attr" and r["key"] == key and r.get("value") is not None]
            if not wr:
                raise AnalysisError("%s: no writer of the attribute %s found in the exporter" % (fi.key, key))
            varlen = []
            for r in wr:
                v = r["value"]
                t = norm_text(v)
                if (isinstance(v, ast.Call) and isinstance(v.func, ast.Attribute) and v.func.attr == "encode") or \
                        isinstance(const_value(v), (bytes, str)) or (isinstance(v, ast.Call) and call_name(v) in ("str", "bytes")) or \
                        isinstance(v, ast.JoinedStr):
                    varlen.append(t)
            if varlen and not guarded:
                ctx.violated(fi, c, "%s decodes the attribute %s unconditionally, but the exporter writes it as %s - a variable-length "
                             "string, which h5py returns as str: reading any file written by the exporter raises AttributeError "
                             "(sets cannot be listed or used as filters)" % (fi.name, key, varlen[0]), text="decode " + str(key))
            else:
                ctx.holds(fi, c, "%s: .decode of attribute %s %s" % (fi.name, key, "only for bytes values (isinstance guard)" if guarded
                                                                  else "matches a fixed-length writer"))
    if n == 0:
        raise AnalysisError("importer: no decoded string attribute found")


def _check_widths(ctx, prog, W, R):
    # reader sites: pd.DataFrame(<dataset read>, columns=<expr>)
    imp_ci = prog.cls(IMP + ":VMAPImport")
    n = 0
    for name, defs in imp_ci.methods.items():
        fi = defs[-1]
        for c in calls_in(fi.node):
            if call_name(c) not in ("pd.DataFrame", "pandas.DataFrame"):
                continue
            cols = kwarg(c, "columns")
            data = c.args[0] if c.args else kwarg(c, "data")
            if cols is None or data is None:
                continue
            if isinstance(data, ast.Name):
                defs_ = [st.value for st in walk_function(fi.node) if isinstance(st, ast.Assign) and
                         any(isinstance(t, ast.Name) and t.id == data.id for t in st.targets)]
                if len(defs_) == 1:
                    data = defs_[0]
            paths = [r for r in R.records if r["kind"] == "read_node" and r["func"] is fi and
                     any(x is r["node"] for x in ast.walk(data))]
            if not paths:
                continue
            p = tuple(paths[-1]["path"])
            wsites = [r for r in W.records if r["kind"] == "write_dataset" and match(p, tuple(r["path"]))]
            wcols = []
            for w in wsites:
                lc = _literal_columns(w["data"]) if w.get("data") is not None else None
                if lc is not None:
                    wcols.append((lc, w))
                elif w.get("data") is not None:
                    # x[cols] with cols a local bound to literal lists only (possibly one per dimension case)
                    for n_ in ast.walk(w["data"]):
                        if isinstance(n_, ast.Subscript) and isinstance(n_.slice, ast.Name):
                            ds = [st.value for st in walk_function(w["func"].node) if isinstance(st, ast.Assign) and
                                  any(isinstance(t, ast.Name) and t.id == n_.slice.id for t in st.targets)]
                            lits = [[x.value for x in d.elts] for d in ds if isinstance(d, (ast.List, ast.Tuple)) and d.elts and
                                    all(isinstance(x, ast.Constant) and isinstance(x.value, str) for x in d.elts)]
                            mc = _module_string_tuple(w["func"], n_.slice.id) if not ds else None
                            if ds and len(lits) == len(ds):
                                wcols.extend((l_, w) for l_ in lits)
                            elif mc:
                                wcols.append((mc, w))
            if not wcols:
                continue
            rc, prefix_ok = _reader_columns(cols)
            if rc is None:
                continue
            n += 1
            for lc, w in wcols:
                good = lc == rc or (prefix_ok and rc[:len(lc)] == lc)
                if good:
                    ctx.holds(fi, c, "columns of /%s: writer %s vs reader %s%s" %
                              ("/".join(p), lc, rc, " (width taken from the data)" if prefix_ok else ""))
                else:
                    ctx.violated(fi, c, "dataset /%s is written with columns %s (%s:%d) but read with the fixed "
                                 "column list %s" % ("/".join(p), lc, w["func"].module.path, w["node"].lineno, rc))
    if n == 0:
        raise AnalysisError("no reader/writer column-list pair found")


def _reader_columns(cols):
    """-> (list, prefix_allowed)"""
    if isinstance(cols, ast.List) and all(isinstance(x, ast.Constant) for x in cols.elts):
        return [x.value for x in cols.elts], False
    if isinstance(cols, ast.Subscript) and isinstance(cols.value, ast.List) and isinstance(cols.slice, ast.Slice) \
            and cols.slice.lower is None and cols.slice.upper is not None and \
            all(isinstance(x, ast.Constant) for x in cols.value.elts):
        return [x.value for x in cols.value.elts], True
    return None, False


def _creates(prog, fi, call, depth=0):
    """Does this call create an h5 entity; returns (parent_text, name_text) if it names one."""
    f = call.func
    if isinstance(f, ast.Attribute) and f.attr in ("create_group", "create_dataset") and call.args:
        return norm_text(f.value), norm_text(call.args[0])
    if depth > 3:
        return None
    for k in prog.resolve_call(fi, call):
        callee = prog.functions.get(k)
        if callee is None or callee.module.name != EXP:
            continue
        params = [p for p in callee.params if p != "self"]
        for c2 in calls_in(callee.node):
            r = _creates(prog, callee, c2, depth + 1)
            if r is None:
                continue
            pt, nt = r
            # map callee parameter names back to the caller's argument text
            if pt in params and nt in params:
                ip, in_ = params.index(pt), params.index(nt)
                if ip < len(call.args) and in_ < len(call.args):
                    return norm_text(call.args[ip]), norm_text(call.args[in_])
            return ("?", "?")
    return None


def _check_rollback(ctx, prog, W, exp_ci):
    ctx.rule("R-C20-2", floor=4, what="entity creation is rolled back (del parent[name]; raise) on any exception; counters are committed last")
    blocks = 0
    for name, defs in exp_ci.methods.items():
        fi = defs[-1]
        for t in [n for n in walk_function(fi.node) if isinstance(n, ast.Try)]:
            # only blocks that add to an existing file (opened in append mode); creating a fresh file ('w')
            # is rolled back by removing the file
            w = t
            mode = None
            while w is not None and mode is None:
                w = getattr(w, "_parent", None)
                if isinstance(w, (ast.With, ast.AsyncWith)):
                    for it in w.items:
                        c = it.context_expr
                        if isinstance(c, ast.Call) and call_name(c) == "h5py.File":
                            m = c.args[1] if len(c.args) > 1 else kwarg(c, "mode")
                            mode = const_value(m) if m is not None else "r"
            if mode != "a":
                continue
            creating = []

            def eval_order(n):
                """calls of a statement in the order they are evaluated (receiver and arguments before the call itself)"""
                out = []
                for ch in ast.iter_child_nodes(n):
                    out.extend(eval_order(ch))
                if isinstance(n, ast.Call):
                    out.append(n)
                return out
            for s in t.body:
                for c in eval_order(s):
                    r = _creates(prog, fi, c)
                    if r is not None:
                        creating.append((c, r))
            if not creating:
                continue
            blocks += 1
            first_c, (pt, nt) = creating[0]
            hs = [h for h in t.handlers if h.type is None or norm_text(h.type) in ("Exception", "BaseException")]
            if not hs:
                ctx.violated(fi, t, "entity-creating block has no handler for Exception: a failure leaves %s[%s] behind"
                             % (pt, nt), text="try@%s" % fi.qualname)
                continue
            all_ok = True
            for h in t.handlers:        # every handler - a specific one in front of the generic one intercepts its exceptions
                dels = [d for d in ast.walk(h) if isinstance(d, ast.Delete)]
                del_ok = False
                for d in dels:
                    for tg in d.targets:
                        if isinstance(tg, ast.Subscript) and norm_text(tg.value) == pt and norm_text(tg.slice) == nt:
                            del_ok = True
                reraises = bool(h.body) and isinstance(h.body[-1], ast.Raise)
                hname = norm_text(h.type) if h.type is not None else "bare"
                if not del_ok:
                    all_ok = False
                    ctx.violated(fi, h, "handler (%s) does not delete %s[%s], the entity created in the try block" % (hname, pt, nt),
                                 text="except@%s" % fi.qualname if h is hs[0] else "except %s@%s" % (hname, fi.qualname))
                elif not reraises:
                    all_ok = False
                    ctx.violated(fi, h, "handler (%s) swallows the exception after roll-back" % hname,
                                 text="except@%s" % fi.qualname if h is hs[0] else "except %s@%s" % (hname, fi.qualname))
            if all_ok:
                ctx.holds(fi, t, "creation of %s[%s] rolled back by del + raise in %d handler(s)" % (pt, nt, len(t.handlers)))
            # commit last: counter store must not be followed by a creating call inside the try body
            _commit_last(ctx, prog, fi, t.body)
    if blocks < 4:
        raise AnalysisError("expected >= 4 roll-back blocks in the exporter, found %d" % blocks)
    # helper functions that create and count
    for name, defs in exp_ci.methods.items():
        fi = defs[-1]
        if not any(isinstance(n, ast.Try) for n in walk_function(fi.node)):
            _commit_last(ctx, prog, fi, fi.node.body)


def _commit_last(ctx, prog, fi, body):
    seq = []
    for s in walk_stmts(body):
        if isinstance(s, ast.Assign) and any(isinstance(t, ast.Subscript) and isinstance(t.value, ast.Attribute) and
                                             t.value.attr == "attrs" and const_value(t.slice) == "MYSIZE"
                                             for t in s.targets):
            seq.append(("count", s))
        elif isinstance(s, (ast.Expr, ast.Assign)):
            for c in calls_in(s):
                if _creates(prog, fi, c) is not None:
                    seq.append(("create", s))
                    break
    counts = [i for i, (k, _) in enumerate(seq) if k == "count"]
    for i in counts:
        later = [s for k, s in seq[i + 1:] if k == "create"]
        if later:
            ctx.violated(fi, seq[i][1], "size counter is updated before the creating call at line %d: a failure there "
                         "leaves the counter ahead of the content" % later[0].lineno)
        else:
            ctx.holds(fi, seq[i][1], "size counter committed after the last creating call")


NARROW = ("np.int32", "numpy.int32", "'<i4'", "'int32'", "np.int16", "'<i2'")


def _check_narrowing(ctx, prog, W, exp_ci):
    ctx.rule("R-C20-3", floor=4, what="identifier data stored with a fixed 32-bit type is range-guarded")
    sites = []
    for r in W.records:
        if r["kind"] != "write_dataset":
            continue
        dt = r.get("dtype")
        if dt is None:
            continue
        narrow_fields = []
        if norm_text(dt) in NARROW:
            narrow_fields = [None]
        elif r.get("fields"):
            names, formats = r["fields"]
            for nm, fm in zip(names, formats or []):
                t = norm_text(fm)
                if ("Identifier" in nm or "Connectivity" in nm) and ("<i4" in t or "int32" in t):
                    narrow_fields.append(nm)
        if not narrow_fields:
            continue
        path = tuple(r["path"])
        if path and path[0] == "?":
            continue
        if not any("ID" in c.upper() or "SET" in c.upper() or "ELEMENTS" in c.upper() for c in path[-1:]):
            continue
        sites.append((r, narrow_fields))
    if len(sites) < 4:
        raise AnalysisError("expected >= 4 identifier datasets with a 32-bit type, found %d" % len(sites))
    for r, fields in sites:
        fi, call = r["func"], r["node"]
        data = r.get("data")
        guarded = _range_guarded(prog, fi, call, data)
        what = "/%s%s" % ("/".join(r["path"]), "" if fields == [None] else " fields %s" % fields)
        if guarded:
            ctx.holds(fi, call, "identifier dataset %s is range-checked before the 32-bit store" % what)
        elif _shortcut_reason(prog, fi, call, data):
            g_, st_, cond_ = _shortcut_reason(prog, fi, call, data)
            ctx.violated(g_, st_, "%s returns the identifiers without the range check when %s: that does not establish a signed type "
                         "of at most 32 bits (uint32 ids above 2**31-1 pass), so %s can store altered ids" %
                         (g_.name, cond_ or "a path skips it", what), text="range check skipped in %s" % g_.name)
        else:
            ctx.violated(fi, call, "identifiers are stored in %s as 32-bit integers without a range check: ids beyond "
                         "2**31-1 are silently altered" % what,
                         text="create_dataset(%s, data=%s) in %s" % (norm_text(call.args[0]),
                                                                      norm_text(data) if data is not None else "?",
                                                                      fi.qualname))


def _range_guarded(prog, fi, call, data):
    """The data expression (or a local it is built from) passes through a function of the exporter module whose body
    compares against the int32 limits (np.iinfo(np.int32) / 2**31) and raises."""
    if data is None:
        return False
    cands = list(calls_in(data))
    names = names_in(data)
    for s in walk_function(fi.node):
        if isinstance(s, ast.Assign) and any(isinstance(t, ast.Name) and t.id in names for t in s.targets):
            cands += calls_in(s.value)
        if isinstance(s, ast.Expr) and isinstance(s.value, ast.Call):
            if names & names_in(s.value):
                cands.append(s.value)
            # guard applied to a source the data is built from
    srcs = set(names)
    for _ in range(6):                  # transitive closure over the locals the data is built from
        before = len(srcs)
        for s in walk_function(fi.node):
            if isinstance(s, ast.Assign) and any(isinstance(t, ast.Name) and t.id in srcs for t in s.targets):
                srcs |= names_in(s.value)
        if len(srcs) == before:
            break
    for s in walk_function(fi.node):
        if isinstance(s, ast.Expr) and isinstance(s.value, ast.Call) and (srcs & names_in(s.value)):
            cands.append(s.value)
    for c in cands:
        for k in prog.resolve_call(fi, c):
            callee = prog.functions.get(k)
            if callee is None:
                continue
            if _is_range_check(callee):
                return True
    return False


def _shortcut_reason(prog, fi, call, data):
    """(guard function, return statement, condition) if the data goes through a range check that has an unsound shortcut"""
    if data is None:
        return None
    cands = list(calls_in(data))
    names = names_in(data)
    for s in walk_function(fi.node):
        if isinstance(s, ast.Assign) and any(isinstance(t, ast.Name) and t.id in names for t in s.targets):
            cands += calls_in(s.value)
    for c in cands:
        for k in prog.resolve_call(fi, c):
            callee = prog.functions.get(k)
            if callee is not None and any(isinstance(n, ast.Call) and call_name(n) in ("np.iinfo", "numpy.iinfo")
                                          for n in walk_function(callee.node)):
                sc = _unsound_shortcuts(callee)
                if sc:
                    return callee, sc[0][0], sc[0][1]
    return None


def _is_range_check(fi):
    txt_limits = False
    raises = False
    for n in walk_function(fi.node):
        if isinstance(n, ast.Call) and call_name(n) in ("np.iinfo", "numpy.iinfo"):
            txt_limits = True
        if isinstance(n, ast.BinOp) and isinstance(n.op, ast.Pow) and const_value(n.left) == 2 and \
                const_value(n.right) in (31, 32):
            txt_limits = True
        if isinstance(n, ast.Constant) and n.value in (2147483647, -2147483648, 2147483648):
            txt_limits = True
        if isinstance(n, ast.Raise):
            raises = True
    return txt_limits and raises and not _unsound_shortcuts(fi)


def _unsound_shortcuts(fi):
    """returns of a range-checking function that are reached without passing the comparison with the limits, under a condition
    that does not establish a SIGNED type of at most 32 bits (an unsigned 32-bit id above 2**31-1 does not fit)"""
    from ..cfg import CFG
    cfg = CFG(fi.node)
    checks = set()
    for st in walk_function(fi.node):
        if isinstance(st, ast.If) and any(isinstance(x, ast.Raise) for b in st.body for x in ast.walk(b)) and \
                any(isinstance(x, ast.Compare) for x in ast.walk(st.test)):
            checks.add(cfg.node(st))
    out = []
    for st in walk_function(fi.node):
        if isinstance(st, ast.Return):
            n = cfg.node(st)
            if checks and cfg.must_pass(n, checks):
                continue
            guard = getattr(st, "_parent", None)
            cond = norm_text(guard.test) if isinstance(guard, ast.If) else ""
            signed_only = ("signedinteger" in cond or "kind == 'i'" in cond or "== np.int32" in cond or "== np.int16" in cond) and \
                "'iu'" not in cond and "'ui'" not in cond and "unsignedinteger" not in cond and "np.integer" not in cond
            if not signed_only:
                out.append((st, cond))
    return out


# =========================================================================== variants

def variants():
    out = []

    def set_name_body(src):
        def f_(tree):
            f = find_func(tree, "VMAPImport._geometry_sets")
            inner = [n for n in f.body if isinstance(n, ast.FunctionDef)]
            if not inner:
                return False
            inner[0].body = ast.parse(src).body
            return True
        return f_
    out.append(witness("set name decoded unconditionally", IMP_PATH,
                       set_name_body("return gset.attrs['MYSETNAME'].decode('UTF-8')\n"), "R-C20-10"))
    out.append(twin("set name decoded in an if statement", IMP_PATH,
                    set_name_body("label = gset.attrs['MYSETNAME']\nif isinstance(label, bytes):\n"
                                  "    return label.decode('UTF-8')\nreturn label\n")))

    def averaged_nodes(tree):
        f = find_func(tree, "VMAPExport.add_variable")
        for c in calls_in(f):
            if isinstance(c.func, ast.Attribute) and c.func.attr == "first" and isinstance(c.func.value, ast.Call) and \
                    isinstance(c.func.value.func, ast.Attribute) and c.func.value.func.attr == "groupby":
                c.func.attr = "mean"
                return True
        return False
    out.append(witness("nodal values averaged over the rows of a node", EXP_PATH, averaged_nodes, "R-C20-11"))

    def last_of_node(tree):
        f = find_func(tree, "VMAPExport.add_variable")
        for c in calls_in(f):
            if isinstance(c.func, ast.Attribute) and c.func.attr == "first" and isinstance(c.func.value, ast.Call) and \
                    isinstance(c.func.value.func, ast.Attribute) and c.func.value.func.attr == "groupby":
                c.func.attr = "last"
                return True
        return False
    out.append(twin("nodal values taken from the last row of a node", EXP_PATH, last_of_node))

    def membership(unique):
        def f_(tree):
            f = find_func(tree, "VMAPImport.filter_node_set")
            for st in f.body:
                if isinstance(st, ast.Assign) and isinstance(st.value, ast.Subscript):
                    st.value.slice = parse_expr("np.isin(self._mesh.index.get_level_values('node_id'), node_set_ids%s)" %
                                                (", assume_unique=True" if unique else ""))
                    return True
            return False
        return f_
    out.append(witness("node filter through np.isin(..., assume_unique=True)", IMP_PATH, membership(True), "R-C20-12"))
    out.append(twin("node filter through np.isin", IMP_PATH, membership(False)))

    def pack_connectivity(tree):
        f = find_func(tree, "VMAPExport._create_elements_dataset")
        for st in f.body:
            if isinstance(st, ast.Assign) and isinstance(st.targets[0], ast.Name) and isinstance(st.value, ast.Name) and \
                    st.value.id == "node_ids_list":
                st.value = parse_expr("np.asarray(node_ids_list)")
                return True
        return False
    out.append(witness("per-element node id arrays packed with np.asarray", EXP_PATH, pack_connectivity, "R-C20-9"))

    def dimension_sticky(tree):
        f = find_func(tree, "VMAPExport._create_points_datasets")
        for i, st in enumerate(f.body):
            if isinstance(st, ast.Assign) and is_self_attr(st.targets[0], "_dimension") and const_value(st.value) == 2:
                del f.body[i]
                return True
        return False
    out.append(witness("dimension is only ever raised, never reset per geometry", EXP_PATH, dimension_sticky, "R-C20-8"))

    def merge_swapped(tree):
        f = find_func(tree, "VMAPImport._var_element_nodal_index")
        for c in calls_in(f):
            if isinstance(c.func, ast.Attribute) and c.func.attr == "merge" and isinstance(c.func.value, ast.Name) and \
                    c.args and isinstance(c.args[0], ast.Name):
                c.func.value, c.args[0] = c.args[0], c.func.value
                return True
        return False
    out.append(witness("element-nodal index merged with the geometry index on the left", IMP_PATH, merge_swapped, "R-C20-7"))

    def dim_allclose(tree):
        f = find_func(tree, "VMAPExport._create_points_datasets")
        for n in ast.walk(f):
            if isinstance(n, ast.If) and "z[0]" in ast.unparse(n.test):
                n.test = parse_expr("not np.allclose(z, z[0])")
                return True
        return False
    out.append(witness("3-D detection with np.allclose", EXP_PATH, dim_allclose, "R-C20-7"))

    def no_regroup(tree):
        f = find_func(tree, "VMAPExport.add_variable")
        for n in ast.walk(f):
            if isinstance(n, ast.Assign) and isinstance(n.targets[0], ast.Name) and isinstance(n.value, ast.Subscript) and \
                    "argsort" in ast.unparse(n.value):
                return replace_node(n, None)
        return False
    out.append(witness("element-nodal values written in raw row order", EXP_PATH, no_regroup, "R-C20-5"))

    def rank_of_other_ids(tree):
        f = find_func(tree, "VMAPExport.add_variable")
        for n in ast.walk(f):
            if isinstance(n, ast.Call) and call_name(n) == "pd.Series" and any(k.arg == "index" for k in n.keywords) and \
                    "arange" in ast.unparse(n):
                for k in n.keywords:
                    if k.arg == "index":
                        k.value = parse_expr("np.unique(element_index)")
                return True
        return False
    out.append(witness("rows regrouped by the rank in another id array than the one written", EXP_PATH, rank_of_other_ids, "R-C20-5"))

    def sorted_ids_consistent(tree):
        f = find_func(tree, "VMAPExport.add_variable")
        for n in ast.walk(f):
            if isinstance(n, ast.Assign) and isinstance(n.targets[0], ast.Name) and "drop_duplicates" in ast.unparse(n.value):
                n.value = parse_expr("np.unique(element_index)")
                return True
        return False
    out.append(twin("element ids sorted, rows regrouped by their rank in the same array", EXP_PATH, sorted_ids_consistent))

    def unkeyed_cache(tree):
        f = find_func(tree, "VMAPImport._mesh_index")
        r = [i for i, st in enumerate(f.body) if isinstance(st, ast.Return)][-1]
        val = ast.unparse(f.body[r].value)
        f.body[r:r + 1] = [parse_stmt("self._mesh_index_cache = " + val), parse_stmt("return self._mesh_index_cache")]
        f.body.insert(1, parse_stmt("if getattr(self, '_mesh_index_cache', None) is not None:\n    return self._mesh_index_cache"))
        return True
    out.append(witness("mesh index cached without regard to the geometry", IMP_PATH, unkeyed_cache, "R-C20-6"))

    def settype_12(tree):
        a = find_func(tree, "VMAPExport.add_node_set")
        b = find_func(tree, "VMAPExport.add_element_set")
        for f, v in ((a, 1), (b, 2)):
            for c in calls_in(f, attr="_create_geometry_set"):
                c.args[1] = ast.Constant(v)
        return True
    out.append(witness("exporter writes MYSETTYPE 1/2", EXP_PATH, settype_12, "R-C20-1"))

    def rename_dataset(tree):
        f = find_func(tree, "VMAPExport._create_points_datasets")
        for c in calls_in(f, attr="create_dataset"):
            if const_value(c.args[0]) == "MYIDENTIFIERS":
                c.args[0] = ast.Constant("MYIDENTIFIER")
                return True
        return False
    out.append(witness("dataset renamed on the writer side only", EXP_PATH, rename_dataset, "R-C20-1"))

    def rename_attr_reader(tree):
        f = find_func(tree, "VMAPImport._variable")
        for n in ast.walk(f):
            if isinstance(n, ast.Constant) and n.value == "MYDIMENSION":
                n.value = "MYDIMENSIONS"
                return True
        return False
    out.append(witness("reader asks for another attribute", IMP_PATH, rename_attr_reader, "R-C20-1"))

    def field_rename(tree):
        f = find_func(tree, "VMAPExport._create_elements_dataset")
        for n in ast.walk(f):
            if isinstance(n, ast.Constant) and n.value == "myConnectivity":
                n.value = "myConnectivities"
                return True
        return False
    out.append(witness("compound field renamed on the writer side", EXP_PATH, field_rename, "R-C20-1"))

    def new_location(tree):
        for n in tree.body:
            if isinstance(n, ast.ClassDef) and n.name == "VariableLocations":
                n.body.append(parse_stmt("ELEMENT = 4"))
                return True
        return False
    out.append(witness("enum member the importer does not handle", "src/pylife/vmap/vmap_structures.py",
                       new_location, "R-C20-1"))

    def loc_swap(tree):
        f = find_func(tree, "VMAPImport._make_index")
        for n in ast.walk(f):
            if isinstance(n, ast.Compare) and const_value(n.comparators[0]) == 2:
                n.comparators[0] = ast.Constant(6)
            elif isinstance(n, ast.Compare) and const_value(n.comparators[0]) == 6:
                n.comparators[0] = ast.Constant(2)
        return True
    out.append(witness("importer swaps NODE and ELEMENT_NODAL codes", IMP_PATH, loc_swap, "R-C20-1"))

    def width_fixed(tree):
        f = find_func(tree, "VMAPImport.nodes")
        for c in calls_in(f, name="pd.DataFrame"):
            for k in c.keywords:
                if k.arg == "columns":
                    k.value = parse_expr("['x', 'y', 'z']")
                    return True
        return False
    out.append(witness("importer assumes three coordinate columns", IMP_PATH, width_fixed, "R-C20-1"))

    def no_del(name):
        def edit(tree):
            f = find_func(tree, "VMAPExport." + name)
            for t in ast.walk(f):
                if isinstance(t, ast.Try):
                    for h in t.handlers:
                        for d in list(h.body):
                            if isinstance(d, ast.Delete):
                                h.body.remove(d)
                                return True
            return False
        return edit
    for nm in ("add_geometry", "add_variable", "_create_geometry_set", "_create_system_dataset"):
        out.append(witness("handler of %s no longer deletes" % nm, EXP_PATH, no_del(nm), "R-C20-2", nm))

    def wrong_del(tree):
        f = find_func(tree, "VMAPExport.add_variable")
        for d in ast.walk(f):
            if isinstance(d, ast.Delete):
                d.targets[0].slice = ast.Name(id="geometry_name", ctx=ast.Load())
                return True
        return False
    out.append(witness("handler deletes another name", EXP_PATH, wrong_del, "R-C20-2", "add_variable"))

    def counter_first(tree):
        f = find_func(tree, "VMAPExport._create_geometry_set")
        t = [n for n in ast.walk(f) if isinstance(n, ast.Try)][-1]
        cnt = [s for s in t.body if isinstance(s, ast.Assign) and isinstance(s.targets[0], ast.Subscript)]
        if not cnt:
            return False
        t.body.remove(cnt[0])
        t.body.insert(2, cnt[0])
        return True
    out.append(witness("counter incremented before create_dataset", EXP_PATH, counter_first, "R-C20-2"))

    def swallow(tree):
        f = find_func(tree, "VMAPExport._create_system_dataset")
        for t in ast.walk(f):
            if isinstance(t, ast.Try):
                t.handlers[0].body = [s for s in t.handlers[0].body if not isinstance(s, ast.Raise)]
                return True
        return False
    out.append(witness("handler swallows the exception", EXP_PATH, swallow, "R-C20-2"))

    def unguard(tree):
        f = find_func(tree, "VMAPExport._create_points_datasets")
        for c in calls_in(f):
            if isinstance(c.func, ast.Attribute) and c.func.attr == "_checked_int32" or call_name(c) == "_checked_int32":
                return replace_node(c, c.args[0])
        return False
    out.append(witness("range check removed at one identifier dataset", EXP_PATH, unguard, "R-C20-3"))

    def append_mode(tree):
        f = find_func(tree, "VMAPImport.__init__")
        for c in calls_in(f, name="h5py.File"):
            c.args[1] = ast.Constant("a")
            return True
        return False
    out.append(witness("importer opens in append mode", IMP_PATH, append_mode, "R-C20-4"))

    def importer_writes(tree):
        f = find_func(tree, "VMAPImport.make_mesh")
        f.body.insert(0, parse_stmt("self._file['/VMAP/GEOMETRY'].attrs['SEEN'] = 1"))
        return True
    out.append(witness("importer stores an attribute", IMP_PATH, importer_writes, "R-C20-4"))

    # twins
    def path_concat(tree):
        f = find_func(tree, "VMAPImport._node_index")
        for n in ast.walk(f):
            if isinstance(n, ast.BinOp) and isinstance(n.op, ast.Mod):
                new = parse_expr("'/VMAP/GEOMETRY/' + geometry + '/POINTS/MYIDENTIFIERS'")
                return replace_node(n, new)
        return False
    out.append(twin("path by concatenation instead of formatting", IMP_PATH, path_concat))

    def rename_locals(tree):
        f = find_func(tree, "VMAPExport._create_geometry_set")
        for n in ast.walk(f):
            if isinstance(n, ast.Name) and n.id == "geometry_set_group":
                n.id = "gsg"
        return True
    out.append(twin("rename locals in a roll-back block", EXP_PATH, rename_locals))

    def handler_log(tree):
        f = find_func(tree, "VMAPExport.add_geometry")
        for t in ast.walk(f):
            if isinstance(t, ast.Try):
                t.handlers[0].body.insert(0, parse_stmt("msg = str(e)"))
                return True
        return False
    out.append(twin("extra statement in handler", EXP_PATH, handler_log))
    return out
