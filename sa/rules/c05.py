"""C05 — HCM stress-strain bookkeeping (structural clauses)."""
from __future__ import annotations

import ast

from ..astutil import (call_name, calls_in, const_value, find_func, is_self_attr, names_in, parse_expr, parse_stmt,
                       replace_node)
from ..astutil import inline_single_defs
from ..cfg import CFG
from ..frontend import AnalysisError, walk_function, walk_stmts
from ..nf import RF, to_nf, NFUnsupported
from ..report import norm_text
from ..witness import witness, twin

LEVEL = "other"
D = "pylife.stress.rainflow.fkm_nonlinear:FKMNonlinearDetector."
REC = "pylife.stress.rainflow.recorders:FKMNonlinearRecorder"
EXPLANATION = (
    "Static decision of the wiring behind C05 (equality with an independent HCM implementation is numerical and not decided). "
    "R-C05-1 case table on the call graph: a)i -> secondary branch to the mirrored previous load AND primary branch to the "
    "current load; a)ii -> secondary from the last residual; b -> primary; c)i -> secondary from the newer residual; c)ii "
    "records and then either keeps closing (Memory 2, no new point) or continues on the primary branch (Memory 1); the guards "
    "iz == ir / iz < ir select the handlers. R-C05-2: the secondary routine forms current - previous load, calls the law with "
    "that difference and adds stress and strain increments to the same previous point; the primary routine calls stress(load) "
    "then strain(stress, load). R-C05-3: each recording handler extends all ten value/flag lists by exactly one entry and "
    "returns them in the order they were unpacked. R-C05-4: derived columns S_a, S_m, eps_a, eps_m, R equal their definitions "
    "in normal form with the zero-mean override 0, 0, -1. R-C05-5: the single- and multi-point branches of collective map "
    "every shared column to the same source (debug_output is single-point only). R-C05-6: the running strain maximum is "
    "updated only on the load-increase branch, the minimum on the other, both against the current point's strain.")
EXPLANATION += (' R-C05-7: visited strains are one list split at a counter; every append is followed by `if run_index == 1: counter += 1`, the counter changes nowhere else, the accessors return [:counter] and [counter:]. R-C05-8: a decision taken on the first assessment point and applied to all points compares loads or sample positions only (proportional histories order loads alike at every point); any first-point comparison of stresses or strains is a violation - they are nonlinear in the load factor, and with a binned law even the two ends of one branch can tie at one point and differ at another. R-C05-9: chunk-relative positions (global position minus head index before the chunk); the repair of a turning point lying in the carried tail is guarded by a complete sign test (< 0), and the stored sample is the last load step of the chunk.')
EXPLANATION += (' R-C05-10: the HCM case decisions compare loads and load ranges exactly up to a fixed absolute round-off guard (a literal <= 1e-9); relative tolerances (np.isclose, rounding) in a decision are violations.')
EXPLANATION += (' R-C05-14 (shared with R-C04-9): no HCM decision is reduced over the assessment points with all()/any().')
EXPLANATION += (' R-C05-13: the representative load history of a batch is never taken by striding over the rows of the incoming samples (built-in positive example).')
EXPLANATION += (' R-C05-11: nothing cached on the FKM-nonlinear recorder or detector survives a later recording call (memo rule).')
EXPLANATION += (' R-C05-12: the per-point look-up tables of the binned law keep the row order they were built in (shared with R-C07-8).')
EXPLANATION += (' R-C05-15 (helper shared with the C07 rules): every class search of the binned law the detector evaluates is made with the absolute load itself - no offset, tolerance, rounding or scaling on the search key.')
EXPLANATION += (' R-C05-16: with per-point look-up tables of the binned law the class of every point is searched in that point\'s own table; a search with the first point\'s load whose result selects the rows of all points is reported (open known finding: four look-up methods).')
EXPLANATION += (' R-C05-17 (shared with R-C04-10): the representative assessment point is the first stored row everywhere in the detector module (no first-after-sort).')
EXPLANATION += (' R-C05-18 (shared state-family rules, sa/statefam.py; who-may-write): the private stress / strain / load attributes of an HCM point are assigned only by methods of FKMNonlinearDetector (in which the point class is nested), by the point itself, or on a point created in the same function; the history holds the objects that are still open residuals.')
EXPLANATION += (" R-C05-19: the rule R-C10-12 evaluated for this property (no method of FKMNonlinearDetector re-orders pandas data by labels or values).")
ASSUMPTIONS = ["pd.concat([a, b]) appends b after a"]

LISTS = ["_loads_min", "_loads_max", "_S_min", "_S_max", "_epsilon_min", "_epsilon_max", "_epsilon_min_LF",
         "_epsilon_max_LF", "_is_closed_hysteresis", "_is_zero_mean_stress_and_strain"]


def run(ctx):
    for r in (_r1, _r2, _r3, _r4, _r5, _r6, _r7, _r8, _r9, _r10, _r11, _r12, _r13, _r14, _r15, _r16, _r17, _r18, _r19):
        ctx.attempt(r)


def _r19(ctx):
    """R-C05-19 (the rule R-C10-12 evaluated for this property): 'assessing several points at once gives every point the values it gets
    alone' - the detector pairs the rows of a load step by position with per-point state carried between the passes (representative
    point, held-back sample, residual points); no method of the detector re-orders pandas data by labels."""
    from .c10 import label_reorderings
    prog = ctx.prog
    ctx.rule("R-C05-19", floor=1, what="the FKM nonlinear detector does not re-order the load sequence by its labels (shared with R-C10-12)")
    ci = prog.cls("pylife.stress.rainflow.fkm_nonlinear:FKMNonlinearDetector")
    hits = 0
    for name, defs in sorted(ci.methods.items()):
        fi = defs[-1]
        for c, text in label_reorderings(fi.node):
            hits += 1
            ctx.violated(fi, c, "FKMNonlinearDetector.%s re-orders pandas data by labels (%s): state carried between the passes and the per-point "
                         "tables are paired with the rows of a load step by position" % (name, text), text="label re-ordering in " + name)
    if not hits:
        ctx.holds(ci.key, None, "%d methods of the detector: no sort_index / sort_values / reindex" % len(ci.methods))


def _r18(ctx):
    """R-C05-18 (state families, sa/statefam.py; who-may-write): the stress / strain / load of an HCM point are assigned only by
    methods of the detector (the class _HCM_Point is nested in) or on a point object created in the same function.  The points of
    the recorded history are the very objects that are still open in the residual stack: any other code that assigns their
    private attributes (a plotting helper reducing them to the first assessment point) changes what the second pass continues
    from."""
    from .. import statefam
    prog = ctx.prog
    statefam.selftest()
    ctx.rule("R-C05-18", floor=2, what="_HCM_Point state is assigned only by the detector or on freshly created points")
    mod = "pylife.stress.rainflow.fkm_nonlinear"
    owners = {"_HCM_Point": {"_stress", "_strain", "_load"}, "__nested_in__": {"_HCM_Point": "FKMNonlinearDetector"}}
    hits = statefam.foreign_private_writes(prog, mod, owners)
    for fi, st, attr, recv in hits:
        ctx.violated(fi, st, "%s assigns %s.%s: the HCM points of the history are the objects still open in the detector's residual "
                     "stack, only the detector may change them" % (fi.qualname, recv, attr), text="foreign write of %s in %s" % (attr, fi.qualname))
    n = 0
    for key, fi in sorted(prog.functions.items()):
        if fi.module.name != mod:
            continue
        w = [st for st in walk_function(fi.node) if isinstance(st, ast.Assign) and any(
            isinstance(t, ast.Attribute) and t.attr in owners["_HCM_Point"] for t in st.targets)]
        if w and not any(h[0] is fi for h in hits):
            n += 1
            ctx.holds(fi, w[0], "%s assigns HCM point state as the detector / the point itself / on a fresh point" % fi.qualname)
    if n == 0:
        raise AnalysisError("no assignment of HCM point state found")


def _strided_sample_reads(fn_node, params):
    """subscripts  <expr over the incoming samples>[a:b:step]  with a step that is not a literal 1 / -1: the rows of a multi-point
    batch are taken by position, which is the history of one point only if the rows are ordered load step by load step"""
    derived = set(params)
    for _ in range(3):
        for st in ast.walk(fn_node):
            if isinstance(st, ast.Assign) and any(isinstance(n_, ast.Name) and n_.id in derived for n_ in ast.walk(st.value)):
                for t_ in st.targets:
                    for n_ in ast.walk(t_):
                        if isinstance(n_, ast.Name):
                            derived.add(n_.id)
    out = []
    for n_ in ast.walk(fn_node):
        if isinstance(n_, ast.Subscript) and isinstance(n_.slice, ast.Slice) and n_.slice.step is not None and \
                const_value(n_.slice.step) not in (1, -1) and any(isinstance(x_, ast.Name) and x_.id in derived for x_ in ast.walk(n_.value)):
            out.append(n_)
    return out


def point_axis_decisions(fn_node):
    """branch conditions that reduce a per-point quantity (.load / .stress / .strain of an HCM point, or .values of it) with
    all()/any(): the decision then depends on every co-assessed point instead of the representative one"""
    out = []
    tests = [n_.test for n_ in ast.walk(fn_node) if isinstance(n_, (ast.If, ast.IfExp, ast.While))]
    for t_ in tests:
        for c_ in [x_ for x_ in ast.walk(t_) if isinstance(x_, ast.Call)]:
            red = (isinstance(c_.func, ast.Attribute) and c_.func.attr in ("all", "any") and not c_.args) or \
                call_name(c_) in ("np.all", "np.any", "all", "any")
            if red and any(isinstance(x_, ast.Attribute) and x_.attr in ("load", "stress", "strain", "_load", "_stress", "_strain")
                           for x_ in ast.walk(c_)):
                out.append(c_)
    return out


def r14_point_axis(ctx, rule):
    """Decisions of the HCM handlers (which of two points is the lower one, whether a hysteresis closes, ...) are taken on the
    representative load of the first assessment point only - the points are proportionally loaded by assumption.  A decision
    reduced over all points with all()/any() flips for the whole batch when one point is unloaded (0 < 0 is False) or loaded
    with the opposite sign."""
    prog = ctx.prog
    ctx.rule(rule, floor=1, what="no HCM decision is reduced over the assessment points with all()/any()")
    ci = prog.cls(D[:-1])
    n = 0
    for name, defs in ci.methods.items():
        fi = defs[-1]
        n += 1
        for c_ in point_axis_decisions(fi.node):
            ctx.violated(fi, c_, "%s decides on %s: reduced over all assessment points, so one unloaded or oppositely loaded point "
                         "changes the decision (and the recorded min/max) for every point of the batch" % (fi.name, norm_text(c_)[:90]),
                         text="point-axis decision " + fi.name)
    ex = ast.parse("def h(self, p0, p1):\n    if (p0.load.values < p1.load.values).all():\n        lo = p0\n"
                   "    if p0.load.values[0] < p1.load.values[0]:\n        lo = p0\n").body[0]
    if len(point_axis_decisions(ex)) != 1:
        raise AnalysisError("%s built-in example not matched" % rule)
    ctx.holds(ci.key, None, "no all()/any() over per-point loads, stresses or strains in a branch condition (%d methods)" % n)


def _r14(ctx):
    r14_point_axis(ctx, "R-C05-14")


def _r13(ctx):
    """R-C05-13: the representative load history of a batch (the first point's loads, one per load step) is selected through
    the index (group by load step / level values), never by striding over the rows: a batch whose rows are grouped by node
    instead of by load step would otherwise be counted on a mixture of points and steps."""
    prog = ctx.prog
    ctx.rule("R-C05-13", floor=1, what="the representative load history is selected by index level, not by row stride")
    ci = prog.cls(D[:-1])
    n = 0
    for name, defs in ci.methods.items():
        fi = defs[-1]
        params = [q for q in fi.params if q in ("samples", "load_turning_points", "turns", "signal")]
        if not params:
            continue
        n += 1
        bad = _strided_sample_reads(fi.node, params)
        for b_ in bad:
            ctx.violated(fi, b_, "%s takes every n-th row of the incoming samples (%s): that is one point's load history only for a "
                         "batch ordered load step by load step; rows grouped by node give a mixture of points and steps"
                         % (fi.name, norm_text(b_)[:80]), text="strided samples " + fi.name)
        if not bad:
            ctx.holds(fi, fi.node, "%s: no strided read of the incoming samples" % fi.name)
    ex = ast.parse("def process(self, samples):\n    n = samples.index.get_level_values('node_id').nunique()\n"
                   "    a = samples.to_numpy()[::n]\n    b = samples.to_numpy()[::-1]\n").body[0]
    if [norm_text(x_) for x_ in _strided_sample_reads(ex, ["samples"])] != ["samples.to_numpy()[::n]"]:
        raise AnalysisError("R-C05-13 built-in example not matched")
    if n == 0:
        raise AnalysisError("no detector method receiving samples found")


def _arg_role(f, a):
    """parameter name, or 'mirrored(<param>)' for a local point created at the negated load of a parameter"""
    if isinstance(a, ast.Name) and a.id in f.params:
        return a.id
    if isinstance(a, ast.Name):
        for s in f.node.body:
            if isinstance(s, ast.Assign) and isinstance(s.targets[0], ast.Name) and s.targets[0].id == a.id and \
                    isinstance(s.value, ast.Call) and "_HCM_Point" in norm_text(s.value.func):
                ld = next((k.value for k in s.value.keywords if k.arg == "load"), None)
                if isinstance(ld, ast.UnaryOp) and isinstance(ld.op, ast.USub) and isinstance(ld.operand, ast.Attribute) and \
                        ld.operand.attr == "load" and isinstance(ld.operand.value, ast.Name):
                    return "mirrored(%s)" % ld.operand.value.id
                return "point(%s)" % (norm_text(ld) if ld is not None else "?")
        return "local"
    return norm_text(a)


def _branch_calls(f):
    out = []
    for s in walk_stmts(f.node.body):
        if isinstance(s, (ast.If, ast.While, ast.For)):
            continue
        for c in calls_in(s):
            if isinstance(c.func, ast.Attribute) and is_self_attr(c.func) and c.func.attr in ("_proceed_on_primary_branch",
                                                                                                "_proceed_on_secondary_branch"):
                out.append((c.func.attr.replace("_proceed_on_", "").replace("_branch", ""), [_arg_role(f, a) for a in c.args]))
    return out


def _r1(ctx):
    prog = ctx.prog
    ctx.rule("R-C05-1", floor=6, what="HCM case table: handler -> branch routine(s); guards -> handlers")
    want = {
        "_handle_case_a_i": [("secondary", ["previous_point", "mirrored(previous_point)"]), ("primary", ["current_point"])],
        "_handle_case_a_ii": [("secondary", ["previous_point", "current_point"])],
        "_handle_case_b": [("primary", ["current_point"])],
        "_handle_case_c_i": [("secondary", ["previous_point_1", "current_point"])],
        "_handle_case_c_ii": [],
    }
    for h, w in want.items():
        f = prog.func(D + h)
        got = _branch_calls(f)
        if got == w:
            ctx.holds(f, f.node, "%s -> %s" % (h, [k for k, _ in w] or "no new point"))
        else:
            ctx.violated(f, f.node, "%s follows %s; the HCM case needs %s" % (h, got, w), text="%s %s" % (h, got))
    ps = prog.func(D + "_hcm_process_sample")
    from ._hcm import require_recognised_dispatch, Restructured, dispatch_by_model
    try:
        require_recognised_dispatch(ps)
    except Restructured:
        # another control-flow shape: case selection, previous points and the Memory 1 / 2 continuation by abstract execution
        dispatch_by_model(ctx, prog, ctx._rule, "case selection")
        return
    loop = [s for s in ps.node.body if isinstance(s, ast.While)][0]
    top = [s for s in loop.body if isinstance(s, ast.If)]
    guards = {}
    for s in top:
        hs = sorted({c.func.attr for x in ast.walk(s) for c in ([x] if isinstance(x, ast.Call) else [])
                     if isinstance(c.func, ast.Attribute) and c.func.attr.startswith("_handle_case")})
        if hs:
            guards[norm_text(s.test)] = hs
    rest = sorted({c.func.attr for s in loop.body if not isinstance(s, ast.If) for c in calls_in(s)
                   if isinstance(c.func, ast.Attribute) and c.func.attr.startswith("_handle_case")})
    tab = {"iz == ir": ["_handle_case_a_i", "_handle_case_a_ii"], "iz < ir": ["_handle_case_b"]}
    ok = all(guards.get(k) == v for k, v in tab.items()) and rest == ["_handle_case_c_ii"] and \
        any(v == ["_handle_case_c_i"] for v in guards.values())
    if ok:
        ctx.holds(ps, loop, "iz == ir -> a)i / a)ii ; iz < ir -> b ; otherwise c)i / c)ii")
    else:
        ctx.violated(ps, loop, "case selection %s (+ %s) does not match the HCM case analysis" % (guards, rest), text="case guards")
    # previous point of a) and c)i is the newest residual
    env = {}
    for s in walk_stmts(loop.body):
        if isinstance(s, ast.Assign) and isinstance(s.targets[0], ast.Name) and isinstance(s.value, ast.Subscript) and \
                is_self_attr(s.value.value, "_residuals"):
            env[s.targets[0].id] = const_value(s.value.slice)
    bad = []
    for c in calls_in(loop):
        if isinstance(c.func, ast.Attribute) and c.func.attr in ("_handle_case_a_i", "_handle_case_a_ii", "_handle_case_c_i"):
            for k in c.keywords:
                if k.arg in ("previous_point", "previous_point_1") and env.get(getattr(k.value, "id", None)) != -1:
                    bad.append((c, k))
    if bad:
        ctx.violated(ps, bad[0][0], "%s starts its secondary branch from %s, not from the newest residual" %
                     (bad[0][0].func.attr, norm_text(bad[0][1].value)))
    else:
        ctx.holds(ps, loop, "secondary branches of a) and c)i start at the newest residual")
    # Memory 1 after c)ii: primary branch ; Memory 2: continue without a new point
    tail = [s for s in loop.body if isinstance(s, ast.Assign) and isinstance(s.value, ast.Call) and
            isinstance(s.value.func, ast.Attribute) and s.value.func.attr == "_proceed_on_primary_branch"]
    mem2 = [s for s in loop.body if isinstance(s, ast.If) and any(isinstance(x, ast.Continue) for x in s.body)]
    ok = len(tail) == 1 and len(mem2) == 1 and loop.body.index(mem2[0]) < loop.body.index(tail[0]) and \
        not any(isinstance(c.func, ast.Attribute) and "proceed_on" in c.func.attr for c in calls_in(mem2[0]))
    any_tail = [c for c in calls_in(loop) if isinstance(c.func, ast.Attribute) and c.func.attr == "_proceed_on_primary_branch"]
    mem2_moves = [c for s_ in mem2 for c in calls_in(s_) if isinstance(c.func, ast.Attribute) and "proceed_on" in c.func.attr]
    if ok:
        ctx.holds(ps, tail[0], "after a closed hysteresis: Memory 2 keeps closing without a new point, Memory 1 continues on the primary branch")
    elif any_tail and not mem2_moves:
        # the continuation is there, but written in another control-flow shape (early returns instead of break / continue):
        # no culprit, so no verdict
        raise AnalysisError("_hcm_process_sample: Memory 1 / Memory 2 continuation written in a shape the rule does not model")
    else:
        ctx.violated(ps, loop, "after a closed hysteresis the Memory 1 / Memory 2 continuation is not (primary branch / no new point)",
                     text="memory 1/2")


def _unwrap(e):
    while True:
        if isinstance(e, ast.Call) and call_name(e) == "pd.Series" and e.args:
            e = e.args[0]
        elif isinstance(e, ast.Attribute) and e.attr == "values":
            e = e.value
        else:
            return e


def _point_field(prog, attr):
    """the private field a read-only property of the HCM point returns (`stress` -> `_stress`); the name itself otherwise"""
    for k_, fi_ in prog.functions.items():
        if fi_.name == attr and fi_.cls is not None and fi_.cls.name == "_HCM_Point" and fi_.is_property():
            body = [s_ for s_ in fi_.node.body if not (isinstance(s_, ast.Expr) and isinstance(s_.value, ast.Constant))]
            if len(body) == 1 and isinstance(body[0], ast.Return) and is_self_attr(body[0].value):
                return body[0].value.attr
    return attr


def _r2(ctx):
    from ..cfg import CFG
    from ..dataflow import inline_env
    from ..astutil import subst_names
    prog = ctx.prog
    ctx.rule("R-C05-2", floor=3, what="Masing increment from one base point; primary: stress(load) then strain(stress, load)")
    f = prog.func(D + "_proceed_on_secondary_branch")
    prev, cur = f.params[1], f.params[2]
    cfg = CFG(f.node)
    st = {}
    for s in f.node.body:
        if isinstance(s, ast.Assign) and isinstance(s.targets[0], ast.Attribute) and isinstance(s.targets[0].value, ast.Name) and \
                s.targets[0].value.id == cur and s.targets[0].attr in ("_stress", "_strain"):
            env = inline_env(cfg, s)
            env.pop("__ambiguous__")
            st[s.targets[0].attr] = (s, _unwrap(subst_names(s.value, env)))
    if set(st) != {"_stress", "_strain"}:
        raise AnalysisError("_proceed_on_secondary_branch: stress/strain stores of the current point not found")
    law = {"_stress": "stress_secondary_branch", "_strain": "strain_secondary_branch"}
    incs = {}
    problems = []
    for attr in ("_stress", "_strain"):
        s_, v = st[attr]
        if not (isinstance(v, ast.BinOp) and isinstance(v.op, ast.Add)):
            problems.append("%s is not previous + increment" % attr)
            continue
        parts = [_unwrap(v.left), _unwrap(v.right)]
        base = [p for p in parts if isinstance(p, ast.Attribute) and isinstance(p.value, ast.Name)]
        inc = [p for p in parts if isinstance(p, ast.Call)]
        if len(base) != 1 or len(inc) != 1:
            problems.append("%s is not previous + law increment" % attr)
            continue
        battr = _point_field(prog, base[0].attr)
        if not (base[0].value.id == prev and battr == attr):
            problems.append("%s increment is added to %s instead of %s.%s" % (attr, norm_text(base[0]), prev, attr))
        c = inc[0]
        if not (isinstance(c.func, ast.Attribute) and is_self_attr(c.func.value, "_notch_approximation_law") and c.func.attr == law[attr]):
            problems.append("%s increment comes from %s, not from the law's %s" % (attr, norm_text(c.func), law[attr]))
        incs[attr] = c
    if not problems:
        cs, ce = incs["_stress"], incs["_strain"]
        dl = _unwrap(cs.args[0]) if cs.args else None
        ok_dl = isinstance(dl, ast.BinOp) and isinstance(dl.op, ast.Sub) and norm_text(_unwrap(dl.left)) == "%s.load" % cur and \
            norm_text(_unwrap(dl.right)) == "%s.load" % prev
        if not ok_dl:
            problems.append("load increment is %s, not current.load - previous.load" % (norm_text(dl) if dl is not None else None))
        if len(ce.args) != 2 or norm_text(ce.args[0]) != norm_text(cs) or norm_text(ce.args[1]) != norm_text(cs.args[0]):
            problems.append("strain increment is not strain_secondary_branch(stress increment, load increment)")
    if problems:
        ctx.violated(f, st["_stress"][0], "secondary branch: " + "; ".join(problems), text="secondary: " + problems[0])
    else:
        ctx.holds(f, st["_stress"][0], "load increment = current - previous; stress/strain = the same previous point + law increments")
        ctx.holds(f, st["_strain"][0], "strain increment = strain_secondary_branch(stress increment, load increment)")
    g = prog.func(D + "_proceed_on_primary_branch")
    c = g.params[1]
    gcfg = CFG(g.node)
    stp = {}
    for s in g.node.body:
        if isinstance(s, ast.Assign) and isinstance(s.targets[0], ast.Attribute) and isinstance(s.targets[0].value, ast.Name) and \
                s.targets[0].value.id == c and s.targets[0].attr in ("_stress", "_strain"):
            env = inline_env(gcfg, s)
            env.pop("__ambiguous__")
            stp[s.targets[0].attr] = norm_text(_unwrap(subst_names(s.value, env)))
    want_s = "self._notch_approximation_law.stress(%s.load)" % c
    want_e = "self._notch_approximation_law.strain(%s, %s.load)" % (want_s, c)
    if stp.get("_stress") == want_s and stp.get("_strain") == want_e:
        ctx.holds(g, g.node, "primary branch: stress(load), strain(stress(load), load) stored in the point")
    else:
        ctx.violated(g, g.node, "primary branch stores stress=%s strain=%s; expected stress(load) and strain(stress, load)" %
                     (stp.get("_stress"), stp.get("_strain")), text="primary")


def _r3(ctx):
    prog = ctx.prog
    ctx.rule("R-C05-3", floor=2, what="recording handlers extend all parallel lists by exactly one and return them in order")
    from ..inline import inlined
    for h in ("_handle_case_a_i", "_handle_case_c_ii"):
        f = inlined(prog, prog.func(D + h), skip=("_proceed_on_primary_branch", "_proceed_on_secondary_branch"))
        unp = [s for s in f.node.body if isinstance(s, ast.Assign) and isinstance(s.targets[0], (ast.List, ast.Tuple)) and
               isinstance(s.value, ast.Name) and s.value.id == "recording_lists"]
        if len(unp) != 1:
            raise AnalysisError("%s: recording lists are not unpacked" % h)
        names = [t.id for t in unp[0].targets[0].elts]
        if len(names) != len(LISTS) + 1:
            ctx.violated(f, unp[0], "%s unpacks %d recording lists, the detector keeps %d" % (h, len(names), len(LISTS) + 1),
                         text="unpack count")
            continue
        counts = {n: 0 for n in names}
        for s in f.node.body:
            if isinstance(s, ast.Assign) and isinstance(s.targets[0], ast.Name) and s.targets[0].id in counts and \
                    isinstance(s.value, ast.Call) and call_name(s.value) == "pd.concat":
                a = s.value.args[0]
                if isinstance(a, ast.List) and len(a.elts) == 2 and norm_text(a.elts[0]) == s.targets[0].id:
                    counts[s.targets[0].id] += 1
                else:
                    counts[s.targets[0].id] += 99
            elif isinstance(s, ast.Expr) and isinstance(s.value, ast.Call) and isinstance(s.value.func, ast.Attribute) and \
                    s.value.func.attr == "append" and isinstance(s.value.func.value, ast.Name) and s.value.func.value.id in counts:
                counts[s.value.func.value.id] += 1
        nested = [s for s in walk_stmts(f.node.body) if isinstance(s, (ast.If, ast.For, ast.While)) and
                  any(isinstance(n, ast.Name) and n.id in names[:10] and isinstance(n.ctx, ast.Store) for n in ast.walk(s))]
        bad = {k: v for k, v in counts.items() if k in names[:10] and v != 1}
        ret = [s for s in f.node.body if isinstance(s, ast.Return)][-1]
        rl = [n for n in ast.walk(ret.value) if isinstance(n, (ast.List, ast.Tuple)) and len(n.elts) == len(names)]
        for nm_ in [x_ for x_ in ast.walk(ret.value) if isinstance(x_, ast.Name)]:      # `lists = [...]` ... `return (point, lists)`
            ds = [s_ for s_ in f.node.body if isinstance(s_, ast.Assign) and any(isinstance(t_, ast.Name) and t_.id == nm_.id
                                                                                 for t_ in s_.targets)]
            if ds and isinstance(ds[-1].value, (ast.List, ast.Tuple)) and len(ds[-1].value.elts) == len(names):
                rl.append(ds[-1].value)
        if not rl:
            raise AnalysisError("%s: the returned recording lists were not found" % h)
        ret_ok = rl and [norm_text(e) for e in rl[0].elts] == names
        if bad or nested:
            ctx.violated(f, unp[0], "%s extends the parallel lists unevenly: %s%s" % (h, bad, " (conditionally)" if nested else ""),
                         text="%s counts %s" % (h, sorted(bad.items())))
        elif not ret_ok:
            ctx.violated(f, ret, "%s returns the recording lists in another order than it unpacked them" % h, text=h + " return order")
        else:
            ctx.holds(f, unp[0], "%s: each of the %d lists grows by one; returned in order" % (h, len(LISTS)))


def _attr_roles(prog):
    """recorder attribute -> the argument of record_values_fkm_nonlinear that is appended to it (roles, not names: the
    attributes are private and may be renamed).  -> (method, {attr: param}, [(stmt, attr, params)] that could not be resolved)"""
    r = prog.lookup_method(prog.cls(REC), "record_values_fkm_nonlinear")
    params = [p_ for p_ in r.params if p_ != "self"]
    roles, odd = {}, []
    for s in walk_function(r.node):
        tgt = None
        if isinstance(s, ast.Assign) and is_self_attr(s.targets[0]):
            tgt, val = s.targets[0].attr, s.value
        elif isinstance(s, ast.AugAssign) and is_self_attr(s.target):
            tgt, val = s.target.attr, s.value
        elif isinstance(s, ast.Expr) and isinstance(s.value, ast.Call) and isinstance(s.value.func, ast.Attribute) and \
                s.value.func.attr in ("append", "extend") and is_self_attr(s.value.func.value):
            tgt, val = s.value.func.value.attr, s.value
        if tgt is None:
            continue
        srcs = {n.id for n in ast.walk(val) if isinstance(n, ast.Name) and n.id in params}
        if not srcs:
            continue
        own = srcs - {"S_min"} if len(srcs) > 1 else srcs        # S_min also supplies the common index of the new rows
        if len(own) == 1:
            roles[tgt] = next(iter(own))
        else:
            odd.append((s, tgt, srcs))
    return r, roles, odd


def _r4(ctx):
    prog = ctx.prog
    ctx.rule("R-C05-4", floor=5, what="derived columns equal their definitions (normal form), zero-mean override 0, 0, -1")
    ci = prog.cls(REC)

    _, roles, _ = _attr_roles(prog)

    def atom(e):
        if isinstance(e, ast.Call) and call_name(e) == "np.array" and e.args and is_self_attr(e.args[0]):
            return roles.get(e.args[0].attr, "?" + e.args[0].attr)
        if isinstance(e, ast.Name):
            return e.id
        return None
    defs = {"S_a": ("(S_max - S_min)/2", None), "epsilon_a": ("(epsilon_max - epsilon_min)/2", None),
            "S_m": ("(S_min + S_max)/2", 0), "epsilon_m": ("(epsilon_min + epsilon_max)/2", 0), "R": ("S_min/S_max", -1)}
    from ..inline import inlined
    for name, (ref, override) in defs.items():
        f = inlined(prog, prog.lookup_method(ci, name))            # shared private helpers (amplitude / mean value) expanded
        r = [s for s in f.node.body if isinstance(s, ast.Return)][-1]
        env = {s.targets[0].id: s.value for s in f.node.body if isinstance(s, ast.Assign) and isinstance(s.targets[0], ast.Name)}
        v = r.value
        ov = None
        if isinstance(v, ast.Call) and call_name(v) == "np.where":
            sel, a, b = v.args
            if not is_self_attr(sel, "is_zero_mean_stress_and_strain"):
                ctx.violated(f, r, "%s: override is not keyed on the zero-mean flag" % name)
                continue
            ov, v = const_value(a), b
        if isinstance(v, ast.Name) and v.id in env:
            v = env[v.id]
            if isinstance(v, ast.Call) and call_name(v) == "np.where" and ov is None:
                sel, a, b = v.args
                if not is_self_attr(sel, "is_zero_mean_stress_and_strain"):
                    ctx.violated(f, r, "%s: override is not keyed on the zero-mean flag" % name)
                    continue
                ov, v = const_value(a), b
        v = inline_single_defs(f.node, v)
        try:
            ok = to_nf(v, atom=atom) == to_nf(parse_expr(ref)) and ov == override
        except NFUnsupported as e:
            raise AnalysisError("recorder column %s outside the fragment: %s" % (name, e))
        if ok:
            ctx.holds(f, r, "%s == %s%s" % (name, ref, "" if override is None else ", %s where zero-mean is forced" % override))
        else:
            ctx.violated(f, r, "recorder column %s is %s; expected %s%s" % (name, norm_text(r.value), ref,
                                                                          "" if override is None else " with override %s" % override))


def _col_source(e):
    t = norm_text(e)
    for suf in (".to_numpy()", ".values"):
        if t.endswith(suf):
            t = t[: -len(suf)]
    return t


def _r5(ctx):
    prog = ctx.prog
    ctx.rule("R-C05-5", floor=10, what="single- and multi-point collective map every shared column to the same source")
    f = prog.lookup_method(prog.cls(REC), "collective")
    dicts = []
    for n in ast.walk(f.node):
        if isinstance(n, ast.Call) and call_name(n) == "pd.DataFrame":
            d = next((k.value for k in n.keywords if k.arg == "data"), None)
            if isinstance(d, ast.Dict):
                dicts.append(d)
    if len(dicts) != 2:
        raise AnalysisError("collective: expected two DataFrame constructions, found %d" % len(dicts))
    maps = [{const_value(k): _col_source(v) for k, v in zip(d.keys, d.values)} for d in dicts]
    env = {}
    for s in walk_function(f.node):
        if isinstance(s, ast.Assign) and isinstance(s.targets[0], ast.Name) and is_self_attr(s.value):
            env[s.targets[0].id] = "self." + s.value.attr
    maps = [{k: env.get(v, v) for k, v in m.items()} for m in maps]
    flag_alias = {"self.is_closed_hysteresis": "self._is_closed_hysteresis",
                  "self.is_zero_mean_stress_and_strain": "self._is_zero_mean_stress_and_strain"}
    shared = sorted(set(maps[0]) & set(maps[1]))
    only = sorted(set(maps[0]) ^ set(maps[1]))
    for k in shared:
        a, b = flag_alias.get(maps[0][k], maps[0][k]), flag_alias.get(maps[1][k], maps[1][k])
        if a == b:
            ctx.holds(f, dicts[1], "column %s <- %s in both layouts" % (k, a))
        else:
            ctx.violated(f, dicts[0], "column %s comes from %s for several points but from %s for a single point" % (k, maps[0][k], maps[1][k]),
                         text="column %s" % k)
    if only != ["debug_output"]:
        ctx.violated(f, dicts[0], "columns %s exist in only one of the two layouts (only debug_output may)" % only, text="layout columns")
    r, roles, odd = _attr_roles(prog)
    derived = ("R", "S_a", "S_m", "epsilon_a", "epsilon_m")
    for k, v in maps[1].items():
        if k in derived:
            want = "self." + k
        elif k in roles.values():
            want = "self." + next(a_ for a_, p_ in roles.items() if p_ == k)
        else:
            continue
        if v != want and want not in v.replace("self._", "self._") and v != "self." + k:
            # (the attribute itself, the attribute inside a conversion such as np.array(...), or the public property of that name)
            ctx.violated(f, dicts[1], "column %s is filled from %s, expected %s" % (k, v, want), text="source %s" % k)
    # the recorder stores each argument in an attribute of its own
    twice = sorted(p_ for p_ in set(roles.values()) if list(roles.values()).count(p_) > 1)
    if odd:
        ctx.violated(r, odd[0][0], "recorder stores %s into self.%s" % (sorted(odd[0][2]), odd[0][1]))
    elif twice:
        ctx.violated(r, r.node, "recorder stores the argument %s into several attributes (%s): one of them is not the history of its "
                     "own argument" % (twice[0], sorted(a_ for a_, p_ in roles.items() if p_ == twice[0])), text="recorder roles")
    elif len(roles) < 8:
        raise AnalysisError("record_values_fkm_nonlinear: fewer than 8 stored arguments recognised")
    else:
        ctx.holds(r, r.node, "recorder appends every argument to an attribute of its own (%d attributes)" % len(roles))


def _r6(ctx):
    """decided on the symbolic state at the end of the update method: a decision table over 'the load increases'"""
    prog = ctx.prog
    ctx.rule("R-C05-6", floor=2, what="running strain extremes: max on load increase, min otherwise, against the current strain")
    from ..absint import Interp, TermDomain, term_select, term_walk
    f = prog.func(D + "_hcm_update_min_max_strain_values")
    params = [q for q in f.params if q != "self"]
    # roles, not names: the point is the parameter whose .strain is read; of the two loads, the previous one is the one whose
    # call-site argument is re-assigned from the other's after the call (`previous = current` at the end of the loop body)
    pt = next((q for q in params if any(isinstance(n, ast.Attribute) and n.attr == "strain" and isinstance(n.value, ast.Name) and
                                        n.value.id == q for n in ast.walk(f.node))), None)
    loads = [q for q in params if q != pt]
    prev = cur = None
    if pt and len(loads) == 2:
        for g_ in prog.methods_of(prog.cls(D[:-1])).values():
            for c_ in ast.walk(g_.node):
                if isinstance(c_, ast.Call) and isinstance(c_.func, ast.Attribute) and c_.func.attr == f.name and \
                        isinstance(c_.func.value, ast.Name) and c_.func.value.id == "self":
                    amap = {k_.arg: k_.value for k_ in c_.keywords if k_.arg}
                    amap.update(dict(zip(params, c_.args)))
                    a_, b_ = amap.get(loads[0]), amap.get(loads[1])
                    if isinstance(a_, ast.Name) and isinstance(b_, ast.Name):
                        for s_ in walk_stmts(g_.node.body):
                            if isinstance(s_, ast.Assign) and len(s_.targets) == 1 and isinstance(s_.targets[0], ast.Name) and \
                                    isinstance(s_.value, ast.Name):
                                if (s_.targets[0].id, s_.value.id) == (a_.id, b_.id):
                                    prev, cur = loads
                                elif (s_.targets[0].id, s_.value.id) == (b_.id, a_.id):
                                    cur, prev = loads
    if not (prev and cur and pt):
        raise AnalysisError("_hcm_update_min_max_strain_values: parameters (previous load, current load, current point) not found")
    it = Interp(prog, TermDomain(), single_exit=True, follow=lambda c_: False)
    it.run(f, [("p", q) for q in params])
    if len(it.exits) != 1:
        raise AnalysisError("_hcm_update_min_max_strain_values: several exits")
    st = it.exits[0][1]

    def mentions(t, name):
        return any(x == ("p", name) for x in term_walk(t))

    def num(t, vals):
        """numeric value of an arithmetic term over the two loads (None: not arithmetic over them)"""
        if isinstance(t, tuple) and t:
            if t[0] == "c" and isinstance(t[1], (int, float)) and not isinstance(t[1], bool):
                return float(t[1])
            if t[0] == "p" and t[1] in vals:
                return vals[t[1]]
            if t[0] == "op" and t[1] in ("+", "-", "*"):
                a_, b_ = num(t[2], vals), num(t[3], vals)
                if a_ is None or b_ is None:
                    return None
                return a_ + b_ if t[1] == "+" else (a_ - b_ if t[1] == "-" else a_ * b_)
            if t[0] == "u" and t[1] == "usub":
                a_ = num(t[2], vals)
                return None if a_ is None else -a_
        return None

    def truth_for(increasing):
        vals = {prev: 0.0, cur: 1.0} if increasing else {prev: 1.0, cur: 0.0}     # a clear increase / a clear decrease

        def truth(c):
            if isinstance(c, tuple) and len(c) == 4 and c[0] == "cmp" and c[1] in ("lt", "le") and \
                    (mentions(c[2], prev) or mentions(c[3], prev)) and (mentions(c[2], cur) or mentions(c[3], cur)):
                a_, b_ = num(c[2], vals), num(c[3], vals)
                if a_ is not None and b_ is not None:
                    return a_ < b_ if c[1] == "lt" else a_ <= b_
            return None
        return truth
    strain = ("attr", ("p", pt), "strain")

    def is_extreme(t, fn, attr):
        """Series / array of fn(old extreme, current strain)"""
        for x in term_walk(t):
            if isinstance(x, tuple) and x and x[0] == "call" and x[1] == fn and len(x[2]) == 2 and \
                    set(x[2]) == {("self", attr), strain}:
                return True
        return False
    rows = []
    for increasing in (True, False):
        mx = term_select(st.get("self._epsilon_max_LF", ("self", "_epsilon_max_LF")), truth_for(increasing))
        mn = term_select(st.get("self._epsilon_min_LF", ("self", "_epsilon_min_LF")), truth_for(increasing))
        if mx is None or mn is None:
            raise AnalysisError("_hcm_update_min_max_strain_values: the case analysis on the load direction was not understood")
        rows.append((increasing, mx, mn))
    (_, mx_i, mn_i), (_, mx_d, mn_d) = rows
    if is_extreme(mx_i, "np.maximum", "_epsilon_max_LF") and mn_i == ("self", "_epsilon_min_LF"):
        ctx.holds(f, f.node, "load increases: eps_max_LF = max(eps_max_LF, current strain), eps_min_LF unchanged")
    else:
        ctx.violated(f, f.node, "on a load increase the running strain maximum is not max(old, current strain)", text="max side")
    if is_extreme(mn_d, "np.minimum", "_epsilon_min_LF") and mx_d == ("self", "_epsilon_max_LF"):
        ctx.holds(f, f.node, "load decreases: eps_min_LF = min(eps_min_LF, current strain), eps_max_LF unchanged")
    else:
        ctx.violated(f, f.node, "on a load decrease the running strain minimum is not min(old, current strain)", text="min side")


def _r7(ctx):
    """Visited strain values: one list, split at a counter.  The counter must count exactly the appends made during pass 1:
    every append is followed by `if self._run_index == 1: counter += 1`, the counter changes nowhere else, and the two
    accessors return the slices [:counter] and [counter:] of the same list."""
    prog = ctx.prog
    ctx.rule("R-C05-7", floor=2, what="visited strains: every append is paired with a pass-1-guarded counter increment; accessors slice at the counter")
    ci = prog.cls(D[:-1])

    def slice_parts(meth):
        f = prog.lookup_method(ci, meth)
        r = [s_ for s_ in walk_stmts(f.node.body) if isinstance(s_, ast.Return)]
        if len(r) != 1:
            raise AnalysisError("%s: single return expected" % meth)
        sub = [n for n in ast.walk(r[0].value) if isinstance(n, ast.Subscript) and isinstance(n.slice, ast.Slice)]
        if len(sub) != 1 or not is_self_attr(sub[0].value):
            raise AnalysisError("%s: slice of a self attribute expected" % meth)
        sl = sub[0].slice
        return f, r[0], sub[0].value.attr, sl.lower, sl.upper
    f1, r1, l1, lo1, up1 = slice_parts("strain_values_first_run")
    f2, r2, l2, lo2, up2 = slice_parts("strain_values_second_run")
    if l1 == l2 and lo1 is None and is_self_attr(up1) and up2 is None and is_self_attr(lo2) and up1.attr == lo2.attr:
        ctx.holds(f1, r1, "first run = %s[:%s], second run = %s[%s:]: a partition of one list" % (l1, up1.attr, l2, lo2.attr))
    else:
        ctx.violated(f1, r1, "the accessors for the strains of pass 1 and pass 2 do not partition one list at one counter")
        return
    lst, cnt = l1, up1.attr
    appends, incs, other = [], [], []
    for name, fs in ci.methods.items():
        for f in fs[-1:]:
            if f.name == "__init__":
                continue
            for st in walk_stmts(f.node.body):
                if isinstance(st, ast.Expr) and isinstance(st.value, ast.Call) and isinstance(st.value.func, ast.Attribute) and \
                        is_self_attr(st.value.func.value, lst):
                    (appends if st.value.func.attr == "append" else other).append((f, st))
                elif isinstance(st, ast.AugAssign) and is_self_attr(st.target, cnt):
                    incs.append((f, st))
                elif isinstance(st, ast.Assign) and any(is_self_attr(t, cnt) or is_self_attr(t, lst) for t in st.targets):
                    other.append((f, st))
    for f, st in other:
        ctx.violated(f, st, "%s / %s is modified outside the append + guarded-increment protocol" % (lst, cnt), text=norm_text(st))

    def guarded(st):
        p = getattr(st, "_parent", None)
        if not (isinstance(p, ast.If) and not p.orelse and len(p.body) == 1 and p.body[0] is st):
            return None
        t = p.test
        if isinstance(t, ast.Compare) and len(t.ops) == 1 and isinstance(t.ops[0], ast.Eq):
            a, b = t.left, t.comparators[0]
            if (is_self_attr(a, "_run_index") and const_value(b) == 1) or (is_self_attr(b, "_run_index") and const_value(a) == 1):
                if isinstance(st.op, ast.Add) and const_value(st.value) == 1:
                    return p
        return None
    paired = set()
    for f, st in appends:
        blk = None
        par = st._parent
        for field in ("body", "orelse", "finalbody"):
            b = getattr(par, field, None)
            if isinstance(b, list) and any(x is st for x in b):
                blk = b
        i = next(k for k, x in enumerate(blk) if x is st)
        nxt = next((x for x in blk[i + 1:] if isinstance(x, ast.If) and any(g is x for g in
                    [guarded(q) for _, q in incs if guarded(q) is not None])), None)
        between = blk[i + 1: blk.index(nxt)] if nxt is not None else []
        if nxt is not None and not any(isinstance(x, (ast.Return, ast.Raise, ast.Continue, ast.Break)) for x in between) and \
                id(nxt) not in paired:
            paired.add(id(nxt))
            ctx.holds(f, st, "%s: append to %s followed by `if self._run_index == 1: %s += 1`" % (f.name, lst, cnt))
        else:
            ctx.violated(f, st, "%s: a strain value is appended to %s without the pass-1-guarded increment of %s right after it: "
                         "the split between the strains of pass 1 and pass 2 is shifted" % (f.name, lst, cnt), text="append " + f.name)
    for f, st in incs:
        g = guarded(st)
        if g is None or id(g) not in paired:
            ctx.violated(f, st, "%s: %s is incremented without the guard `self._run_index == 1` (or without a matching append): "
                         "strains visited in a later pass are counted as pass-1 values" % (f.name, cnt), text="increment " + f.name)


def _r9(ctx):
    """Several assessment points, chunked input: turning points are returned as global sample positions; subtracting the
    chunk start gives positions into this chunk's load steps, and a negative one means 'the carried tail of the previous
    chunk' (any distance back: -1, or further for a plateau).  .iloc with a negative position silently wraps to the end of
    the chunk, so the repair with the stored last sample must be guarded by the complete sign test (< 0), and the stored
    sample must be the last load step of the chunk."""
    prog = ctx.prog
    ctx.rule("R-C05-9", floor=3, what="chunk-relative positions: complete sign test guards the carried-tail repair; stored sample = last load step")
    f = prog.func(D + "process")
    nt = [c for c in calls_in(f.node) if isinstance(c.func, ast.Attribute) and is_self_attr(c.func) and c.func.attr == "_new_turns"]
    if len(nt) != 1:
        raise AnalysisError("process: _new_turns call not found")
    st = nt[0]._parent
    pos = st.targets[0].elts[0].id if isinstance(st, ast.Assign) and isinstance(st.targets[0], ast.Tuple) else None
    head = [s_ for s_ in walk_stmts(f.node.body) if isinstance(s_, ast.Assign) and isinstance(s_.targets[0], ast.Name) and
            is_self_attr(s_.value, "_head_index") and s_.lineno < st.lineno]
    rel = [s_ for s_ in walk_stmts(f.node.body) if isinstance(s_, ast.Assign) and isinstance(s_.targets[0], ast.Name) and
           isinstance(s_.value, ast.BinOp) and isinstance(s_.value.op, ast.Sub) and isinstance(s_.value.left, ast.Name) and
           s_.value.left.id == pos and isinstance(s_.value.right, ast.Name) and head and s_.value.right.id == head[0].targets[0].id]
    if not (pos and head and len(rel) == 1):
        raise AnalysisError("process: chunk-relative positions (positions - head index read before _new_turns) not found")
    r = rel[0].targets[0].id
    ctx.holds(f, rel[0], "%s = global positions - head index before this chunk: negative means carried tail" % r)
    guards = [s_ for s_ in walk_stmts(f.node.body) if isinstance(s_, ast.If) and any(isinstance(n, ast.Name) and n.id == r for n in ast.walk(s_.test))
              and any(is_self_attr(n, "_last_sample") for b in s_.body for n in ast.walk(b))]
    if len(guards) != 1:
        raise AnalysisError("process: repair of the carried-tail turning point not found")
    t = guards[0].test

    def neg_test(t):
        if not (isinstance(t, ast.Compare) and len(t.ops) == 1):
            return False
        l, op, rr = t.left, t.ops[0], t.comparators[0]

        def first(e):
            return isinstance(e, ast.Subscript) and isinstance(e.value, ast.Name) and e.value.id == r and const_value(e.slice) == 0

        def num(e):
            if isinstance(e, ast.UnaryOp) and isinstance(e.op, ast.USub):
                v = const_value(e.operand)
                return -v if isinstance(v, (int, float)) else None
            return const_value(e)
        if first(l):
            return (isinstance(op, ast.Lt) and num(rr) == 0) or (isinstance(op, ast.LtE) and num(rr) == -1)
        if first(rr):
            return (isinstance(op, ast.Gt) and num(l) == 0) or (isinstance(op, ast.GtE) and num(l) == -1)
        return False
    if neg_test(t):
        ctx.holds(f, guards[0], "carried-tail repair guarded by the complete sign test %s" % norm_text(t))
    else:
        ctx.violated(f, guards[0], "the repair of a turning point that lies in the previous chunk is guarded by %s, which does not "
                     "cover every negative position (a plateau at the chunk end gives -2, -3, ...): .iloc then wraps around and "
                     "takes the loads of an unrelated load step of this chunk" % norm_text(t), text="carried tail guard")
    ls = [s_ for s_ in walk_stmts(f.node.body) if isinstance(s_, ast.Assign) and is_self_attr(s_.targets[0], "_last_sample")]
    ok = False
    if len(ls) == 1:
        v = ls[0].value
        key = v.slice if isinstance(v, ast.Subscript) else None
        kd = [s_.value for s_ in walk_stmts(f.node.body) if isinstance(s_, ast.Assign) and isinstance(s_.targets[0], ast.Name) and
              isinstance(key, ast.Name) and s_.targets[0].id == key.id and s_.lineno < ls[0].lineno]
        if not kd and key is not None and not isinstance(key, ast.Name):
            kd = [key]                       # the key written in place: samples.loc[load_steps.iloc[-1]]
        ok = bool(kd) and isinstance(kd[-1], ast.Subscript) and isinstance(kd[-1].slice, ast.UnaryOp) and const_value(kd[-1].slice.operand) == 1 \
            and isinstance(kd[-1].value, ast.Attribute) and kd[-1].value.attr == "iloc"
    if ls:
        # the held-back sample of the PREVIOUS chunk is read (carried-tail repair) before this chunk's last sample replaces it
        cfg_ = CFG(f.node)
        succ_ = {a_: {d_ for d_, _l in lst_} for a_, lst_ in cfg_.succ.items()}
        seen_, todo_ = set(), [cfg_.node(ls[0])]
        while todo_:
            x_ = todo_.pop()
            for y_ in succ_.get(x_, ()):
                if y_ not in seen_:
                    seen_.add(y_)
                    todo_.append(y_)
        late = [st_ for st_ in walk_stmts(f.node.body) if cfg_.node(st_) in seen_ and st_ is not ls[0] and
                any(is_self_attr(n_, "_last_sample") and isinstance(n_.ctx, ast.Load) for n_ in ast.walk(st_))
                and not isinstance(st_, (ast.If, ast.For, ast.While, ast.With, ast.Try))]
        if late:
            ctx.violated(f, ls[0], "self._last_sample is overwritten with this chunk's last load step BEFORE `%s` reads it: the turning point "
                         "that lies in the previous chunk gets the loads of the current chunk's last sample" % norm_text(late[0])[:70],
                         text="last sample replaced before it is read")
        else:
            ctx.holds(f, ls[0], "the held-back sample of the previous chunk is read before it is replaced")
    if ok:
        ctx.holds(f, ls[0], "stored last sample = loads of the last load step of the chunk (.iloc[-1])")
    else:
        ctx.violated(f, ls[0] if ls else f.node, "the sample kept for the next chunk is not the last load step of this chunk", text="last sample")


def _r10(ctx, own_rule=True):
    """The HCM case decisions compare loads and load ranges exactly, up to a fixed absolute round-off guard (a literal of at
    most 1e-9 added or subtracted).  A relative tolerance (np.isclose / allclose, rounding) treats ranges that differ in the
    fifth significant digit as equal and so closes hystereses the guideline procedure leaves open (or vice versa)."""
    prog = ctx.prog
    if own_rule:
        ctx.rule("R-C05-10", floor=3, what="HCM decisions compare loads exactly up to a fixed absolute round-off guard; no relative tolerances")
    ci = prog.cls(D[:-1])
    n = 0
    for name, fs in ci.methods.items():
        f = fs[-1]
        for c in calls_in(f.node):
            fn = call_name(c) or ""
            if fn in ("np.isclose", "np.allclose", "math.isclose", "np.round", "round", "np.around", "np.rint"):
                st = c
                while not isinstance(st, ast.stmt):
                    st = st._parent
                in_test = any(x is c for t_ in ([st.test] if isinstance(st, (ast.If, ast.While)) else [st])
                              for x in ast.walk(t_))
                if in_test:
                    ctx.violated(f, st, "%s: %s decides an HCM case with a relative tolerance / rounding: load ranges that differ "
                                 "by less than the tolerance are treated as equal, so a hysteresis is closed (or a Memory case "
                                 "taken) where the guideline procedure does not" % (f.name, norm_text(c)), text=norm_text(c))
        for t in [x for x in ast.walk(f.node) if isinstance(x, (ast.If, ast.While))]:
            for cmp_ in [x for x in ast.walk(t.test) if isinstance(x, ast.Compare) and len(x.ops) == 1]:
                for side in (cmp_.left, cmp_.comparators[0]):
                    if isinstance(side, ast.BinOp) and isinstance(side.op, (ast.Add, ast.Sub)):
                        eps = const_value(side.right)
                        if isinstance(eps, float) and eps != 0:
                            n += 1
                            if abs(eps) <= 1e-9:
                                ctx.holds(f, t, "%s: %s uses the absolute round-off guard %g" % (f.name, norm_text(cmp_), eps))
                            else:
                                ctx.violated(f, t, "%s: %s uses a tolerance of %g, which is not a round-off guard" %
                                             (f.name, norm_text(cmp_), eps), text=norm_text(cmp_))
    if n == 0:
        raise AnalysisError("no guarded load comparison found in the HCM case analysis")


def _r17(ctx):
    """R-C05-17 (shared with R-C04-10): the representative assessment point is the first stored row everywhere."""
    from .c04 import representative_rule
    representative_rule(ctx, "R-C05-17")


def _r16(ctx):
    """R-C05-16 (helper `c07.first_point_searches`): with per-point look-up tables the class of a load is searched per point, in
    that point's own table - not once, with the first point's load, for all points of the batch."""
    from .c07 import first_point_searches
    ctx.rule("R-C05-16", floor=1, what="per-point look-up tables: the class of every point is searched in that point's own table")
    first_point_searches(ctx)


def _r15(ctx):
    """The stresses and strains the detector records come from the binned law: each is the table entry of the class the
    absolute load falls into.  The class must be searched with the absolute load itself (shared helper of the C07 rules)."""
    from .c07 import search_keys_exact
    ctx.rule("R-C05-15", floor=4, what="the class of a load is searched with the absolute load itself (no offset / tolerance on the key)")
    search_keys_exact(ctx)


def _r12(ctx):
    """The binned law the detector evaluates pairs the rows of its per-point tables with the points of a load step by
    position: the tables must keep the row order in which they were built (shared with R-C07-8)."""
    from .c07 import tables_fixed
    prog = ctx.prog
    ctx.rule("R-C05-12", floor=4, what="look-up tables of the binned law are never re-ordered after construction (shared with R-C07-8)")
    tables_fixed(ctx, prog.cls("pylife.materiallaws.notch_approximation_law:Binned"))


def _r11(ctx):
    """The recorded collective is a function of everything recorded so far: nothing cached on the recorder or the detector
    survives a later record_* / process call (memo rule), so reading the collective between two passes or chunks does not
    freeze it."""
    from .. import memo
    prog = ctx.prog
    ctx.rule("R-C05-11", floor=1, what="recorder/detector caches are invalidated by every recording call")
    memo.run_rule(ctx, classes=[prog.cls(REC), prog.cls(D[:-1]), prog.cls("pylife.stress.rainflow.general:AbstractRecorder")])


def _elem0(e):
    """X for X.values[0] / X.iloc[0] / X[0]; None otherwise"""
    if isinstance(e, ast.Subscript) and const_value(e.slice) == 0 and not isinstance(const_value(e.slice), bool):
        v = e.value
        if isinstance(v, ast.Attribute) and v.attr in ("values", "iloc", "iat"):
            return v.value
        return v
    return None


def _r8(ctx):
    """Several assessment points: a decision taken on the first point and applied to all points is sound only if the
    compared quantities are ordered alike at every point.  Loads are (proportional histories, positive factors).  Stresses
    and strains are nonlinear in the factor, so they are ordered alike only for the two end points of one closed branch
    (monotone branch: the lower load end has the lower stress and strain at every point).  Any other first-point
    comparison of stresses or strains - e.g. a running extreme against the current strain - is a violation; such
    selections have to be element-wise."""
    prog = ctx.prog
    ctx.rule("R-C05-8", floor=1, what="decisions taken on the first assessment point compare loads or sample positions only")
    ci = prog.cls(D[:-1])
    # per-point attributes of kind stress/strain: assigned (transitively) from .strain / .stress of a point
    ekind = set()
    changed = True
    stores = []
    for name, fs in ci.methods.items():
        f = fs[-1]
        for st in walk_stmts(f.node.body):
            if isinstance(st, ast.Assign):
                for t in st.targets:
                    if is_self_attr(t):
                        stores.append((t.attr, st.value, f))
    def kind(e, f=None, depth=0):
        ks = set()
        for n in ast.walk(e):
            if isinstance(n, ast.Attribute):
                if n.attr in ("strain", "stress"):
                    ks.add("E")
                elif n.attr in ("load", "load_representative"):
                    ks.add("L")
                elif is_self_attr(n) and n.attr in ekind:
                    ks.add("E")
            elif isinstance(n, ast.Name) and ("index" in n.id or "indices" in n.id):
                ks.add("I")
            elif isinstance(n, ast.Name) and "load" in n.id and "point" not in n.id:
                ks.add("L")
            elif isinstance(n, ast.Name) and f is not None and depth < 3:
                for st in walk_stmts(f.node.body):
                    if isinstance(st, ast.Assign) and any(isinstance(t, ast.Name) and t.id == n.id for t in st.targets):
                        if not any(isinstance(x, ast.Name) and x.id == n.id for x in ast.walk(st.value)):
                            ks |= kind(st.value, f, depth + 1)
        return ks
    while changed:
        changed = False
        for a, v, f in stores:
            if a not in ekind and "E" in kind(v, f):
                ekind.add(a)
                changed = True
    # parameters that always receive the two topmost residuals (the ends of the closing branch)
    def branch_end_params(f):
        ps = {}
        for g in [fs[-1] for fs in ci.methods.values()]:
            for c in calls_in(g.node):
                if isinstance(c.func, ast.Attribute) and is_self_attr(c.func) and c.func.attr == f.name:
                    for k in c.keywords:
                        src = k.value
                        if isinstance(src, ast.Name):
                            d = [st.value for st in walk_stmts(g.node.body) if isinstance(st, ast.Assign) and
                                 any(isinstance(t, ast.Name) and t.id == src.id for t in st.targets)]
                            src = d[0] if len(d) == 1 else src
                        slot = None
                        if isinstance(src, ast.Subscript) and is_self_attr(src.value, "_residuals"):
                            slot = const_value(src.slice)
                        ps.setdefault(k.arg, set()).add(slot)
        return {p_: next(iter(v)) for p_, v in ps.items() if len(v) == 1 and next(iter(v)) in (-1, -2)}
    n_ok = 0
    for name, fs in ci.methods.items():
        f = fs[-1]
        ends = None
        for n in ast.walk(f.node):
            if not isinstance(n, (ast.If, ast.While, ast.IfExp)):
                continue
            for c in ast.walk(n.test):
                if not (isinstance(c, ast.Compare) and len(c.ops) == 1):
                    continue
                l, r = _elem0(c.left), _elem0(c.comparators[0])
                if l is None and r is None:
                    continue
                kl = kind(l if l is not None else c.left, f)
                kr = kind(r if r is not None else c.comparators[0], f)
                ks = kl | kr
                if "E" not in ks:
                    if "I" in ks:
                        n_ok += 1
                        ctx.holds(f, n, "%s: first-point decision %s compares sample positions (shared by all points)" % (f.name, norm_text(c)))
                    elif "L" in ks:
                        n_ok += 1
                        ctx.holds(f, n, "%s: first-point decision %s compares loads (ordered alike at all points)" % (f.name, norm_text(c)))
                    continue
                if False:
                    pass
                else:
                    ctx.violated(f, n, "%s: %s decides on the first assessment point only, but compares stresses/strains; "
                                 "with several assessment points the other points can be ordered differently (nonlinear law; with "
                                 "a binned law even the two ends of one branch can tie at one point and differ at another), so "
                                 "they get values they would not get when processed alone. Select element-wise (np.maximum / "
                                 "np.minimum / np.where) or decide by the loads" % (f.name, norm_text(c)), text=norm_text(c))

# =========================================================================== variants

FN = "src/pylife/stress/rainflow/fkm_nonlinear.py"
RP = "src/pylife/stress/rainflow/recorders.py"
C = "FKMNonlinearDetector."


def variants():
    out = []

    def memo_collective(tree):
        f = find_func(tree, "FKMNonlinearRecorder.collective")
        cls = f._parent
        f.name = "_assemble_collective"
        f.decorator_list = []
        cls.body.append(parse_stmt("@property\ndef collective(self):\n    if self._collective is None:\n"
                                   "        self._collective = self._assemble_collective()\n    return self._collective.copy()"))
        init = find_func(tree, "FKMNonlinearRecorder.__init__")
        init.body.append(parse_stmt("self._collective = None"))
        return True
    out.append(witness("collective memoised and never invalidated", RP, memo_collective, "R-C05-11"))

    def isclose_extent(tree):
        f = find_func(tree, C + "_hcm_process_sample")
        for n in ast.walk(f):
            if isinstance(n, ast.If) and isinstance(n.test, ast.Compare) and isinstance(n.test.comparators[0], ast.BinOp) and \
                    isinstance(n.test.ops[0], ast.Lt) and "extent" in ast.unparse(n.test):
                a, b = ast.unparse(n.test.left), ast.unparse(n.test.comparators[0].left)
                n.test = parse_expr("%s < %s and not np.isclose(%s, %s)" % (a, b, a, b))
                return True
        return False
    out.append(witness("c)i / c)ii decision with np.isclose", FN, isclose_extent, "R-C05-10"))

    def tail_guard_eq(tree):
        f = find_func(tree, C + "process")
        for n in ast.walk(f):
            if isinstance(n, ast.If) and "tindex[0]" in ast.unparse(n.test):
                n.test = parse_expr("tindex[0] == -1")
                return True
        return False
    out.append(witness("carried-tail repair only for position -1", FN, tail_guard_eq, "R-C05-9"))

    def tail_guard_le(tree):
        f = find_func(tree, C + "process")
        for n in ast.walk(f):
            if isinstance(n, ast.If) and "tindex[0]" in ast.unparse(n.test):
                n.test = parse_expr("tindex[0] <= -1")
                return True
        return False
    out.append(twin("carried-tail guard written <= -1", FN, tail_guard_le))

    def first_point_extreme(tree):
        f = find_func(tree, C + "_hcm_update_min_max_strain_values")
        br = [x for x in f.body if isinstance(x, ast.If)][0]
        br.body = [parse_stmt("self._epsilon_max_LF = self._epsilon_max_LF if self._epsilon_max_LF.values[0] > "
                              "current_point.strain.values[0] else current_point.strain")]
        return True
    out.append(witness("running strain maximum decided on the first assessment point", FN, first_point_extreme, "R-C05-8"))

    def first_point_where(tree):
        f = find_func(tree, C + "_handle_case_c_ii")
        for i, st in enumerate(f.body):
            if isinstance(st, ast.Assign) and isinstance(st.targets[0], ast.Name) and "np.minimum" in ast.unparse(st.value) and \
                    "strain" in ast.unparse(st.value):
                f.body[i] = parse_stmt("%s = previous_point_0.strain if previous_point_0.strain.values[0] < "
                                       "previous_point_1.strain.values[0] else previous_point_1.strain" % st.targets[0].id)
                return True
        return False
    out.append(witness("hysteresis strain minimum chosen for all points by the first point's strains", FN, first_point_where, "R-C05-8"))

    def extremes_swapped_args(tree):
        f = find_func(tree, C + "_hcm_update_min_max_strain_values")
        n = 0
        for c in ast.walk(f):
            if isinstance(c, ast.Call) and call_name(c) in ("np.maximum", "np.minimum") and len(c.args) == 2:
                c.args = [c.args[1], c.args[0]]
                n += 1
        return n == 2
    out.append(twin("np.maximum/np.minimum arguments swapped", FN, extremes_swapped_args))

    def drop_guard(tree):
        f = find_func(tree, C + "_handle_case_a_i")
        for n in ast.walk(f):
            if isinstance(n, ast.If) and "_run_index" in ast.unparse(n.test) and len(n.body) == 1 and isinstance(n.body[0], ast.AugAssign):
                return replace_node(n, n.body[0])
        return False
    out.append(witness("Memory-3 handler counts its strain value in every pass", FN, drop_guard, "R-C05-7"))

    def guard_ge(tree):
        f = find_func(tree, C + "_handle_case_b")
        for n in ast.walk(f):
            if isinstance(n, ast.If) and "_run_index" in ast.unparse(n.test) and len(n.body) == 1 and isinstance(n.body[0], ast.AugAssign):
                n.test = parse_expr("self._run_index >= 1")
                return True
        return False
    out.append(witness("case b counts under run_index >= 1", FN, guard_ge, "R-C05-7"))

    def guard_flipped(tree):
        f = find_func(tree, C + "_handle_case_b")
        for n in ast.walk(f):
            if isinstance(n, ast.If) and "_run_index" in ast.unparse(n.test) and len(n.body) == 1 and isinstance(n.body[0], ast.AugAssign):
                n.test = parse_expr("1 == self._run_index")
                return True
        return False
    out.append(twin("guard written 1 == self._run_index", FN, guard_flipped))

    def aii_primary(tree):
        f = find_func(tree, C + "_handle_case_a_ii")
        for c in calls_in(f, attr="_proceed_on_secondary_branch"):
            c.func.attr = "_proceed_on_primary_branch"
            c.args = c.args[1:]
            return True
        return False
    out.append(witness("a)ii handler follows the primary branch", FN, aii_primary, "R-C05-1"))

    def ai_no_mirror(tree):
        f = find_func(tree, C + "_handle_case_a_i")
        for s in f.body:
            if isinstance(s, ast.Assign) and isinstance(s.value, ast.Call) and "_HCM_Point" in norm_text(s.value.func):
                s.value.keywords[0].value = parse_expr("previous_point.load")
                return True
        return False
    out.append(witness("Memory 3 secondary part ends at +L", FN, ai_no_mirror, "R-C05-1"))

    def ci_older(tree):
        f = find_func(tree, C + "_hcm_process_sample")
        for c in calls_in(f, attr="_handle_case_c_i"):
            for k in c.keywords:
                if k.arg == "previous_point_1":
                    k.value = ast.Name(id="previous_point_0", ctx=ast.Load())
                    return True
        return False
    out.append(witness("c)i starts from the older residual", FN, ci_older, "R-C05-1"))

    def guard_swap(tree):
        f = find_func(tree, C + "_hcm_process_sample")
        for s in ast.walk(f):
            if isinstance(s, ast.If) and norm_text(s.test) == "iz < ir":
                s.test.ops = [ast.LtE()]
                return True
        return False
    out.append(witness("case b guard iz <= ir", FN, guard_swap, "R-C05-1"))

    def base_mix(tree):
        f = find_func(tree, C + "_proceed_on_secondary_branch")
        for s in f.body:
            if isinstance(s, ast.Assign) and isinstance(s.targets[0], ast.Attribute) and s.targets[0].attr == "_strain":
                for n in ast.walk(s.value):
                    if isinstance(n, ast.Name) and n.id == "previous_point":
                        n.id = "current_point"
                        return True
        return False
    out.append(witness("strain increment added to another base point", FN, base_mix, "R-C05-2"))

    def dl_sign(tree):
        f = find_func(tree, C + "_proceed_on_secondary_branch")
        s = [x for x in f.body if isinstance(x, ast.Assign) and isinstance(x.targets[0], ast.Name) and x.targets[0].id == "delta_L"][0]
        s.value.left, s.value.right = s.value.right, s.value.left
        return True
    out.append(witness("load increment previous - current", FN, dl_sign, "R-C05-2"))

    def prim_args(tree):
        f = find_func(tree, C + "_proceed_on_primary_branch")
        for s in f.body:
            if isinstance(s, ast.Assign) and isinstance(s.targets[0], ast.Name) and s.targets[0].id == "epsilon":
                s.value.args[0] = parse_expr("current_point.load")
                return True
        return False
    out.append(witness("primary strain computed from the load instead of the stress", FN, prim_args, "R-C05-2"))

    def forget_list(tree):
        f = find_func(tree, C + "_handle_case_c_ii")
        for s in list(f.body):
            if isinstance(s, ast.Assign) and isinstance(s.targets[0], ast.Name) and s.targets[0].id == "_epsilon_max_LF":
                f.body.remove(s)
                return True
        return False
    out.append(witness("c)ii handler forgets one list", FN, forget_list, "R-C05-3"))

    def ret_order(tree):
        f = find_func(tree, C + "_handle_case_a_i")
        r = [s for s in f.body if isinstance(s, ast.Return)][-1]
        lst = [n for n in ast.walk(r.value) if isinstance(n, ast.List)][0]
        lst.elts[2], lst.elts[3] = lst.elts[3], lst.elts[2]
        return True
    out.append(witness("a)i handler returns S_min/S_max swapped", FN, ret_order, "R-C05-3"))

    def sa_col(tree):
        f = find_func(tree, "FKMNonlinearRecorder.S_a")
        f.body[-1].value = parse_expr("0.5 * (np.array(self._S_max) + np.array(self._S_min))")
        return True
    out.append(witness("S_a = (S_max + S_min)/2", RP, sa_col, "R-C05-4"))

    def r_override(tree):
        f = find_func(tree, "FKMNonlinearRecorder.R")
        f.body[-1].value.args[1] = ast.Constant(0)
        return True
    out.append(witness("zero-mean hystereses get R = 0", RP, r_override, "R-C05-4"))

    def multi_col(tree):
        f = find_func(tree, "FKMNonlinearRecorder.collective")
        d = [n for n in ast.walk(f) if isinstance(n, ast.Dict)][0]
        for i, k in enumerate(d.keys):
            if const_value(k) == "epsilon_max":
                d.values[i] = parse_expr("self._epsilon_min.to_numpy()")
                return True
        return False
    out.append(witness("multi-point collective takes epsilon_max from _epsilon_min", RP, multi_col, "R-C05-5"))

    def rec_swap(tree):
        f = find_func(tree, "FKMNonlinearRecorder.record_values_fkm_nonlinear")
        for s in f.body:
            if isinstance(s, ast.Assign) and is_self_attr(s.targets[0], "_epsilon_min_LF"):
                s.value.args[0].elts[1] = ast.Name(id="epsilon_max_LF", ctx=ast.Load())
                return True
        return False
    out.append(witness("recorder stores epsilon_max_LF into _epsilon_min_LF", RP, rec_swap, "R-C05-5"))

    def ext_swap(tree):
        f = find_func(tree, C + "_hcm_update_min_max_strain_values")
        b = [s for s in f.body if isinstance(s, ast.If)][0]
        b.test.ops = [ast.Gt()]
        return True
    out.append(witness("max updated on a load decrease", FN, ext_swap, "R-C05-6"))

    def ext_cmp(tree):
        f = find_func(tree, C + "_hcm_update_min_max_strain_values")
        b = [s for s in f.body if isinstance(s, ast.If)][0]
        for c in ast.walk(ast.Module(body=b.orelse, type_ignores=[])):
            if isinstance(c, ast.Call) and call_name(c) == "np.minimum":
                c.func = parse_expr("np.maximum")
                return True
        return False
    out.append(witness("running minimum keeps the larger value", FN, ext_cmp, "R-C05-6"))

    # twins
    def rename_locals(tree):
        f = find_func(tree, C + "_proceed_on_primary_branch")
        for n in ast.walk(f):
            if isinstance(n, ast.Name) and n.id == "sigma":
                pass
        g = find_func(tree, C + "_handle_case_b")
        g.body.insert(1, parse_stmt("note = 'b'"))
        return True
    out.append(twin("extra local in case b handler", FN, rename_locals))

    def sa_alt(tree):
        f = find_func(tree, "FKMNonlinearRecorder.S_a")
        f.body[-1].value = parse_expr("(np.array(self._S_max) - np.array(self._S_min)) / 2")
        return True
    out.append(twin("S_a written as (max-min)/2", RP, sa_alt))
    return out
