"""The HCM case dispatch of FKMNonlinearDetector._hcm_process_sample, for the rules that depend on it (R-C02-1/2/3 for the
FKM-nonlinear detector, R-C04-5, R-C05-1).

Those rules read the dispatch in the form the repository uses: one `while True:` loop whose body tests `iz == ir`, `iz < ir`
and otherwise handles `iz > ir`, leaving the loop with `break` and re-entering it with `continue`.  When the control flow has
another shape (a `while iz > ir:` loop followed by an if/elif/else, early returns, extracted helpers ...) the same clauses are
decided by the path-by-path abstract execution of sa/hcmmodel.py against the textbook case table instead."""
import ast

from ..frontend import AnalysisError
from ..astutil import const_value

D = "pylife.stress.rainflow.fkm_nonlinear:FKMNonlinearDetector."
ROLES = {"cur": "current_load_representative", "mx": "load_max_seen", "stack": "_residuals"}
NAMES = {"c_i": "_handle_case_c_i", "c_ii": "_handle_case_c_ii", "primary": "_proceed_on_primary_branch", "b": "_handle_case_b",
         "a_i": "_handle_case_a_i", "a_ii": "_handle_case_a_ii"}


class Restructured(AnalysisError):
    pass


def require_recognised_dispatch(ps):
    loops = [s for s in ps.node.body if isinstance(s, ast.While)]
    if len(loops) != 1 or const_value(loops[0].test) is not True:
        raise Restructured("_hcm_process_sample: the HCM case dispatch is not in the `while True:` form")
    tests = [s for s in loops[0].body if isinstance(s, ast.If) and
             {"iz", "ir"} <= {n.id for n in ast.walk(s.test) if isinstance(n, ast.Name)}]
    if len(tests) < 2:
        raise Restructured("_hcm_process_sample: the top-level tests on iz / ir of the HCM dispatch were not found")
    return loops[0]


_EXAMPLE = '''
class D:
    def _hcm_process_sample(self, *, current_point, recording_lists, largest_point, iz, ir, load_max_seen, current_load_representative):
        is_new_max = np.abs(current_load_representative) > load_max_seen + 1e-12
        while iz > ir:
            p0 = self._residuals[-2]
            p1 = self._residuals[-1]
            if np.abs(current_load_representative - p1.load_representative) < np.abs(p1.load_representative - p0.load_representative) - 1e-12:
                current_point = self._handle_case_c_i(current_point=current_point, previous_point_1=p1)
                return current_point, iz, ir, recording_lists
            recording_lists = self._handle_case_c_ii(recording_lists=recording_lists, previous_point_0=p0, previous_point_1=p1)
            iz -= 2
            if not (np.abs(p0.load_representative) < load_max_seen - 1e-12 and np.abs(p1.load_representative) < load_max_seen - 1e-12):
                current_point = self._proceed_on_primary_branch(current_point)
                self._strain_values.append(current_point.strain.values[0])
                if self._run_index == 1:
                    self._n_strain_values_first_run += 1
                return current_point, iz, ir, recording_lists
        if iz < ir:
            current_point = self._handle_case_b(current_point)
        elif is_new_max:
            current_point, recording_lists = self._handle_case_a_i(current_point=current_point, previous_point=self._residuals[-1],
                                                                   recording_lists=recording_lists)
            ir += 1
        else:
            current_point = self._handle_case_a_ii(current_point=current_point, previous_point=self._residuals[-1])
        return current_point, iz, ir, recording_lists
'''


_SELFTEST_DONE = []


def _selftest():
    """the model accepts a correct dispatch in a foreign shape and rejects four seeded errors in it"""
    if _SELFTEST_DONE:
        return
    _SELFTEST_DONE.append(True)
    from ..hcmmodel import check_dispatch
    from .c18 import _mini_program
    ok = _mini_program(_EXAMPLE)
    n, bad, _ = check_dispatch(ok.functions["ex:D._hcm_process_sample"], ROLES, NAMES)
    if bad is not None:
        raise AnalysisError("HCM dispatch model rejects its own correct example: %r" % (bad,))
    for a, b in (("if iz < ir:", "if iz <= ir:"), ("iz -= 2", "iz -= 1"), ("previous_point_0=p0, previous_point_1=p1", "previous_point_0=p1, previous_point_1=p0"),
                 ("and np.abs(p1.load_representative) < load_max_seen - 1e-12", "")):
        src = _EXAMPLE.replace(a, b, 1)
        assert src != _EXAMPLE
        p2 = _mini_program(src)
        try:
            _, bad, _ = check_dispatch(p2.functions["ex:D._hcm_process_sample"], ROLES, NAMES)
        except AnalysisError:
            bad = True
        if bad is None:
            raise AnalysisError("HCM dispatch model accepts the seeded error %r -> %r of its example" % (a, b))


def dispatch_by_model(ctx, prog, rule, what):
    """decide the dispatch clauses under `rule` by abstract execution; returns the data predicates found (key -> text)"""
    from ..hcmmodel import check_dispatch
    from ..inline import inlined
    _selftest()
    ps = prog.func(D + "_hcm_process_sample")
    missing = [n for n in NAMES.values() if prog.lookup_method(ps.cls, n) is None]
    if missing or not {ROLES["cur"], ROLES["mx"], "iz", "ir"} <= set(ps.params):
        raise AnalysisError("_hcm_process_sample: handlers %s / parameters of the dispatch not found" % missing)
    keep = tuple(n for n in ps.cls.methods if n.startswith(("_handle_case", "_proceed_on")))
    fi = inlined(prog, ps, skip=keep)
    n, bad, preds = check_dispatch(fi, ROLES, NAMES)
    if bad is None:
        ctx.holds(ps, ps.node, "%s: the dispatch performs the HCM case analysis on all %d abstract scenarios (iz - ir in -1..4, "
                  "new maximum, smaller extent / inner hysteresis per closing attempt, pass one)" % (what, n), rule=rule)
    else:
        d0, sc, got, want = bad
        ctx.violated(ps, ps.node, "%s: for iz - ir = %d, new maximum %s, extent smaller %s, hysteresis ends inside the seen range %s, "
                     "pass one %s the dispatch does %s (counters %+d/%+d); the HCM case analysis requires %s (counters %+d/%+d)" %
                     (what, d0, sc["NEWMAX"], sc["SMALLER"], sc["INNER"], sc["RUN1"], [e[0] for e in got[0]] or "nothing", got[1], got[2],
                      [e[0] for e in want[0]] or "nothing", want[1], want[2]), rule=rule, text="dispatch " + what)
    return preds
