"""Shape guard shared by the rules that read the HCM case dispatch of FKMNonlinearDetector._hcm_process_sample.

Those rules (R-C02-1/2/3 for the FKM-nonlinear detector, R-C04-5, R-C05-1) recognise the dispatch in the form the
repository uses: one `while True:` loop whose body tests `iz == ir`, `iz < ir` and otherwise handles `iz > ir`, leaving the
loop with `break` and re-entering it with `continue`.  A restructured dispatch (a `while iz > ir:` loop followed by an
if/elif/else, early returns, ...) can be equivalent; the rules do not claim to decide that and report *undecided* (exit 2)
instead of a verdict."""
import ast

from ..frontend import AnalysisError
from ..astutil import const_value


def require_recognised_dispatch(ps):
    loops = [s for s in ps.node.body if isinstance(s, ast.While)]
    if len(loops) != 1 or const_value(loops[0].test) is not True:
        raise AnalysisError("_hcm_process_sample: the HCM case dispatch is not in the recognised `while True:` form (restructured "
                            "control flow); the rules reading it are undecided on this tree")
    tests = [s for s in loops[0].body if isinstance(s, ast.If) and
             {"iz", "ir"} <= {n.id for n in ast.walk(s.test) if isinstance(n, ast.Name)}]
    if len(tests) < 2:
        raise AnalysisError("_hcm_process_sample: the top-level tests on iz / ir of the HCM dispatch were not found; "
                            "the rules reading it are undecided on this tree")
    return loops[0]
