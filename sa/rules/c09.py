"""C09 — FKM-nonlinear damage curves, parameter and accumulation (structural/algebraic clauses)."""
from __future__ import annotations

import ast
from fractions import Fraction
from statistics import NormalDist

from ..astutil import (call_name, calls_in, const_value, find_func, is_self_attr, names_in, parse_expr, parse_stmt,
                       replace_node)
from ..frontend import AnalysisError, walk_function
from ..cfg import CFG
from ..dataflow import inline_env
from ..astutil import subst_names
from ..nf import RF, Translator, NFUnsupported, to_nf, _subst_atom
from ..ordertable import parse_pred
from ..report import norm_text
from ..sibling import rename
from ..witness import witness, twin

LEVEL = "other"
WF = "pylife.strength.woehler_fkm_nonlinear:"
DP = "pylife.strength.damage_parameter:"
DC = "pylife.strength.fkm_nonlinear.damage_calculator:"
EXPLANATION = (
    "Static decision of structural/algebraic clauses of C09. R-C09-1 (normal form with symbolic exponents): for the P_RAM and "
    "P_RAJ component curves the branch formulas extracted from calc_N / calc_P are mutual inverses, the two P_RAM branches "
    "meet at N = 1e3 / P = P_Z (continuity), fatigue_life_limit == N(P_D), the outermost selector of calc_N yields infinity "
    "on the complement of P > limit and the finite branches are strictly decreasing power laws (negative exponents are "
    "enforced by the validator). R-C09-2: the stored P_RAM column equals sqrt((S_a + k S_m) eps_a E) under the mask "
    "discriminant >= 0 and 0 otherwise; the two k masks (S_m >= 0, S_m < 0) partition; k_(M) == k+(M/3); k+ == M(M+2); M_sigma "
    "is the same expression in P_RAM and P_RAJ. R-C09-3: every attribute read from an object that comes from "
    "for_material_group(...) anywhere in the package is a key of every material-group column (a missing key would surface as "
    "a silent NaN). R-C09-4: every literal (P_A, beta) pair satisfies |beta + Phi^-1(P_A)| < 0.01; the normal and log-normal "
    "safety factors use the same alpha shape keyed on the same P_L test; blanket factors 1.1 / 1.0 keyed the same way. "
    "R-C09-5: all three copies of the damage formula are where(closed, 1/N, 0.5/N) and the two P_RAM copies of N agree up to "
    "the reference point. Not decided: convergence of compute_beta, closed-form lifetime vs literal accumulation, gamma_L "
    "against the guideline (no second statement of those formulas in the repository).")
EXPLANATION += (' R-C09-2 additionally requires E to be the assessment parameter, not the material-group table value. R-C09-6: the early-failure position (searchsorted in the cumulative damage of all rows) is compared with the row count of those same rows in both lifetime properties of both calculators, which use the same test and report 0 repetitions / the failure position; P_RAM: x = (1 - D_1)/D_2 with the damage sums of pass 1 / pass 2, repetitions x + 1, cycles = repetitions times the pass-2 count.')
EXPLANATION += (" R-C09-4 now decides each load safety factor per P_L case on the closed form of the returned value (definitions inlined, conditional expressions case-split): normal (L_max + alpha)/L_max, log-normal max(1, 10**alpha), alpha = (0.7 beta - 2) s | 0.7 beta s. R-C09-7: compute_beta hands the failure probability itself to the normal distribution function; forming 1 - P_A first (cancellation for small probabilities) is a violation.")
EXPLANATION += (" R-C09-10 (shared with R-C10-4): per-point knee values are spread over the hysteresis table in the table's row order.")
EXPLANATION += (" R-C09-9: the frame the damage parameter writes its P_RAM column into is the object's own copy, not the caller's table (effect analysis: provenance of the attribute).")
EXPLANATION += (" R-C09-8: no root finder in the FKM-nonlinear modules is applied to the absolute value of its residual (kink at the root, no sign change); where compute_beta is the closed form -ppf(P_A) / isf(P_A), R-C09-7 records that as the negative standard-normal quantile.")
EXPLANATION += (' R-C09-11: the closures returned by get_lifetime_functions of the damage calculators (N_max_bearable, failure_probability) write no object state that is not restored in a finally clause of the same closure; otherwise the calculator reports the lifetime of the last queried failure probability.')
EXPLANATION += (' R-C09-12: in FKMLoadSequence.maximum_absolute_load the selection of the load column applies to the per-node and to the global maximum alike (it is not nested under the per-node switch).')
EXPLANATION += (" R-C09-13 (shared state-family rules, sa/statefam.py): in the FKM-nonlinear curve, damage and load-distribution modules no store goes into an attribute object of a shallow copy (copy.copy / copy(deep=False)) - the original's per-point parameters would be overwritten -, no mutable class attribute is changed through an instance and no value derived from an argument is memoised under a partial key.")
ASSUMPTIONS = ["P_Z, P_D, N positive; d_1, d_2, d_RAJ negative (checked by the curve validators)",
               "statistics.NormalDist().inv_cdf is the standard normal quantile"]


def _where_tree(e):
    """np.where(c, a, b) nests -> ('where', cond, a, b) | ('leaf', expr)"""
    if isinstance(e, ast.Call) and call_name(e) in ("np.where", "numpy.where") and len(e.args) == 3:
        return ("where", e.args[0], _where_tree(e.args[1]), _where_tree(e.args[2]))
    return ("leaf", e)


def _canon_cmp(e):
    """(op, left, right) of a comparison with > / >= turned round and numeric literals normalised; None if not a comparison"""
    if isinstance(e, str):
        e = parse_expr(e)
    if not (isinstance(e, ast.Compare) and len(e.ops) == 1):
        return None

    def txt(x):
        c = const_value(x)
        if isinstance(c, (int, float)) and not isinstance(c, bool):
            return repr(float(c))
        return norm_text(x)
    a, b, op = e.left, e.comparators[0], type(e.ops[0])
    if op in (ast.Gt, ast.GtE):
        a, b = b, a
        op = ast.Lt if op is ast.Gt else ast.LtE
    return (op.__name__, txt(a), txt(b))


def _same_cmp(e, want):
    return _canon_cmp(e) is not None and _canon_cmp(e) == _canon_cmp(want)


def _value_ast(prog, f):
    """the value a curve method returns, as one expression: locals and helper methods of the curve class expanded (symbolic
    execution on terms, written back as an expression), module-level constants resolved"""
    from ..absint import Interp, TermDomain, term_to_ast, term_alternatives
    t = Interp(prog, TermDomain(), follow=lambda c_: c_.cls is f.cls and not c_.is_property()).run(
        f, [("p", q) for q in f.params if q != "self"])
    alts = term_alternatives(t)
    if len(alts) != 1:
        raise AnalysisError("%s: several different return values" % f.key)
    try:
        return term_to_ast(alts[0])
    except ValueError as e:
        raise AnalysisError("%s: returned value not expressible (%s)" % (f.key, e))


def _site(f, name):
    try:
        return _stmt_value(f, name)
    except AnalysisError:
        return f.node


class CurveNF:
    def __init__(self, prog, ci, var_map):
        self.prog, self.ci, self.var_map = prog, ci, var_map

    def tr(self, e, env=None):
        env = env or {}
        me = self

        def atom(x):
            if isinstance(x, ast.Name):
                if x.id in env:
                    return env[x.id]
                return me.var_map.get(x.id, x.id)
            if isinstance(x, ast.Attribute) and is_self_attr(x.value, "_obj"):
                return x.attr
            if is_self_attr(x):
                m = me.prog.lookup_method(me.ci, x.attr)
                if m is not None and m.is_property():
                    r = [s for s in m.node.body if isinstance(s, ast.Return)]
                    return me.tr(r[-1].value)
                return x.attr.lstrip("_")
            return None
        return Translator(atom=atom).tr(e)


def run(ctx):
    for r in (_curves, _pram, _constants, _beta, _half, _accumulation, _complement, _signed_residuals, _own_table, _knee_layout,
              _query_functions_pure, _load_column, _copies_and_state):
        ctx.attempt(r)


FKM_MODS = ("pylife.strength.woehler_fkm_nonlinear", "pylife.strength.damage_parameter", "pylife.strength.fkm_load_distribution",
            "pylife.strength.fkm_nonlinear.damage_calculator", "pylife.strength.fkm_nonlinear.damage_calculator_praj_miner")


def _copies_and_state(ctx):
    """R-C09-13 (state families, sa/statefam.py): in the FKM-nonlinear curve / damage / load-distribution modules no store goes
    INTO an attribute object of a shallow copy (the per-point parameter Series of the original curve would be overwritten by the
    'copy' reduced to its minimum), no mutable class attribute is changed through an instance, no partially keyed memo."""
    from .. import statefam
    prog = ctx.prog
    classes = [ci for k, ci in sorted(prog.classes.items()) if ci.module.name in FKM_MODS]
    funcs = [fi for k, fi in sorted(prog.functions.items()) if fi.module.name in FKM_MODS]
    statefam.apply(ctx, "R-C09-13", "no write through a shallow copy / shared class-level state in the FKM-nonlinear curve and damage modules",
                   classes=classes, functions=funcs, kinds=("S1", "S2", "S3"), floor=3)


def _load_column(ctx):
    """R-C09-12: the load safety factor refers to the largest absolute LOAD.  A load sequence frame may carry further columns
    (stress gradients ...); the selection of the load column (`.iloc[:, 0]`) must therefore apply to the per-node maxima AND to
    the global maximum: it may not sit under the test of the per-node switch, and the global maximum may not be taken over all
    columns."""
    prog = ctx.prog
    ctx.rule("R-C09-12", floor=1, what="the largest absolute load is taken from the load column in the per-node and in the global case")
    cands = [fi for k, fi in prog.functions.items() if k.startswith("pylife.strength.fkm_load_distribution:") and
             fi.name == "maximum_absolute_load"]
    if len(cands) != 1:
        raise AnalysisError("maximum_absolute_load not found")
    f = cands[0]
    switch = [q for q in f.params if q != "self"]
    sel = [st for st in walk_function(f.node) if isinstance(st, ast.Assign) and isinstance(st.value, ast.Subscript) and
           isinstance(st.value.value, ast.Attribute) and st.value.value.attr == "iloc" and isinstance(st.value.slice, ast.Tuple) and
           len(st.value.slice.elts) == 2 and const_value(st.value.slice.elts[1]) == 0]
    if not sel:
        raise AnalysisError("maximum_absolute_load: selection of the load column not found")
    for st in sel:
        p_ = getattr(st, "_parent", None)
        under_switch = False
        while p_ is not None and p_ is not f.node:
            if isinstance(p_, ast.If) and any(isinstance(x, ast.Name) and x.id in switch for x in ast.walk(p_.test)):
                under_switch = True
            p_ = getattr(p_, "_parent", None)
        if under_switch:
            ctx.violated(f, st, "the load column is selected only %s: the other case takes its maximum over every column of the "
                         "frame, so a pass-through column with larger numbers (a stress gradient) sets L_max and the load safety "
                         "factor" % "under the per-node switch", text="load column under switch")
        else:
            ctx.holds(f, st, "the load column is selected for both the per-node and the global maximum")


def state_writes_of_closures(fn_node, methods=None):
    """writes to object state (self.<attr> = ..., self.<attr>[...] = ..., self.<attr>.<x> = ...) inside the nested functions of a
    method, each with the information whether a `finally` clause of an enclosing `try` inside the same closure assigns the same
    attribute again (state restored on every exit)"""
    out = []
    for h in [n for n in ast.walk(fn_node) if isinstance(n, (ast.FunctionDef, ast.Lambda)) and n is not fn_node]:
        def attr_of(t):
            while isinstance(t, (ast.Subscript, ast.Attribute)) and not is_self_attr(t):
                t = t.value
            return t.attr if is_self_attr(t) else None
        tries = [t for t in ast.walk(h) if isinstance(t, ast.Try) and t.finalbody]
        for st in ast.walk(h):
            tg = st.targets if isinstance(st, ast.Assign) else [st.target] if isinstance(st, (ast.AugAssign, ast.AnnAssign)) else []
            for t in tg:
                for el in (t.elts if isinstance(t, (ast.Tuple, ast.List)) else [t]):
                    a = attr_of(el)
                    if a is None:
                        continue
                    in_final = any(any(x is st for fb in t_.finalbody for x in ast.walk(fb)) for t_ in tries)
                    if in_final:
                        continue
                    restored = any(any(x is st for b_ in t_.body for x in ast.walk(b_)) and
                                   any(attr_of(tt) == a for fb in t_.finalbody for s2 in ast.walk(fb) if isinstance(s2, ast.Assign)
                                       for tt in s2.targets) for t_ in tries)
                    out.append((st, a, restored))
        # writes made on behalf of the closure by private methods of the object it calls (one level)
        for c in [n for n in ast.walk(h) if isinstance(n, ast.Call) and isinstance(n.func, ast.Attribute) and
                  isinstance(n.func.value, ast.Name) and n.func.value.id == "self" and methods and n.func.attr in methods]:
            callee = methods[c.func.attr]
            written = set()
            for st2 in ast.walk(callee):
                tg2 = st2.targets if isinstance(st2, ast.Assign) else [st2.target] if isinstance(st2, (ast.AugAssign, ast.AnnAssign)) else []
                for t2 in tg2:
                    for el2 in (t2.elts if isinstance(t2, (ast.Tuple, ast.List)) else [t2]):
                        if isinstance(el2, (ast.Subscript, ast.Attribute)) and not (is_self_attr(el2) and isinstance(el2.ctx, ast.Load)):
                            a2 = attr_of(el2)
                            if a2 is not None and (isinstance(el2, ast.Subscript) or not callee.name.startswith("__")):
                                written.add(a2)
            if any(x is c for t_ in tries for fb in t_.finalbody for x in ast.walk(fb)):
                continue
            for a2 in sorted(written):
                restored = any(any(x is c for b_ in t_.body for x in ast.walk(b_)) and
                               any(attr_of(tt) == a2 for fb in t_.finalbody for s2 in ast.walk(fb) if isinstance(s2, ast.Assign)
                                   for tt in s2.targets) for t_ in tries)
                out.append((c, a2, restored))
    return out


def _query_functions_pure(ctx):
    """R-C09-11: the functions a damage calculator hands out for probabilistic queries (N_max_bearable, failure_probability)
    evaluate the lifetime for a shifted curve.  They must leave the calculator as it was: a closure that overwrites the N / D
    columns of the calculator's table makes `lifetime_n_cycles` and `lifetime_n_times_load_sequence` report the lifetime of the
    last queried failure probability instead of the accumulated damage of the component curve.  Every write to object state in
    such a closure has to be undone in a `finally` clause (or be made on a local copy)."""
    prog = ctx.prog
    ctx.rule("R-C09-11", floor=2, what="query closures handed out by the damage calculators leave the calculator's state unchanged")
    ex = ast.parse("def f(self):\n    def q(p):\n        self._t['N'] = p\n        return self.n\n"
                   "    def r(p):\n        keep = self._t['N'].copy()\n        try:\n            self._t['N'] = p\n            return self.n\n"
                   "        finally:\n            self._t['N'] = keep\n    return q, r\n").body[0]
    w = state_writes_of_closures(ex)
    if [(a, r) for _, a, r in w] != [("_t", False), ("_t", True)]:
        raise AnalysisError("R-C09-11 built-in example not matched")
    n = 0
    for key, fi in sorted(prog.functions.items()):
        if not key.startswith(DC) or fi.cls is None or fi.parent is not None or fi.name != "get_lifetime_functions":
            continue
        n += 1
        # (properties that only read, and methods that store scratch values under a name nothing else reads, are not followed:
        # only subscript stores - table columns - and plain attribute stores of the callee count)
        meths = {nm: d_[-1].node for nm, d_ in fi.cls.methods.items() if nm.startswith("_") and not nm.startswith("__") and
                 not d_[-1].is_property()}
        ws = state_writes_of_closures(fi.node, meths)
        bad = [(st, a) for st, a, restored in ws if not restored]
        for st, a in bad:
            ctx.violated(fi, st, "%s.%s: the query closure overwrites self.%s (%s) and does not restore it: afterwards the "
                         "calculator reports the lifetime of the last queried failure probability, not the accumulated damage of "
                         "the component curve" % (fi.cls.name, fi.name, a, norm_text(st)[:60]), text="closure writes self.%s" % a)
        if not bad:
            ctx.holds(fi, fi.node, "%s.get_lifetime_functions: %d state writes in the closures, all restored in a finally clause"
                      % (fi.cls.name, len(ws)))
    if n < 2:
        raise AnalysisError("get_lifetime_functions of the two damage calculators not found")


def _knee_layout(ctx):
    """R-C09-10 (shared with R-C10-4): a per-point knee value P_RAM_Z is spread over the hysteresis table in the table's own row
    order (hysteresis-major, point fastest); otherwise every hysteresis is evaluated on another point's curve and the accumulated
    lifetime is not that of the curve the property speaks of."""
    from .c10 import _r4
    _r4(ctx, "R-C09-10")


def _own_table(ctx):
    """R-C09-9: the table the damage parameter writes its P_RAM column into is the object's own copy.  If the attribute holds
    the caller's frame itself, a second evaluation of the same table with other parameters (another material group, another E)
    overwrites the column the first object reports: its P_RAM is then no longer sqrt((S_a + k S_m) eps_a E) of *its* parameters."""
    from ..effects import Effects
    prog = ctx.prog
    ctx.rule("R-C09-9", floor=1, what="the table P_RAM is written into is a copy owned by the damage-parameter object")
    ci = prog.cls(DP + "P_RAM")
    target = set()
    for name, defs in ci.methods.items():
        for st in walk_function(defs[-1].node):
            if isinstance(st, ast.Assign):
                for t in st.targets:
                    if isinstance(t, ast.Subscript) and is_self_attr(t.value) and const_value(t.slice) == "P_RAM":
                        target.add(t.value.attr)
    if len(target) != 1:
        raise AnalysisError("P_RAM: the attribute that receives the P_RAM column was not found")
    attr = next(iter(target))
    prov = Effects(prog).attr_provenance(ci)
    held = [(o, m) for o, m in prov.get(attr, []) if o[0] in ("param", "elem")]
    init = prog.lookup_method(ci, "__init__")
    if held:
        o, m = held[0]
        ctx.violated(init, init.node, "P_RAM keeps the caller's table itself (%s of the argument %s) in self.%s and writes the P_RAM "
                     "column into it: evaluating the same table again with other parameters overwrites the values this object "
                     "reports" % (m, o[1], attr), text="aliased table " + attr)
    else:
        ctx.holds(init, init.node, "self.%s, which receives the P_RAM column, is not a view of a constructor argument" % attr)


def _stmt_value(f, name=None):
    """the assignment defining the returned local"""
    r = [s for s in f.node.body if isinstance(s, ast.Return)]
    nm = r[-1].value.id if r and isinstance(r[-1].value, ast.Name) else name
    for s in walk_function(f.node):
        if isinstance(s, ast.Assign) and isinstance(s.targets[0], ast.Name) and s.targets[0].id == nm:
            return s
    raise AnalysisError("%s: definition of the returned value not found" % f.key)


DIST_FUNCS = {"ppf", "isf", "cdf", "sf", "logcdf", "logsf", "inv_cdf", "erfinv", "erfcinv", "ndtri"}


def _complement_sites(node, params):
    """calls of a distribution function whose argument forms 1 - p from a probability parameter p"""
    seen, bad = [], []
    for c in ast.walk(node):
        if isinstance(c, ast.Call) and (call_name(c) or "").split(".")[-1] in DIST_FUNCS:
            seen.append(c)
            for a in list(c.args) + [k.value for k in c.keywords]:
                for b in ast.walk(a):
                    if isinstance(b, ast.BinOp) and isinstance(b.op, ast.Sub) and const_value(b.left) in (1, 1.0) and \
                            names_in(b.right) & set(params):
                        bad.append((c, b))
    return seen, bad


ROOT_FINDERS = ("root", "newton", "fsolve", "brentq", "brenth", "bisect", "ridder", "toms748", "root_scalar", "least_squares")
C09_MODULES = ("pylife.strength.fkm_nonlinear.parameter_calculations", "pylife.strength.fkm_nonlinear.damage_calculator",
               "pylife.strength.damage_parameter", "pylife.strength.woehler_fkm_nonlinear", "pylife.strength.fkm_load_distribution",
               "pylife.strength.fkm_nonlinear.assessment_nonlinear_standard")


def _unsigned_residuals(fn_node):
    """root-finder calls whose function returns the absolute value of its residual: [(call, seen?)]"""
    seen, bad = [], []
    local = {n.name: n for n in ast.walk(fn_node) if isinstance(n, ast.FunctionDef) and n is not fn_node}
    for c in ast.walk(fn_node):
        if not (isinstance(c, ast.Call) and (call_name(c) or "").split(".")[-1] in ROOT_FINDERS and
                "optimize" in (call_name(c) or "")):
            continue
        seen.append(c)
        fn = c.args[0] if c.args else next((k.value for k in c.keywords if k.arg in ("fun", "func", "f")), None)
        rets = []
        if isinstance(fn, ast.Lambda):
            rets = [fn.body]
        elif isinstance(fn, ast.Name) and fn.id in local:
            rets = [r.value for r in ast.walk(local[fn.id]) if isinstance(r, ast.Return) and r.value is not None]
        for r in rets:
            if isinstance(r, ast.Call) and (call_name(r) or "") in ("abs", "np.abs", "np.fabs", "np.absolute", "math.fabs"):
                bad.append(c)
                break
    return seen, bad


def _signed_residuals(ctx):
    """R-C09-8: a root finder is applied to the signed residual.  The absolute value of a residual has a kink exactly at the
    root and never changes sign; derivative-based searches (scipy.optimize.root, newton) from a fixed start value then stop
    without success for some inputs - the safety index could not be computed for P_A = 0.486."""
    prog = ctx.prog
    ctx.rule("R-C09-8", floor=1, what="no root finder of the FKM-nonlinear modules is applied to the absolute value of its residual")
    ex = ast.parse("def beta(P_A):\n    r = scipy.optimize.root(lambda x: abs(cdf(x) - P_A), x0=-0.6)\n"
                   "    s = scipy.optimize.root(lambda x: cdf(x) - P_A, x0=-0.6)\n    return r, s\n").body[0]
    sn, bad = _unsigned_residuals(ex)
    if len(sn) != 2 or len(bad) != 1:
        raise AnalysisError("R-C09-8 built-in example not matched")
    n = 0
    for key, fi in sorted(prog.functions.items()):
        if fi.module.name not in C09_MODULES or fi.parent is not None:
            continue
        sn, bad = _unsigned_residuals(fi.node)
        n += len(sn)
        for c in bad:
            ctx.violated(fi, c, "%s searches the root of the absolute value of its residual (%s): |f| has a kink at the root and no "
                         "sign change, the search from a fixed start value fails for some inputs" % (fi.name, norm_text(c)[:90]),
                         text="abs residual " + fi.name)
        for c in sn:
            if c not in bad:
                ctx.holds(fi, c, "%s: root finder on a signed residual" % fi.name)
    ctx.holds("pylife.strength", None, "%d root-finder call(s) in the FKM-nonlinear modules, none on |residual|" % n)


def _complement(ctx):
    """R-C09-7: no cancellation in the safety index."""
    prog = ctx.prog
    ctx.rule("R-C09-7", floor=1, what="safety index: the failure probability reaches the normal distribution uncomplemented")
    ex = ast.parse("def beta(P_A):\n    return norm.ppf(1 - P_A)\n").body[0]
    if len(_complement_sites(ex, ["P_A"])[1]) != 1:
        raise AnalysisError("R-C09-7 built-in example not matched")
    f = prog.func("pylife.strength.fkm_nonlinear.parameter_calculations:compute_beta")
    seen, bad = _complement_sites(f.node, f.params)
    if not seen:
        raise AnalysisError("compute_beta: no call of a normal-distribution function found")
    rets = [r_ for r_ in walk_function(f.node) if isinstance(r_, ast.Return) and r_.value is not None]
    env_ = {s_.targets[0].id: s_.value for s_ in walk_function(f.node) if isinstance(s_, ast.Assign) and isinstance(s_.targets[0], ast.Name)}
    if len(rets) == 1:
        rv = rets[0].value
        rv = env_.get(rv.id, rv) if isinstance(rv, ast.Name) else rv
        t = norm_text(rv)
        closed = [q for q in ("-scipy.stats.norm.ppf(P_A)", "-stats.norm.ppf(P_A)", "-norm.ppf(P_A)", "scipy.stats.norm.isf(P_A)",
                              "stats.norm.isf(P_A)", "norm.isf(P_A)") if t == q.replace("P_A", f.params[0])]
        if closed:
            ctx.holds(f, rets[0], "compute_beta returns %s: the negative standard-normal quantile of the failure probability" % t)
    for c, b in bad:
        ctx.violated(f, c, "%s forms %s in floating point before the distribution function sees it: for small failure "
                     "probabilities the complement rounds (1 - p == 1 for p < 1.1e-16), the index is no longer the negative "
                     "quantile of p; use the quantile of p itself (ppf(p) = -isf(p))" % (norm_text(c), norm_text(b)),
                     text="complement " + (call_name(c) or "").split(".")[-1])
    if not bad:
        for c in seen:
            ctx.holds(f, c, "%s receives the failure probability itself" % norm_text(c))


def _curves(ctx):
    prog = ctx.prog
    ctx.rule("R-C09-1", floor=14, what="curve algebra: inverse per branch, continuity at the knee, endurance cut-off")
    # ---------- P_RAM
    ci = prog.cls(WF + "WoehlerCurvePRAM")
    cn = prog.lookup_method(ci, "calc_N")
    cp = prog.lookup_method(ci, "calc_P_RAM")
    nv = _site(cn, "N")
    tn = _where_tree(_value_ast(prog, cn))
    rp = [s for s in cp.node.body if isinstance(s, ast.Return)][-1]
    tp = _where_tree(_value_ast(prog, cp))
    c = CurveNF(prog, ci, {"P_RAM": "P", "N": "N"})
    try:
        if not (tn[0] == "where" and tn[2][0] == "where" and tn[3][0] == "leaf"):
            raise AnalysisError("WoehlerCurvePRAM.calc_N: selector structure not recognised")
        outer = tn[1]
        N1, N2 = c.tr(tn[2][2][1]), c.tr(tn[2][3][1])
        inner_n = tn[2][1]
        if not (tp[0] == "where" and tp[3][0] == "where"):
            raise AnalysisError("WoehlerCurvePRAM.calc_P_RAM: selector structure not recognised")
        P1, P2, Plim = c.tr(tp[2][1]), c.tr(tp[3][2][1]), c.tr(tp[3][3][1])
        c1 = CurveNF(prog, ci, {"P_RAM": "P"})
        comp = [("calc_P_RAM(calc_N(P)) == P above the knee", c.tr(tp[2][1], {"N": N1}), RF.sym("P"), cp, rp),
                ("calc_P_RAM(calc_N(P)) == P below the knee", c.tr(tp[3][2][1], {"N": N2}), RF.sym("P"), cp, rp),
                ("calc_N(calc_P_RAM(N)) == N for N < 1e3", c.tr(tn[2][2][1], {"P_RAM": P1}), RF.sym("N"), cn, nv),
                ("calc_N(calc_P_RAM(N)) == N for N >= 1e3", c.tr(tn[2][3][1], {"P_RAM": P2}), RF.sym("N"), cn, nv)]
        PZ = c.tr(ast.parse("self.P_RAM_Z", mode="eval").body)
        thousand = RF.const(1000)
        comp += [("N_1(P_Z) == 1e3", c.tr(tn[2][2][1], {"P_RAM": PZ}), thousand, cn, nv),
                 ("N_2(P_Z) == 1e3", c.tr(tn[2][3][1], {"P_RAM": PZ}), thousand, cn, nv),
                 ("P_1(1e3) == P_Z", c.tr(tp[2][1], {"N": thousand}), PZ, cp, rp),
                 ("P_2(1e3) == P_Z", c.tr(tp[3][2][1], {"N": thousand}), PZ, cp, rp)]
        fl = prog.lookup_method(ci, "fatigue_life_limit")
        flr = [s for s in fl.node.body if isinstance(s, ast.Return)][-1]
        PD = c.tr(ast.parse("self.fatigue_strength_limit", mode="eval").body)
        comp += [("fatigue_life_limit == N_2(P_D)", c.tr(flr.value), c.tr(tn[2][3][1], {"P_RAM": PD}), fl, flr),
                 ("beyond the life limit calc_P_RAM returns the endurance value", Plim, PD, cp, rp)]
        for what, a, b, fi, node in comp:
            if a == b:
                ctx.holds(fi, node, "P_RAM curve: " + what)
            else:
                ctx.violated(fi, node, "P_RAM curve: %s fails: %r vs %r" % (what, a, b), text="PRAM " + what)
        # selectors
        at = lambda e: norm_text(e).replace("self.", "")
        ok_outer = _same_cmp(outer, "P_RAM > self.fatigue_strength_limit") and norm_text(tn[3][1]) in ("np.inf", "float('inf')")
        if ok_outer:
            ctx.holds(cn, nv, "P_RAM curve: infinite life exactly on the complement of P > P_D")
        else:
            ctx.violated(cn, nv, "P_RAM curve: outer selector %s / default %s is not 'P > endurance value, else infinity'" %
                         (norm_text(outer), norm_text(tn[3][1])), text="PRAM outer")
        ok_inner = _same_cmp(inner_n, "P_RAM >= self.P_RAM_Z") and _same_cmp(tp[1], "N < 1000.0") and \
            _same_cmp(tp[3][1], "N < self.fatigue_life_limit")
        if ok_inner:
            ctx.holds(cp, rp, "P_RAM curve: knee selectors P >= P_Z <-> N < 1e3 and N < life limit are mirror images "
                      "(equal values at the borders by continuity)")
        else:
            ctx.violated(cp, rp, "P_RAM curve: branch selectors %s / %s / %s are not the mirrored knee and endurance tests" %
                         (norm_text(inner_n), norm_text(tp[1]), norm_text(tp[3][1])), text="PRAM selectors")
        # exponents d_1 above, d_2 below the knee
        want1 = to_nf(parse_expr("1000*(P/P_RAM_Z)**(1/d_1)"))
        want2 = to_nf(parse_expr("1000*(P/P_RAM_Z)**(1/d_2)"))
        if N1 == want1 and N2 == want2:
            ctx.holds(cn, nv, "P_RAM curve: slope d_1 above and d_2 below the knee at N = 1e3")
        else:
            ctx.violated(cn, nv, "P_RAM curve: branch formulas %r / %r are not 1e3 (P/P_Z)^(1/d_1) and 1e3 (P/P_Z)^(1/d_2)" % (N1, N2),
                         text="PRAM slopes")
        # ---------- P_RAJ
        cj = prog.cls(WF + "WoehlerCurvePRAJ")
        jn = prog.lookup_method(cj, "calc_N")
        jp = prog.lookup_method(cj, "calc_P_RAJ")
        jv = _site(jn, "N")
        # calc_N of the P_RAJ curve has an optional parameter with a default taken from the object; its local form is read
        # directly (the default is checked below), the symbolic value only when that local form is gone
        tj = _where_tree(jv.value) if isinstance(jv, ast.Assign) else _where_tree(_value_ast(prog, jn))
        rj = [s for s in jp.node.body if isinstance(s, ast.Return)][-1]
        tq = _where_tree(_value_ast(prog, jp))
        cc = CurveNF(prog, cj, {"P_RAJ": "P", "N": "N"})
        Nj = cc.tr(tj[2][1])
        Pj = cc.tr(tq[2][1])
        comp = [("calc_P_RAJ(calc_N(P)) == P", cc.tr(tq[2][1], {"N": Nj}), RF.sym("P"), jp, rj),
                ("calc_N(calc_P_RAJ(N)) == N", cc.tr(tj[2][1], {"P_RAJ": Pj}), RF.sym("N"), jn, jv)]
        fl = prog.lookup_method(cj, "fatigue_life_limit")
        flr = [s for s in fl.node.body if isinstance(s, ast.Return)][-1]
        PD0 = cc.tr(ast.parse("self.fatigue_strength_limit", mode="eval").body)
        comp += [("fatigue_life_limit == N(P_D_0)", cc.tr(flr.value), cc.tr(tj[2][1], {"P_RAJ": PD0}), fl, flr)]
        for what, a, b, fi, node in comp:
            if a == b:
                ctx.holds(fi, node, "P_RAJ curve: " + what)
            else:
                ctx.violated(fi, node, "P_RAJ curve: %s fails: %r vs %r" % (what, a, b), text="PRAJ " + what)
        # decided on the symbolic value of calc_N: where(<endurance value in force> < P, <sloped>, inf) with the endurance value
        # = the optional argument, or the object's current one when the argument is None
        from ..absint import Interp, TermDomain
        jparams = [q for q in jn.params if q != "self"]
        tv = Interp(prog, TermDomain(), single_exit=True, follow=lambda c_: c_.cls is jn.cls).run(jn, [("p", q) for q in jparams])

        def current(x):
            """the object's current endurance value: self._P_RAJ_D, or a property that returns it"""
            if x == ("self", "_P_RAJ_D"):
                return True
            if isinstance(x, tuple) and len(x) == 2 and x[0] == "self":
                m_ = prog.lookup_method(cj, x[1])
                if m_ is not None and m_.is_property():
                    r_ = [s_ for s_ in m_.node.body if isinstance(s_, ast.Return)]
                    return bool(r_) and is_self_attr(r_[-1].value, "_P_RAJ_D")
            return False
        ok = False
        if isinstance(tv, tuple) and len(tv) == 4 and tv[0] == "where" and len(jparams) == 2:
            c_, inf_ = tv[1], tv[3]
            pP, pD = ("p", jparams[0]), ("p", jparams[1])
            lim = c_[2] if isinstance(c_, tuple) and len(c_) == 4 and c_[0] == "cmp" and c_[1] == "lt" and c_[3] == pP else None
            ok = isinstance(lim, tuple) and len(lim) == 4 and lim[0] == "ite" and lim[1] == ("cmp", "is", pD, ("c", None)) and \
                current(lim[2]) and lim[3] == pD and inf_ in (("attr", ("g", "np"), "inf"), ("c", float("inf")))
        else:
            raise AnalysisError("WoehlerCurvePRAJ.calc_N: the returned value is not a selection")
        if ok:
            ctx.holds(jn, jv, "P_RAJ curve: infinite life on the complement of P > current endurance value")
        else:
            ctx.violated(jn, jv, "P_RAJ curve: outer selector is not 'P > current endurance value, else infinity'", text="PRAJ outer")
    except NFUnsupported as e:
        raise AnalysisError("component curves outside the normal-form fragment: %s" % e)
    # validators enforce negative exponents (strictly decreasing finite branches)
    for ck, keys in ((ci, ("d_1", "d_2")), (cj, ("d_RAJ",))):
        from ..inline import inlined
        v = inlined(prog, prog.lookup_method(ck, "_validate"))       # checks may live in shared private helpers
        for k in keys:
            g = [s for s in walk_function(v.node) if isinstance(s, ast.If) and _same_cmp(s.test, "self._obj.%s >= 0" % k)
                 and isinstance(s.body[-1], ast.Raise)]
            if g:
                ctx.holds(v, g[0], "%s: %s >= 0 is rejected: finite branches are strictly decreasing" % (ck.name, k))
            else:
                ctx.violated(v, v.node, "%s: validator no longer rejects %s >= 0" % (ck.name, k), text="validate " + k)


def _col(e):
    if isinstance(e, ast.Subscript) and is_self_attr(e.value, "_collective") and isinstance(const_value(e.slice), str):
        return const_value(e.slice)
    if isinstance(e, ast.Attribute) and is_self_attr(e.value, "_collective"):
        return e.attr
    return None


def _pram(ctx):
    prog = ctx.prog
    ctx.rule("R-C09-2", floor=5, what="P_RAM = sqrt((S_a + k S_m) eps_a E) with the guideline's k, zero for a negative discriminant")
    f = prog.func(DP + "P_RAM._compute_values")
    stores = {}
    masks = []
    for s in f.node.body:
        if isinstance(s, ast.Assign) and isinstance(s.targets[0], ast.Subscript):
            t = s.targets[0]
            if is_self_attr(t.value, "_collective") and isinstance(const_value(t.slice), str):
                stores[const_value(t.slice)] = s
            elif isinstance(t.value, ast.Attribute) and t.value.attr == "loc" and isinstance(t.slice, ast.Tuple) and \
                    const_value(t.slice.elts[1]) == "k":
                masks.append((t.slice.elts[0], s))
    from ..astutil import inline_single_defs

    def strip_np(e):
        while isinstance(e, ast.Call) and isinstance(e.func, ast.Attribute) and e.func.attr in ("to_numpy", "astype") or \
                (isinstance(e, ast.Attribute) and e.attr == "values"):
            e = e.func.value if isinstance(e, ast.Call) else e.value
        return e
    if len(masks) != 2 and "k" in stores:
        # second accepted idiom: one np.select over the two masks
        v = inline_single_defs(f.node, stores["k"].value)
        if isinstance(v, ast.Call) and call_name(v) == "np.select" and len(v.args) >= 2 and \
                all(isinstance(a, (ast.List, ast.Tuple)) and len(a.elts) == 2 for a in v.args[:2]):
            dflt = next((k_.value for k_ in v.keywords if k_.arg == "default"), v.args[2] if len(v.args) > 2 else None)
            if const_value(dflt) in (0, 0.0):
                masks = []
                for m_, val_ in zip(v.args[0].elts, v.args[1].elts):
                    m2 = strip_np(m_)
                    if isinstance(m2, ast.Compare):
                        masks.append((m2, ast.Assign(targets=[stores["k"].targets[0]], value=val_, lineno=stores["k"].lineno)))
    if len(masks) != 2 and "k" in stores:
        # third accepted idiom: nested np.where over the two masks with the 0.0 fallback innermost
        v = inline_single_defs(f.node, stores["k"].value)
        found = []
        while isinstance(v, ast.Call) and call_name(v) == "np.where" and len(v.args) == 3:
            found.append((strip_np(v.args[0]), v.args[1]))
            v = v.args[2]
        if len(found) == 2 and const_value(v) in (0, 0.0) and all(isinstance(m_, ast.Compare) for m_, _ in found):
            masks = [(m_, ast.Assign(targets=[stores["k"].targets[0]], value=val_, lineno=stores["k"].lineno)) for m_, val_ in found]
    if len(masks) != 2 or "discriminant" not in stores or "P_RAM" not in stores:
        raise AnalysisError("P_RAM._compute_values: k masks / discriminant / P_RAM stores not found")
    masks = [(inline_single_defs(f.node, m_), ast.Assign(targets=st_.targets, value=inline_single_defs(f.node, st_.value),
                                                          lineno=st_.lineno)) for m_, st_ in masks]
    stores = dict(stores)
    for key_ in ("discriminant", "P_RAM"):
        st_ = stores[key_]
        stores[key_] = ast.Assign(targets=st_.targets, value=inline_single_defs(f.node, st_.value), lineno=st_.lineno)

    def atom(e):
        c = _col(e)
        if c is not None:
            return c
        if is_self_attr(e, "_M_sigma"):
            return "M"
        if isinstance(e, ast.Attribute) and is_self_attr(e.value, "_assessment_parameters"):
            return e.attr
        if isinstance(e, ast.Attribute) and is_self_attr(e.value, "_constants"):
            return "table_" + e.attr        # material-group table value, not the user's assessment parameter
        if isinstance(e, ast.Name):
            return e.id
        return None
    p = parse_pred(masks[0][0], lambda e: _col(e) or norm_text(e))
    q = parse_pred(masks[1][0], lambda e: _col(e) or norm_text(e))
    atoms = sorted(p.atoms | q.atoms)
    if atoms == ["0", "S_m"] and all(a != b for a, b in zip(p.table(atoms), q.table(atoms))):
        ctx.holds(f, masks[1][1], "k masks %s / %s partition the hystereses" % (norm_text(masks[0][0]), norm_text(masks[1][0])))
    else:
        ctx.violated(f, masks[1][1], "k masks %s / %s do not partition on S_m vs 0" % (norm_text(masks[0][0]), norm_text(masks[1][0])))
    from ..astutil import oriented

    def selects_positive(m_):
        o_ = oriented(m_)                        # L < R  or  L <= R
        if not (isinstance(o_, ast.Compare) and len(o_.ops) == 1 and isinstance(o_.ops[0], (ast.Lt, ast.LtE))):
            return None
        if const_value(o_.left) in (0, 0.0) and _col(o_.comparators[0]) == "S_m":
            return True                          # 0 <(=) S_m
        if const_value(o_.comparators[0]) in (0, 0.0) and _col(o_.left) == "S_m":
            return False                         # S_m <(=) 0
        return None
    pos = [m for m in masks if selects_positive(m[0]) is True]
    neg = [m for m in masks if selects_positive(m[0]) is False]
    if len(pos) != 1 or len(neg) != 1:
        raise AnalysisError("P_RAM._compute_values: the two mean-stress masks were not understood")
    try:
        kp = to_nf(pos[0][1].value, atom=atom)
        kn = to_nf(neg[0][1].value, atom=atom)
        M = RF.sym("M")
        if kp == M * (M + RF.const(2)):
            ctx.holds(f, pos[0][1], "k(S_m >= 0) == M (M + 2)")
        else:
            ctx.violated(f, pos[0][1], "k for non-negative mean stress is %r, the guideline's factor is M (M + 2)" % kp)
        third = M / RF.const(3)
        if kn == third * (third + RF.const(2)):
            ctx.holds(f, neg[0][1], "k(S_m < 0) == k+(M/3)")
        else:
            ctx.violated(f, neg[0][1], "k for negative mean stress is %r, expected M/3 (M/3 + 2)" % kn)
        disc = to_nf(stores["discriminant"].value, atom=atom)
        if disc == RF.sym("S_a") + RF.sym("k") * RF.sym("S_m"):
            ctx.holds(f, stores["discriminant"], "discriminant == S_a + k S_m")
        else:
            ctx.violated(f, stores["discriminant"], "discriminant is %r, expected S_a + k S_m" % disc)
        w = _where_tree(stores["P_RAM"].value)
        ok = w[0] == "where" and _same_cmp(w[1], "self._collective['discriminant'] >= 0") and const_value(w[3][1]) in (0, 0.0)
        rad = None
        if ok and isinstance(w[2][1], ast.Call) and call_name(w[2][1]) == "np.sqrt":
            rad = to_nf(w[2][1].args[0], atom=atom)
        if ok and rad == RF.sym("discriminant") * RF.sym("epsilon_a") * RF.sym("E"):
            ctx.holds(f, stores["P_RAM"], "P_RAM == sqrt(discriminant * eps_a * E) where discriminant >= 0, else 0")
        else:
            ctx.violated(f, stores["P_RAM"], "P_RAM column is %s (radicand %r); expected sqrt((S_a + k S_m) eps_a E) with E of the "
                         "assessment parameters under discriminant >= 0, 0 otherwise" % (norm_text(stores["P_RAM"].value)[:120], rad))
    except NFUnsupported as e:
        raise AnalysisError("P_RAM formula outside the fragment: %s" % e)
    # M_sigma identical in P_RAM and P_RAJ
    g = prog.func(DP + "P_RAJ._compute_S_open")
    ms = []
    for fn in (f, g):
        st = [s for s in fn.node.body if isinstance(s, ast.Assign) and is_self_attr(s.targets[0], "_M_sigma")]
        if len(st) != 1:
            raise AnalysisError("%s: M_sigma definition not found" % fn.key)
        loc = {}
        for x in walk_function(fn.node):
            if isinstance(x, ast.Assign) and isinstance(x.targets[0], ast.Name) and isinstance(x.value, ast.Attribute) and \
                    is_self_attr(x.value.value, "_assessment_parameters"):
                loc[x.targets[0].id] = x.value.attr

        def atom_m(e, loc=loc):
            if isinstance(e, ast.Name) and e.id in loc:
                return loc[e.id]
            return atom(e)
        clamps = [c_ for c_ in ast.walk(st[0].value) if isinstance(c_, ast.Call) and (call_name(c_) or "") in
                  ("max", "min", "abs", "np.maximum", "np.minimum", "np.clip", "np.abs", "np.fmax", "np.fmin", "np.where")]
        if clamps:
            # the guideline formula is linear in R_m with a NEGATIVE intercept (table constants are not positive symbols): a clamp
            # changes it for low-strength material, and the normal form would resolve max(x, 0) to x
            ctx.violated(fn, st[0], "the mean stress sensitivity is clamped / selected (%s): M_sigma = a_M * 1e-3 * R_m + b_M is negative for "
                         "low tensile strengths (b_M < 0), the clamp turns the mean stress dependence of the damage parameter off there "
                         "and the two damage parameters no longer use the same sensitivity" % norm_text(clamps[0])[:70], text="M_sigma clamped in " + fn.name)
            return
        ms.append((fn, st[0], to_nf(st[0].value, atom=atom_m)))
    if ms[0][2] == ms[1][2] == to_nf(parse_expr("table_a_M*R_m/1000 + table_b_M")):
        ctx.holds(ms[1][0], ms[1][1], "M_sigma = a_M * 1e-3 * R_m + b_M in both damage parameters")
    else:
        ctx.violated(ms[1][0], ms[1][1], "mean stress sensitivity differs between P_RAM (%r) and P_RAJ (%r)" % (ms[0][2], ms[1][2]))


def _constants(ctx):
    prog = ctx.prog
    ctx.rule("R-C09-3", floor=25, what="every constant read from for_material_group(...) is defined for every material group")
    m = prog.module("pylife.strength.fkm_nonlinear.constants")
    table = None
    for s in m.tree.body:
        if isinstance(s, ast.Assign) and isinstance(s.targets[0], ast.Name) and s.targets[0].id == "all_constants":
            d = s.value.args[0] if isinstance(s.value, ast.Call) else s.value
            if isinstance(d, ast.Dict):
                table = {const_value(k): {const_value(kk) for kk in v.keys} for k, v in zip(d.keys, d.values)}
    if not table or len(table) < 3:
        raise AnalysisError("constants table not found")
    fm = prog.func("pylife.strength.fkm_nonlinear.constants:for_material_group")
    aliases = {}
    from ..astutil import unroll_literal_loops
    for s in unroll_literal_loops(list(fm.node.body)):       # short keys may be assigned by a loop over a literal table of pairs
        if isinstance(s, ast.Assign) and isinstance(s.targets[0], ast.Subscript) and isinstance(s.value, ast.Subscript):
            aliases[const_value(s.targets[0].slice)] = const_value(s.value.slice)
    groups = sorted(table)
    used = {}
    for key, fi in prog.functions.items():
        names = set()
        attrs = set()
        for s in walk_function(fi.node):
            if isinstance(s, ast.Assign) and isinstance(s.value, ast.Call) and (call_name(s.value) or "").endswith("for_material_group"):
                t = s.targets[0]
                if isinstance(t, ast.Name):
                    names.add(t.id)
                elif is_self_attr(t):
                    attrs.add(t.attr)
        ci = fi.cls
        cls_attrs = set()
        if ci is not None:
            for defs in ci.methods.values():
                for s in walk_function(defs[-1].node):
                    if isinstance(s, ast.Assign) and is_self_attr(s.targets[0]) and isinstance(s.value, ast.Call) and \
                            (call_name(s.value) or "").endswith("for_material_group"):
                        cls_attrs.add(s.targets[0].attr)
        for n in ast.walk(fi.node):
            if isinstance(n, ast.Attribute) and ((isinstance(n.value, ast.Name) and n.value.id in names) or
                                                 (is_self_attr(n.value) and n.value.attr in cls_attrs)):
                used.setdefault(n.attr, (fi, n))
            if isinstance(n, ast.Subscript) and isinstance(const_value(n.slice), str) and \
                    ((isinstance(n.value, ast.Name) and n.value.id in names) or (is_self_attr(n.value) and n.value.attr in cls_attrs)):
                used.setdefault(const_value(n.slice), (fi, n))
    if len(used) < 25:
        raise AnalysisError("only %d constants found in use; expected >= 25" % len(used))
    for name, (fi, node) in sorted(used.items()):
        src = aliases.get(name, name)
        missing = [g for g in groups if src not in table[g]]
        if name in aliases and aliases[name] is None:
            missing = groups
        if missing:
            ctx.violated(fi, node, "constant %r is read from the material-group constants but is not defined for %s: the value "
                         "would silently be NaN" % (name, missing), text="constant " + name)
        else:
            ctx.holds(fi, node, "constant %s defined for %s" % (name, "/".join(groups)))
    for a, src in aliases.items():
        missing = [g for g in groups if src not in table[g]]
        if missing:
            ctx.violated(fm, fm.node, "alias %s -> %s is not defined for %s" % (a, src, missing), text="alias " + a)


def _pair_table(prog, f):
    """the (P_A, beta) table `f` iterates over: a literal list/tuple of pairs, bound to a local, written in place, or (before
    the canonical form propagated it) a module constant -> (name or None, [(P_A, beta)], node) or None"""
    def pairs_of(v):
        if isinstance(v, (ast.List, ast.Tuple)) and len(v.elts) > 1 and all(isinstance(e, (ast.Tuple, ast.List)) and len(e.elts) == 2
                                                                             for e in v.elts):
            ps = [(const_value(e.elts[0]), const_value(e.elts[1])) for e in v.elts]
            if all(isinstance(a, (int, float)) and isinstance(b, (int, float)) for a, b in ps):
                return ps
        return None
    cands = []
    named = set()
    for s_ in walk_function(f.node):
        if isinstance(s_, ast.Assign) and len(s_.targets) == 1 and isinstance(s_.targets[0], ast.Name) and pairs_of(s_.value):
            cands.append((s_.targets[0].id, pairs_of(s_.value), s_))
            named.add(id(s_.value))
    for n_ in ast.walk(f.node):
        if id(n_) not in named and pairs_of(n_) and not any(c_[1] == pairs_of(n_) for c_ in cands):
            cands.append((None, pairs_of(n_), n_))
    return cands[0] if len(cands) == 1 else None


def _beta(ctx):
    prog = ctx.prog
    ctx.rule("R-C09-4", floor=9, what="beta table == -Phi^-1(P_A); alpha shape shared by normal/log-normal; blanket factors")
    from ..absint import Interp, TermDomain, term_resolve, term_select, term_to_ast, RAISED
    from ..astutil import inline_single_defs
    LD = "pylife.strength.fkm_load_distribution:"
    f = prog.func(LD + "FKMLoadSequence._get_beta")
    tab = _pair_table(prog, f)
    if tab is None:
        raise AnalysisError("_get_beta: (P_A, beta) table not found")
    tname, pairs, tnode = tab
    nd = NormalDist()
    if len(pairs) < 6:
        raise AnalysisError("_get_beta: fewer than 6 tabulated pairs")
    for pa, b in pairs:
        ref = -nd.inv_cdf(pa)
        if abs(b - ref) < 0.01:
            ctx.holds(f, tnode, "beta(%g) = %g matches -Phi^-1 = %.4f" % (pa, b, ref))
        else:
            ctx.violated(f, tnode, "tabulated beta(%g) = %g but -Phi^-1(%g) = %.4f" % (pa, b, pa, ref), text="beta %g %g" % (pa, b))
    # the look-up: an iteration over the table with target (a, b), filter isclose(<requested P_A>, a), result b
    param = [p_ for p_ in f.params if p_ != "self"]

    def requested(e):
        e = inline_single_defs(f.node, e)
        return isinstance(e, ast.Attribute) and e.attr == "P_A" and isinstance(e.value, ast.Name) and e.value.id in param

    def close_test(t, a_name):
        if isinstance(t, ast.Call) and call_name(t) in ("np.isclose", "math.isclose") and len(t.args) >= 2:
            x, y = t.args[0], t.args[1]
            for u, w in ((x, y), (y, x)):
                if isinstance(w, ast.Name) and w.id == a_name and requested(u):
                    return True
        return False
    verdict = None                       # (ok, node, what)
    for n_ in ast.walk(f.node):
        tgt = it_ = None
        if isinstance(n_, ast.For):
            tgt, it_ = n_.target, n_.iter
        elif isinstance(n_, (ast.ListComp, ast.GeneratorExp)) and len(n_.generators) == 1:
            tgt, it_ = n_.generators[0].target, n_.generators[0].iter
        over_table = (isinstance(it_, ast.Name) and it_.id == tname) or (tname is None and it_ is tnode) or \
            (it_ is not None and ast.dump(it_) == ast.dump(tnode if not isinstance(tnode, ast.Assign) else tnode.value))
        if tgt is None or not (over_table and isinstance(tgt, ast.Tuple) and len(tgt.elts) == 2
                               and all(isinstance(x_, ast.Name) for x_ in tgt.elts)):
            continue
        a_name, b_name = tgt.elts[0].id, tgt.elts[1].id
        if isinstance(n_, ast.For):
            hits = [x_ for x_ in n_.body if isinstance(x_, ast.If) and x_.body and isinstance(x_.body[-1], ast.Return)]
            if len(hits) == 1:
                got = hits[0].body[-1].value
                ok = close_test(hits[0].test, a_name) and isinstance(got, ast.Name) and got.id == b_name
                verdict = (ok, n_, "for/if/return")
        else:
            ifs = n_.generators[0].ifs
            if len(ifs) == 1 and isinstance(n_.elt, ast.Name):
                ok = close_test(ifs[0], a_name) and n_.elt.id == b_name
                # the comprehension keeps table order; the first match must be the one returned
                par = getattr(n_, "_parent", None)
                holder = par.targets[0].id if isinstance(par, ast.Assign) and isinstance(par.targets[0], ast.Name) else None
                first = False
                for r_ in walk_function(f.node):
                    if isinstance(r_, ast.Return) and r_.value is not None:
                        v_ = r_.value
                        if isinstance(v_, ast.Subscript) and const_value(v_.slice) == 0 and (
                                (isinstance(v_.value, ast.Name) and v_.value.id == holder) or v_.value is n_):
                            first = True
                        if isinstance(v_, ast.Call) and call_name(v_) == "next" and v_.args and v_.args[0] is n_:
                            first = True
                if not first:
                    continue
                verdict = (ok, n_, "first match of a filtered comprehension")
    if verdict is None:
        raise AnalysisError("_get_beta: the look-up over the (P_A, beta) table uses an idiom that is not in the accepted table "
                            "(for/if isclose/return, first element of a filtered comprehension)")
    if verdict[0]:
        ctx.holds(f, verdict[1], "beta is looked up by the requested P_A (%s)" % verdict[2])
    else:
        ctx.violated(f, verdict[1], "beta look-up does not return the beta paired with the requested P_A")
    # ---- gamma_L of the two distributions: read off the symbolic return value for P_L = 2.5 % and otherwise
    want = {True: to_nf(parse_expr("(0.7*beta - 2)*SD")), False: to_nf(parse_expr("0.7*beta*SD"))}

    def is_close(c, val):
        return isinstance(c, tuple) and len(c) >= 3 and c[0] == "call" and c[1] in ("np.isclose", "math.isclose") and \
            len(c[2]) >= 2 and any(x_ == ("c", val) or x_ == ("c", float(val)) for x_ in c[2][:2]) and \
            any(isinstance(x_, tuple) and len(x_) == 3 and x_[0] == "attr" and x_[2] == "P_L" for x_ in c[2][:2])

    for cls, sd in (("FKMLoadDistributionNormal", "s_L"), ("FKMLoadDistributionLognormal", "LSD_s")):
        g = prog.func(LD + cls + ".gamma_L")
        it = Interp(prog, TermDomain(), max_depth=3, follow=lambda f_: False, single_exit=True)
        full = it.run(g, [("p", q) for q in g.params if q != "self"])

        def named(t, sd=sd):
            if isinstance(t, tuple) and t:
                if t[0] == "attr" and len(t) == 3 and t[2] == sd:
                    return ("p", "SD")
                if t[0] == "m" and t[2] == "_get_beta":
                    return ("p", "beta")
                if t[0] == "m" and t[2] == "maximum_absolute_load":
                    return ("p", "Lmax")
                return tuple(named(x_) if isinstance(x_, tuple) else x_ for x_ in t)
            return t

        def nf_of(t):
            return to_nf(term_to_ast(t), atom=lambda e: e.id if isinstance(e, ast.Name) else None)
        for is25 in (True, False):
            label = "P_L = 2.5 %" if is25 else "P_L = 50 %"
            t = named(term_resolve(full, lambda c, is25=is25: is25 if is_close(c, 2.5) else None))
            left = [x_ for x_ in term_walk_(t) if isinstance(x_, tuple) and x_ and x_[0] in ("ite", "phi", "?")]
            if left:
                if any(x_[0] == "ite" and not is_close(x_[1], 2.5) for x_ in left):
                    ctx.violated(g, g.node, "%s load safety factor is not keyed on the single test P_L = 2.5 %% (also on %s)"
                                 % (cls, [x_[1] for x_ in left if x_[0] == "ite"][:1]), text="%s keyed" % cls)
                    break
                raise AnalysisError("%s.gamma_L: the returned value was not understood" % cls)
            try:
                if cls == "FKMLoadDistributionNormal":
                    ok = nf_of(t) == (to_nf(parse_expr("Lmax")) + want[is25]) / to_nf(parse_expr("Lmax"))
                    shape = "(L_max + alpha)/L_max"
                else:
                    shape = "max(1, 10**alpha)"
                    ok = isinstance(t, tuple) and t[0] == "call" and t[1] in ("max", "np.maximum") and len(t[2]) == 2 and not t[3]
                    if ok:
                        one = [a_ for a_ in t[2] if a_ in (("c", 1), ("c", 1.0))]
                        pw = [a_ for a_ in t[2] if isinstance(a_, tuple) and a_[0] == "op" and a_[1] == "**" and
                              a_[2] in (("c", 10), ("c", 10.0))]
                        ok = len(one) == 1 and len(pw) == 1 and nf_of(pw[0][3]) == want[is25]
            except (NFUnsupported, ValueError) as ex:
                raise AnalysisError("%s.gamma_L outside the fragment: %s" % (cls, ex))
            if ok:
                ctx.holds(g, g.node, "%s, %s: gamma_L = %s with alpha = %s" % (cls, label, shape,
                                                                           "(0.7 beta - 2) s" if is25 else "0.7 beta s"))
            else:
                ctx.violated(g, g.node, "%s, %s: gamma_L is not %s with alpha = %s" % (
                    cls, label, shape, "(0.7 beta - 2) s" if is25 else "0.7 beta s"), text="%s %s" % (cls, label))
    gb = prog.func(LD + "FKMLoadDistributionBlanket.gamma_L")
    it = Interp(prog, TermDomain(), max_depth=3, follow=lambda f_: False, single_exit=True, raise_leaf=True)
    full = it.run(gb, [("p", q) for q in gb.params if q != "self"])
    vals = {}
    for key, truth in ((2.5, {2.5: True, 50: False}), (50, {2.5: False, 50: True}), (None, {2.5: False, 50: False})):
        v = term_select(full, lambda c, truth=truth: next((tv for k_, tv in truth.items() if is_close(c, k_)), None))
        vals[key] = None if v is None else ("raises" if v == RAISED else v[1] if v[0] == "c" else v)
    if any(v is None for v in vals.values()):
        raise AnalysisError("FKMLoadDistributionBlanket.gamma_L: the case analysis on P_L was not understood")
    if vals == {2.5: 1.1, 50: 1.0, None: "raises"}:
        ctx.holds(gb, gb.node, "blanket: 1.1 for P_L = 2.5 %, 1.0 for P_L = 50 %, anything else is refused")
    else:
        ctx.violated(gb, gb.node, "blanket load safety factors are %s, expected {2.5: 1.1, 50: 1.0, other: raises}" % vals,
                     text="blanket factors")


def term_walk_(t):
    from ..absint import term_walk
    return term_walk(t)


def _replace_in(expr, target, repl):
    if expr is target:
        return repl
    if isinstance(expr, ast.AST):
        new = type(expr)()
        for k, v in ast.iter_fields(expr):
            setattr(new, k, _replace_in(v, target, repl))
        return ast.copy_location(new, expr) if hasattr(expr, "lineno") else new
    if isinstance(expr, list):
        return [_replace_in(x, target, repl) for x in expr]
    return expr


def _ifexp_cases(expr, tests=()):
    """Case split of an expression on the conditional expressions it contains: [(((test, taken), ...), expr)]."""
    first = None
    for n in ast.walk(expr):
        if isinstance(n, ast.IfExp):
            first = n
            break
    if first is None:
        return [(list(tests), expr)]
    out = []
    for taken, arm in ((True, first.body), (False, first.orelse)):
        if any(norm_text(t) == norm_text(first.test) and tk != taken for t, tk in tests):
            continue
        e2 = _replace_in(expr, first, arm)
        tt = tests if any(norm_text(t) == norm_text(first.test) for t, _ in tests) else tests + ((first.test, taken),)
        out.extend(_ifexp_cases(e2, tt))
    return out


def _attr_defs(prog, ci, attr):
    """(method, assignment) pairs that store self.<attr>; the stored value is given with private helpers expanded and
    temporaries removed, so that what it is computed from can be read off"""
    from ..inline import inlined
    from ..astutil import inline_single_defs
    out = []
    for name, fs in ci.methods.items():
        f = fs[-1]
        if not any(isinstance(st, ast.Assign) and any(is_self_attr(t, attr) for t in st.targets) for st in walk_function(f.node)):
            continue
        fx = inlined(prog, f)
        for st in walk_function(fx.node):
            if isinstance(st, ast.Assign) and any(is_self_attr(t, attr) for t in st.targets):
                st2 = ast.Assign(targets=st.targets, value=inline_single_defs(fx.node, st.value), lineno=st.lineno,
                                 col_offset=st.col_offset)
                out.append((f, st2))
    return out


def _run_filter(e):
    """the run_index values an expression over the collective is restricted to (None: all rows)"""
    vals = set()
    for n in ast.walk(e):
        if isinstance(n, ast.Compare) and len(n.ops) == 1 and isinstance(n.ops[0], ast.Eq) and "run_index" in norm_text(n.left):
            vals.add(const_value(n.comparators[0]))
    return vals or None


def _accumulation(ctx):
    """Lifetime accumulation of the two damage calculators.  The early-failure index is a position in the cumulative damage
    of the whole hysteresis table (both passes), so the bound it is compared with must be the row count of that same table;
    both lifetime properties of a class use the same early-failure test; the P_RAM repetition count is
    (1 - D_1)/D_2 + 1 with D_1, D_2 the damage sums of pass 1 and pass 2, and cycles per repetition is the pass-2 count."""
    ctx.rule("R-C09-6", floor=8, what="early-failure index and its bound refer to the same table; both lifetime properties agree; x = (1-D1)/D2")
    _accumulation_core(ctx)


def _accumulation_core(ctx):
    prog = ctx.prog
    for cname in ("DamageCalculatorPRAM", "DamageCalculatorPRAJ"):
        ci = prog.cls(DC + cname)
        tests = []
        for prop in ("lifetime_n_times_load_sequence", "lifetime_n_cycles"):
            from ..inline import inlined
            f = inlined(prog, prog.lookup_method(ci, prop))     # private helpers (extracted tests / sums) expanded
            w = [c for c in calls_in(f.node) if call_name(c) == "np.where" and len(c.args) == 3 and
                 isinstance(c.args[0], ast.Compare) and is_self_attr(c.args[0].left) and is_self_attr(c.args[0].comparators[0])
                 and isinstance(c.args[0].ops[0], ast.Lt)]
            if len(w) != 1:
                raise AnalysisError("%s.%s: early-failure selection not found" % (cname, prop))
            c = w[0]
            idx_attr, bound_attr = c.args[0].left.attr, c.args[0].comparators[0].attr
            idefs, bdefs = _attr_defs(prog, ci, idx_attr), _attr_defs(prog, ci, bound_attr)
            if not idefs or not bdefs:
                raise AnalysisError("%s: definitions of %s / %s not found" % (cname, idx_attr, bound_attr))
            i_ok = all("searchsorted" in norm_text(st.value) and "cumulative_damage" in norm_text(st.value) for _, st in idefs)
            ifil = {frozenset(_run_filter(st.value) or ()) for _, st in idefs}
            bfil = {frozenset(_run_filter(st.value) or ()) for _, st in bdefs}
            b_cnt = all(any(isinstance(x.func, ast.Attribute) and x.func.attr in ("count", "size") for x in calls_in(st.value)) or
                        call_name(st.value) == "len" for _, st in bdefs)
            if i_ok and b_cnt and ifil == bfil and len(ifil) == 1:
                ctx.holds(f, c, "%s.%s: position in the cumulative damage of %s is compared with the row count of the same rows (%s)"
                          % (cname, prop, "all rows" if not next(iter(ifil)) else "run %s" % sorted(next(iter(ifil))), bound_attr))
            else:
                ctx.violated(f, c, "%s.%s: the early-failure test compares %s (a position in the cumulative damage over %s) with "
                             "%s (a count over %s): a failure position between the two counts is treated as no early failure%s"
                             % (cname, prop, idx_attr, "all rows" if ifil == {frozenset()} else "rows %s" % [sorted(x) for x in ifil],
                                bound_attr, "all rows" if bfil == {frozenset()} else "rows of run %s" % [sorted(x) for x in bfil],
                                "" if i_ok and b_cnt else " (or the operands are not an index / a count)"),
                             text="early failure bound %s.%s" % (cname, prop))
            tests.append((f, c, norm_text(c.args[0]), c))
        if tests[0][2] == tests[1][2]:
            ctx.holds(tests[1][0], tests[1][1], "%s: both lifetime properties use the same early-failure test %s" % (cname, tests[0][2]))
        else:
            ctx.violated(tests[1][0], tests[1][1], "%s: lifetime_n_times_load_sequence tests %s but lifetime_n_cycles tests %s: the two "
                         "results contradict each other for some tables" % (cname, tests[0][2], tests[1][2]), text="early failure siblings " + cname)
        # in the early-failure case the cycles are the failure position itself, the repetitions 0
        f1, c1 = tests[0][0], tests[0][3]
        f2, c2 = tests[1][0], tests[1][3]
        if const_value(c1.args[1]) == 0 and is_self_attr(c2.args[1], c2.args[0].left.attr):
            ctx.holds(f2, c2, "%s: early failure -> 0 repetitions, cycles = failure position" % cname)
        else:
            ctx.violated(f2, c2, "%s: in the early-failure case the results are %s / %s, expected 0 and the failure position"
                         % (cname, norm_text(c1.args[1]), norm_text(c2.args[1])), text="early failure values " + cname)
    # P_RAM: x and cycles per repetition
    ci = prog.cls(DC + "DamageCalculatorPRAM")
    f = inlined(prog, prog.lookup_method(ci, "lifetime_n_times_load_sequence"))
    from ..astutil import inline_single_defs
    # decided on the symbolic value the property returns (helpers followed, locals resolved): where(<early failure>, 0, x + 1)
    # with x = (1 - D1)/D2, D_r = <rows of run r>["D"] ... .sum() possibly passed through a fill-up / conversion wrapper
    from ..absint import Interp, TermDomain, term_walk, term_to_nf
    f0 = prog.lookup_method(ci, "lifetime_n_times_load_sequence")
    val = Interp(prog, TermDomain(), max_depth=3).run(f0, [])

    def pass_of(t):
        """('D'|'X', run) if the term is one damage / other sum over the rows of exactly one run, else None"""
        runs, has_sum, has_d = set(), False, False
        for x_ in term_walk(t):
            if isinstance(x_, tuple) and x_:
                if x_[0] == "cmp" and x_[1] == "eq" and len(x_) == 4:
                    for u_, w_ in ((x_[2], x_[3]), (x_[3], x_[2])):
                        if isinstance(w_, tuple) and w_[0] == "c" and isinstance(w_[1], int) and \
                                any(y_ == ("c", "run_index") for y_ in term_walk(u_)):
                            runs.add(w_[1])
                if x_[0] == "m" and len(x_) > 2 and x_[2] == "sum":
                    has_sum = True
                if x_ == ("c", "D"):
                    has_d = True
        if has_sum and len(runs) == 1:
            return ("D" if has_d else "X"), next(iter(runs))
        return None

    def atom(t):
        if isinstance(t, tuple) and t and t[0] in ("m", "call", "at", "attr", "series") and not (t[0] == "call" and t[1] == "np.where"):
            ps = pass_of(t)
            if ps:
                return "%s%d" % ps
        return None

    def strip(t):
        while isinstance(t, tuple) and t and ((t[0] == "m" and t[2] in ("squeeze", "to_numpy", "copy")) or
                                              (t[0] == "call" and t[1] in ("np.asarray", "np.array") and t[2])):
            t = t[1] if t[0] == "m" else t[2][0]
        return t
    val = strip(val)
    sel = val if isinstance(val, tuple) and val and val[0] == "where" else None
    if sel is None:
        raise AnalysisError("lifetime_n_times_load_sequence: the early-failure selection of the result was not found")
    regular = strip(sel[3] if sel[2] == ("c", 0) else sel[2])      # ('where', mask, new, old): the value where the mask is false
    want = to_nf(parse_expr("(1 - D1) / D2"))
    xt = None
    if isinstance(regular, tuple) and regular[0] == "op" and regular[1] == "+":
        for side, other in ((regular[2], regular[3]), (regular[3], regular[2])):
            if other in (("c", 1), ("c", 1.0)):
                xt = strip(side)
    if xt is None:
        ctx.violated(f0, f0.node, "repetitions of the sequence are not x + 1", text="x plus one")
    else:
        ctx.holds(f0, f0.node, "repetitions of the sequence = x + 1 (pass 1 counts once)")
        bad = [atom(x_) for x_ in term_walk(xt) if atom(x_) and atom(x_).startswith("X")]
        try:
            if bad:
                ok, why = False, "the damage sum of pass %s is not the sum of the per-hysteresis damage column D: half hystereses of " \
                    "that pass are not counted with 1/2 as everywhere else" % bad[0][1:]
            elif isinstance(xt, tuple) and xt[0] == "where" and len(xt) == 4:
                # where(D1 == 0, 1/D2, (1 - D1)/D2)
                cnd, spec_t, gen_t = xt[1], xt[2], xt[3]
                cond_ok = isinstance(cnd, tuple) and cnd[0] == "cmp" and cnd[1] == "eq" and \
                    ((cnd[2] in (("c", 0), ("c", 0.0)) and atom(cnd[3]) == "D1") or (cnd[3] in (("c", 0), ("c", 0.0)) and atom(cnd[2]) == "D1"))
                ok = cond_ok and term_to_nf(gen_t, atom) == want and term_to_nf(spec_t, atom) == _subst_atom(want, "D1", RF.const(0))
                why = "the number of repetitions of pass 2 is not (1 - D_1)/D_2 (with its special case for D_1 = 0)"
            else:
                ok = term_to_nf(xt, atom) == want
                why = "the number of repetitions of pass 2 is not (1 - D_1)/D_2"
        except NFUnsupported:
            raise AnalysisError("lifetime_n_times_load_sequence: damage sums of pass 1/2 or the x formula not found")
        if ok:
            ctx.holds(f0, f0.node, "x = (1 - D_1)/D_2 with D_1 = damage of pass 1, D_2 = damage of pass 2 (special case D_1 = 0 consistent)")
        else:
            ctx.violated(f0, f0.node, why + "; expected (1 - D_1)/D_2", text="x formula")
    g = prog.lookup_method(ci, "lifetime_n_cycles")
    w = [c for c in calls_in(g.node) if call_name(c) == "np.where"][0]
    per = [n for n in ast.walk(w.args[2]) if is_self_attr(n)]
    pdefs = [d for n in per for d in _attr_defs(prog, ci, n.attr)]
    pf = {frozenset(_run_filter(st.value) or ()) for _, st in pdefs}
    uses_x1 = any(isinstance(n, ast.Name) for n in ast.walk(w.args[2])) or any(
        isinstance(n, ast.Attribute) and n.attr == "lifetime_n_times_load_sequence" for n in ast.walk(w.args[2]))
    if pdefs and pf == {frozenset({2})} and isinstance(w.args[2], ast.BinOp) and isinstance(w.args[2].op, ast.Mult) and uses_x1:
        ctx.holds(g, w, "cycles = repetitions * number of hystereses of pass 2")
    else:
        ctx.violated(g, w, "cycles until failure are %s; expected repetitions times the hysteresis count of pass 2" % norm_text(w.args[2]),
                     text="cycles per repetition")


def _half(ctx):
    prog = ctx.prog
    ctx.rule("R-C09-5", floor=4, what="half hystereses count 1/2 in all copies of the damage formula; N copies agree")
    sites = []
    mods = {DC.rstrip(":"), DP.rstrip(":")}
    fis = [fi for k, fi in sorted(prog.functions.items()) if fi.module.name in mods and fi.parent is None]
    for fi in fis:
        for s in walk_function(fi.node, include_nested=True):
            if isinstance(s, ast.Assign) and isinstance(s.value, ast.Call) and call_name(s.value) == "np.where" and \
                    len(s.value.args) == 3 and "is_closed_hysteresis" in norm_text(s.value.args[0]):
                sites.append((fi, s))
    classes = {fi.cls.name if fi.cls is not None else fi.key for fi, _ in sites}
    if len(sites) < 2 or len(classes) < 2:
        raise AnalysisError("the damage formula (closed: 1/N, half: 0.5/N) was found in %d place(s) of %d class(es); both the P_RAM "
                            "calculator and the P_RAJ crack-opening loop have one" % (len(sites), len(classes)))
    for fi, s in sites:
        c, a, b = s.value.args

        def atom(e):
            if isinstance(e, ast.Name):
                return "N"
            if isinstance(e, ast.Subscript) and const_value(e.slice) == "N":
                return "N"
            return None
        try:
            ok = to_nf(a, atom=atom) == to_nf(parse_expr("1/N")) and to_nf(b, atom=atom) == to_nf(parse_expr("1/(2*N)")) and \
                len({x.id for x in ast.walk(a) if isinstance(x, ast.Name)} | {x.id for x in ast.walk(b) if isinstance(x, ast.Name)}) <= 1
        except NFUnsupported:
            ok = False
        if ok:
            ctx.holds(fi, s, "damage = where(closed, 1/N, 0.5/N)")
        else:
            ctx.violated(fi, s, "damage formula is where(closed, %s, %s); closed hystereses count 1/N and half hystereses 0.5/N" %
                         (norm_text(a), norm_text(b)))
    # the copies of N (constructor / shifted curve of N_max_bearable) agree up to the reference point; one shared copy is fine
    from ..astutil import inline_single_defs
    ns = []
    for fi in [f_ for f_ in fis if f_.module.name == DC.rstrip(":")]:
        for s in walk_function(fi.node, include_nested=True):
            if isinstance(s, ast.Assign) and isinstance(s.targets[0], ast.Subscript) and const_value(s.targets[0].slice) == "N" \
                    and isinstance(s.value, ast.Call) and call_name(s.value) == "np.where":
                ns.append((fi, s))
    if not ns:
        raise AnalysisError("the P_RAM cycle formula (column N) was not found")

    def canon(fi, s):
        owner = fi.node
        for n_ in ast.walk(fi.node):
            if isinstance(n_, ast.FunctionDef) and any(x_ is s for x_ in ast.walk(n_)):
                owner = n_                       # innermost function containing the statement
        val = inline_single_defs(owner, s.value, depth=4)       # temporaries (the column, the ratio, the inverse slopes) resolved
        if not (isinstance(val, ast.Call) and val.args):
            val = s.value
        cmp_ = val.args[0]
        ref = None
        if isinstance(cmp_, ast.Compare) and len(cmp_.ops) == 1:
            sides = [cmp_.left, cmp_.comparators[0]]
            col = [x_ for x_ in sides if "P_RAM" in {const_value(y_) for y_ in ast.walk(x_) if isinstance(y_, ast.Constant)}]
            other = [x_ for x_ in sides if x_ not in col]
            ref = other[0] if len(col) == 1 and len(other) == 1 else None
        if ref is None:
            return norm_text(val)
        marked = parse_expr(norm_text(val).replace(norm_text(ref), "REF"))
        return norm_text(inline_single_defs(owner, marked, keep=("REF",)))
    first = canon(*ns[0])
    if len(ns) == 1:
        ctx.holds(ns[0][0], ns[0][1], "one shared copy of the P_RAM cycle formula, reference point passed in")
    for fi, s in ns[1:]:
        b_ = canon(fi, s)
        if first == b_:
            ctx.holds(fi, s, "N formula == the first copy with the reference point replaced (P_RAM_Z -> reduced reference point)")
        else:
            ctx.violated(fi, s, "the copies of the P_RAM cycle formula differ beyond the reference point: %s  vs  %s" % (first, b_))


# =========================================================================== variants

WP = "src/pylife/strength/woehler_fkm_nonlinear.py"
DPP = "src/pylife/strength/damage_parameter.py"
DCP = "src/pylife/strength/fkm_nonlinear/damage_calculator.py"
CP = "src/pylife/strength/fkm_nonlinear/constants.py"
LP = "src/pylife/strength/fkm_load_distribution.py"


def variants():
    out = []

    def leak(tree):
        f = find_func(tree, "DamageCalculatorPRAM.get_lifetime_functions")
        for h in [n for n in ast.walk(f) if isinstance(n, ast.FunctionDef) and n is not f]:
            for i_, st in enumerate(h.body):
                if isinstance(st, ast.Try) and st.finalbody:
                    h.body[i_:i_ + 1] = st.body
                    return True
        return False
    out.append(witness("N_max_bearable overwrites the calculator's N and D columns for good", DCP, leak, "R-C09-11"))

    def restore_columnwise(tree):
        f = find_func(tree, "DamageCalculatorPRAM.get_lifetime_functions")
        for t in [n for n in ast.walk(f) if isinstance(n, ast.Try) and n.finalbody]:
            t.finalbody = [parse_stmt("self._collective['N'] = original_N_and_D['N']"), parse_stmt("self._collective['D'] = original_N_and_D['D']")]
            return True
        return False
    out.append(twin("columns restored one by one", DCP, restore_columnwise))

    def alias_table(tree):
        f = find_func(tree, "P_RAM.__init__")
        for st in ast.walk(f):
            if isinstance(st, ast.Assign) and is_self_attr(st.targets[0], "_collective") and isinstance(st.value, ast.Call) and \
                    isinstance(st.value.func, ast.Attribute) and st.value.func.attr == "copy":
                st.value = st.value.func.value
                return True
        return False
    out.append(witness("P_RAM annotates the caller's table instead of a copy", DPP, alias_table, "R-C09-9"))

    def pass2_full(tree):
        f = find_func(tree, "DamageCalculatorPRAM.lifetime_n_times_load_sequence")
        for st in ast.walk(f):
            if isinstance(st, ast.Assign) and isinstance(st.targets[0], ast.Name) and "run_index" in ast.unparse(st.value) and \
                    "== 2" in ast.unparse(st.value) and ".sum()" in ast.unparse(st.value):
                st.value = parse_expr("(1 / self._collective.loc[self._collective['run_index'] == 2, 'N'])"
                                      ".groupby('assessment_point_index').sum()")
                return True
        return False
    out.append(witness("pass-2 damage summed as 1/N (half hystereses count fully)", DCP, pass2_full, "R-C09-6"))

    def table_E(tree):
        f = find_func(tree, "P_RAM._compute_values")
        for n in ast.walk(f):
            if isinstance(n, ast.Attribute) and n.attr == "E" and is_self_attr(n.value, "_assessment_parameters"):
                n.value.attr = "_constants"
                return True
        return False
    out.append(witness("P_RAM uses the table value of E instead of the assessment parameter", DPP, table_E, "R-C09-2"))

    def early_bound_run2(tree):
        f = find_func(tree, "DamageCalculatorPRAM.lifetime_n_cycles")
        for n in ast.walk(f):
            if isinstance(n, ast.Compare) and is_self_attr(n.comparators[0], "_n_hystereses"):
                n.comparators[0].attr = "_n_hystereses_run_2"
                return True
        return False
    out.append(witness("early-failure bound is the pass-2 count", DCP, early_bound_run2, "R-C09-6"))

    def x_wrong(tree):
        f = find_func(tree, "DamageCalculatorPRAM.lifetime_n_times_load_sequence")
        for n in ast.walk(f):
            if isinstance(n, ast.BinOp) and isinstance(n.op, ast.Div) and isinstance(n.left, ast.BinOp) and isinstance(n.left.op, ast.Sub):
                n.right = parse_expr("damage_sum_first_run")
                return True
        return False
    out.append(witness("x = (1 - D1)/D1", DCP, x_wrong, "R-C09-6"))

    def praj_early_value(tree):
        f = find_func(tree, "DamageCalculatorPRAJ.lifetime_n_cycles")
        for c in calls_in(f):
            if call_name(c) == "np.where":
                c.args[1] = parse_expr("self._n_hystereses")
                return True
        return False
    out.append(witness("P_RAJ early failure reports the table length", DCP, praj_early_value, "R-C09-6"))

    def x_rewritten(tree):
        f = find_func(tree, "DamageCalculatorPRAM.lifetime_n_times_load_sequence")
        for n in ast.walk(f):
            if isinstance(n, ast.BinOp) and isinstance(n.op, ast.Div) and isinstance(n.left, ast.BinOp) and isinstance(n.left.op, ast.Sub):
                return replace_node(n, parse_expr("1 / damage_sum_second_run - damage_sum_first_run / damage_sum_second_run"))
        return False
    out.append(twin("x written as 1/D2 - D1/D2", DCP, x_rewritten))

    def gamma_branches(keep_max):
        def f(tree):
            g = find_func(tree, "FKMLoadDistributionLognormal.gamma_L")
            ifs = [s_ for s_ in g.body if isinstance(s_, ast.If)]
            if len(ifs) != 1:
                return False
            i = g.body.index(ifs[0])
            a25 = "max(1, 10 ** ((0.7 * beta - 2) * input_parameters.LSD_s))" if keep_max else \
                "10 ** ((0.7 * beta - 2) * input_parameters.LSD_s)"
            new = ast.parse("if np.isclose(input_parameters.P_L, 2.5):\n    gamma_L = %s\nelse:\n"
                            "    gamma_L = max(1, 10 ** (0.7 * beta * input_parameters.LSD_s))\nreturn gamma_L\n" % a25).body
            g.body[i:] = new
            return True
        return f
    out.append(witness("log-normal gamma_L computed per branch, lower bound 1 lost for P_L = 2.5 %", LP, gamma_branches(False),
                       "R-C09-4"))
    out.append(twin("log-normal gamma_L computed per branch with max(1, .) in both", LP, gamma_branches(True)))

    def beta_closed(expr):
        def f(tree):
            g = find_func(tree, "compute_beta")
            keep = [s_ for s_ in g.body if isinstance(s_, ast.Expr) and isinstance(s_.value, ast.Constant)]
            g.body[:] = keep + ast.parse("return %s\n" % expr).body
            return True
        return f
    PCP = "src/pylife/strength/fkm_nonlinear/parameter_calculations.py"
    out.append(witness("beta = ppf(1 - P_A)", PCP, beta_closed("scipy.stats.norm.ppf(1 - P_A)"), "R-C09-7"))
    out.append(twin("beta = -ppf(P_A)", PCP, beta_closed("-scipy.stats.norm.ppf(P_A)")))

    def beta_root(residual):
        def f(tree):
            g = find_func(tree, "compute_beta")
            keep = [s_ for s_ in g.body if isinstance(s_, ast.Expr) and isinstance(s_.value, ast.Constant)]
            g.body[:] = keep + ast.parse("result = scipy.optimize.root(lambda x: %s, x0=-0.6, tol=1e-10)\n"
                                         "return -result.x[0]\n" % residual).body
            return True
        return f
    out.append(witness("beta by a root search on |cdf - P_A|", PCP, beta_root("abs(scipy.stats.norm.cdf(x) - P_A)"), "R-C09-8"))
    out.append(twin("beta by a root search on the signed residual", PCP, beta_root("scipy.stats.norm.cdf(x) - P_A")))

    def swap_d(tree):
        f = find_func(tree, "WoehlerCurvePRAM.calc_P_RAM")
        hits = [n for n in ast.walk(f) if isinstance(n, ast.Attribute) and n.attr in ("d_1", "d_2")]
        for n in hits:
            n.attr = "d_2" if n.attr == "d_1" else "d_1"
        return bool(hits)
    out.append(witness("d_1 and d_2 swapped in calc_P_RAM", WP, swap_d, "R-C09-1"))

    def knee(tree):
        f = find_func(tree, "WoehlerCurvePRAM.calc_N")
        for n in ast.walk(f):
            if isinstance(n, ast.Constant) and n.value == 1000.0:
                n.value = 100.0
                return True
        return False
    out.append(witness("one branch of calc_N anchored at N = 100", WP, knee, "R-C09-1"))

    def life_limit(tree):
        f = find_func(tree, "WoehlerCurvePRAM.fatigue_life_limit")
        for n in ast.walk(f):
            if isinstance(n, ast.Attribute) and n.attr == "d_2":
                n.attr = "d_1"
                return True
        return False
    out.append(witness("fatigue_life_limit with d_1", WP, life_limit, "R-C09-1"))

    def outer(tree):
        f = find_func(tree, "WoehlerCurvePRAM.calc_N")
        w = [c for c in calls_in(f, name="np.where")][0]
        w.args[0].ops = [ast.GtE()]
        return True
    out.append(witness("finite life at exactly the endurance value", WP, outer, "R-C09-1"))

    def raj_inv(tree):
        f = find_func(tree, "WoehlerCurvePRAJ.calc_P_RAJ")
        for c in calls_in(f, name="np.power"):
            c.args[1] = parse_expr("1 / self.d")
            return True
        return False
    out.append(witness("calc_P_RAJ with exponent 1/d", WP, raj_inv, "R-C09-1"))

    def validator(tree):
        f = find_func(tree, "WoehlerCurvePRAM._validate")
        f.body = [s for s in f.body if not (isinstance(s, ast.If) and "d_2" in norm_text(s.test))]
        return True
    out.append(witness("validator accepts d_2 >= 0", WP, validator, "R-C09-1"))

    def k_neg(tree):
        f = find_func(tree, "P_RAM._compute_values")
        for s in f.body:
            if isinstance(s, ast.Assign) and isinstance(s.targets[0], ast.Subscript) and "< 0" in norm_text(s.targets[0]):
                s.value = parse_expr("self._M_sigma / 3 * (self._M_sigma + 2)")
                return True
        return False
    out.append(witness("k- = M/3 (M + 2)", DPP, k_neg, "R-C09-2"))

    def mask_gap(tree):
        f = find_func(tree, "P_RAM._compute_values")
        for s in f.body:
            if isinstance(s, ast.Assign) and isinstance(s.targets[0], ast.Subscript) and ">= 0" in norm_text(s.targets[0]):
                for n in ast.walk(s.targets[0]):
                    if isinstance(n, ast.Compare):
                        n.ops = [ast.Gt()]
                        return True
        return False
    out.append(witness("S_m = 0 gets k = 0", DPP, mask_gap, "R-C09-2"))

    def no_guard(tree):
        f = find_func(tree, "P_RAM._compute_values")
        for s in f.body:
            if isinstance(s, ast.Assign) and isinstance(s.targets[0], ast.Subscript) and const_value(s.targets[0].slice) == "P_RAM":
                s.value.args[2] = ast.Constant(1.0)
                return True
        return False
    out.append(witness("negative discriminant gives P_RAM = 1", DPP, no_guard, "R-C09-2"))

    def msigma(tree):
        f = find_func(tree, "P_RAJ._compute_S_open")
        for s in f.body:
            if isinstance(s, ast.Assign) and is_self_attr(s.targets[0], "_M_sigma"):
                s.value = parse_expr("self._constants.a_M * 0.001 * R_m - self._constants.b_M")
                return True
        return False
    out.append(witness("P_RAJ uses a_M R_m - b_M", DPP, msigma, "R-C09-2"))

    def missing_const(tree):
        for s in tree.body:
            if isinstance(s, ast.Assign) and isinstance(s.targets[0], ast.Name) and s.targets[0].id == "all_constants":
                d = s.value.args[0]
                al = d.values[[const_value(k) for k in d.keys].index("Al_wrought")]
                i = [const_value(k) for k in al.keys].index("k_st")
                del al.keys[i], al.values[i]
                return True
        return False
    out.append(witness("k_st missing for Al_wrought", CP, missing_const, "R-C09-3"))

    def roughness_const(tree):
        f = find_func(tree, "for_material_group")
        for s in f.body:
            if isinstance(s, ast.Assign) and isinstance(s.targets[0], ast.Subscript) and const_value(s.targets[0].slice) == "f_25percent_material_woehler_RAM":
                s.value.slice = ast.Constant("f_25percent_material_woehler_FKM_roughness_RAM")
                return True
        return False
    out.append(witness("alias points to a constant defined for steel only", CP, roughness_const, "R-C09-3"))

    def beta_typo(tree):
        f = find_func(tree, "FKMLoadSequence._get_beta")
        for n in ast.walk(f):
            if isinstance(n, ast.Constant) and n.value == 4.27:
                n.value = 4.72
                return True
        return False
    out.append(witness("beta 4.27 -> 4.72", LP, beta_typo, "R-C09-4"))

    def alpha_shape(tree):
        f = find_func(tree, "FKMLoadDistributionLognormal.gamma_L")
        br = [s for s in f.body if isinstance(s, ast.If)][0]
        br.body[0].value = parse_expr("(0.7 * beta - 1) * input_parameters.LSD_s")
        return True
    out.append(witness("log-normal alpha with -1", LP, alpha_shape, "R-C09-4"))

    def blanket(tree):
        f = find_func(tree, "FKMLoadDistributionBlanket.gamma_L")
        for n in ast.walk(f):
            if isinstance(n, ast.Constant) and n.value == 1.1:
                n.value = 1.0
                return True
        return False
    out.append(witness("blanket factor 1.0 for P_L = 2.5", LP, blanket, "R-C09-4"))

    def half_full(tree):
        f = find_func(tree, "DamageCalculatorPRAM.get_lifetime_functions")
        for n in ast.walk(f):
            if isinstance(n, ast.BinOp) and isinstance(n.op, ast.Div) and const_value(n.left) == 0.5:
                n.left = ast.Constant(1)
                return True
        return False
    out.append(witness("0.5/N -> 1/N in one copy", DCP, half_full, "R-C09-5"))

    def n_copy(tree):
        f = find_func(tree, "DamageCalculatorPRAM.get_lifetime_functions")
        hits = [n for n in ast.walk(f) if isinstance(n, ast.Attribute) and n.attr == "d_2"]
        if hits:
            hits[0].attr = "d_1"
            return True
        return False
    out.append(witness("N_max_bearable uses d_1 below the knee", DCP, n_copy, "R-C09-5"))

    # twins
    def calc_alt(tree):
        f = find_func(tree, "WoehlerCurvePRAM.calc_P_RAM")
        for c in calls_in(f, name="np.power"):
            c.args[0] = parse_expr("N / 1e3")
        return True
    out.append(twin("N*1e-3 written as N/1e3", WP, calc_alt))

    def k_alt(tree):
        f = find_func(tree, "P_RAM._compute_values")
        for s in f.body:
            if isinstance(s, ast.Assign) and isinstance(s.targets[0], ast.Subscript) and ">= 0" in norm_text(s.targets[0]):
                s.value = parse_expr("self._M_sigma ** 2 + 2 * self._M_sigma")
                return True
        return False
    out.append(twin("k+ = M^2 + 2M", DPP, k_alt))

    def half_alt(tree):
        f = find_func(tree, "DamageCalculatorPRAM.__init__")
        for n in ast.walk(f):
            if isinstance(n, ast.BinOp) and isinstance(n.op, ast.Div) and const_value(n.left) == 0.5:
                return replace_node(n, parse_expr("1 / (2 * self._collective['N'])"))
        return False
    out.append(twin("0.5/N written as 1/(2N)", DCP, half_alt))
    return out
