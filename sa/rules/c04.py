"""C04 — second HCM pass (structural clauses)."""
from __future__ import annotations

import ast

from ..nf import to_nf, NFUnsupported
from ..astutil import (inline_single_defs, oriented, call_name, calls_in, const_value, find_func, is_self_attr, names_in, parse_expr, parse_stmt,
                       replace_node)
from ..cfg import CFG
from ..frontend import AnalysisError, walk_function, walk_stmts
from ..ordertable import parse_pred
from ..report import norm_text
from ..witness import witness, twin, repair

LEVEL = "other"
D = "pylife.stress.rainflow.fkm_nonlinear:FKMNonlinearDetector."
REC = "pylife.stress.rainflow.recorders:FKMNonlinearRecorder."
EXPLANATION = (
    "Static decision of necessary structural conditions of C04 (the statement itself - periodic rainflow equality, junction "
    "cases - is behavioural and not decided). R-C04-1: process_hcm_second reaches process with flush constant-true, "
    "process_hcm_first passes the flag computed by the first-run adjustment, which prepends a zero load and decides the "
    "flush from whether the last sample is a turning point of the doubled sequence. R-C04-2: the pass counter is incremented "
    "exactly once per process on every path before the algorithm runs, the value handed to the recorder is that counter and "
    "the recorder attaches it to every row it appends. R-C04-3: exactly one handler can append False to the closed-flag list; "
    "in it the min/max entries of load, stress and strain are -|e| / +|e| of the same point and the zero-mean flag is True "
    "(half hystereses are symmetric about zero), every other recording handler appends closed=True, zero-mean=False. "
    "R-C04-5: the largest absolute load seen is a guarded maximum - assigned |x| only under |x| > max (+eps) of the same x - "
    "carried from pass to pass, compared in the Memory-3 test with the same expression, and updated after the sample was "
    "classified; given that, a load value already seen can never take the Memory-3 branch. Not decided: steady-state cycle "
    "equality, junction configurations.")
EXPLANATION += (' R-C04-6: in the multi-point path the representative sequence handed to the reversal detection and the load-step table indexed with the detected positions are both in order of appearance (order-class analysis; a key-sorted groupby/unique is a violation).')
EXPLANATION += (' R-C04-7: the junction of the two passes is handled by _new_turns: the kept sample tail starts exactly at the last turning point found (or at 0), is cut from the analysed array, and the global-index offset uses head and tail before they are updated (shared with R-C01-2).')
EXPLANATION += (' R-C04-9 (shared with R-C05-14): no HCM decision is reduced over the assessment points with all()/any().')
EXPLANATION += (' R-C04-8: the HCM case decisions use no relative tolerance (shared with R-C05-10), and nothing cached on the FKM-nonlinear recorder or detector survives a later recording call (memo rule: hand-written `if self._x is None` caches and caching decorators).')
EXPLANATION += (' R-C04-10 (shared with R-C05-17): the representative assessment point of a multi-point sample is the first stored row everywhere; a first element taken after sort_index / sort_values / sample / reindex is a violation. R-C04-1 also rejects np.insert / np.append without a float conversion for the zero prefix (they keep a narrow or unsigned element type of the samples).')
EXPLANATION += (' R-C04-11 (shared state-family rules, sa/statefam.py): in FKMNonlinearDetector.process no explicit raise / assert is reachable after a store to a detector attribute - a refused call must not advance the pass number.')
EXPLANATION += (" R-C04-12: the rule R-C10-12 evaluated for this property, extended by: no method of the detector reads `<index>.levels[...]` (categories kept sorted by pandas) where the labels in their order of appearance are meant.")
ASSUMPTIONS = ["the caller replays in pass 2 only loads of pass 1 (a fact about the caller's data)"]


def run(ctx):
    for r in (_r1, _r2, _r3, _r5, _r6, _r7, _r8, _r9, _r10, _r11, _r12):
        ctx.attempt(r)


def _r12(ctx):
    """R-C04-12 (the rule R-C10-12 evaluated for this property): the load steps of a multi-point sequence are taken in their order of
    appearance - no method of the detector re-orders pandas data by labels, and none reads the (sorted) categories of an index level
    where the labels in sequence order are meant: every turning point would take its loads from another load step."""
    from .c10 import label_reorderings
    prog = ctx.prog
    ctx.rule("R-C04-12", floor=1, what="the FKM nonlinear detector keeps the load steps in their order of appearance (shared with R-C10-12)")
    ci = prog.cls(D.rstrip("."))
    hits = 0
    for name, defs in sorted(ci.methods.items()):
        fi = defs[-1]
        for c_, text in label_reorderings(fi.node):
            hits += 1
            ctx.violated(fi, c_, "FKMNonlinearDetector.%s takes pandas data in label order (%s): the turning points are positions in the sequence "
                         "of load steps as they appear" % (name, text), text="label order in " + name)
    if not hits:
        ctx.holds(ci.key, None, "%d methods of the detector keep the order of appearance" % len(ci.methods))


def _r11(ctx):
    """R-C04-11 (state families, sa/statefam.py): FKMNonlinearDetector.process rejects an input (explicit raise / assert) BEFORE it
    changes any detector state.  The pass number is detector state: a call that is refused after `_run_index += 1` makes the
    corrected call the third 'pass', and nothing is recorded with run_index == 2."""
    from .. import statefam
    from ..inline import inlined
    prog = ctx.prog
    statefam.selftest()
    ctx.rule("R-C04-11", floor=1, what="process() of the FKM nonlinear detector rejects input before it changes detector state")
    # rejections written in process() itself; what the helpers it calls (the shared _new_turns of all detectors, numpy) raise on
    # malformed input happens after the pass counter on the pinned tree as well and is not what this clause decides
    fi = prog.func(D + "process")
    hits = statefam.state_before_raise(prog, fi)
    for r, st, attr in hits:
        ctx.violated(fi, r, "process() can reach `%s` after it has already changed self.%s (`%s`): the rejected call leaves the "
                     "detector in another state than it found it (the pass number counts the refused call)"
                     % (norm_text(r)[:70], attr, norm_text(st)[:50]), text="rejection after a change of self.%s" % attr)
    if not hits:
        n = len([x for x in walk_function(fi.node) if isinstance(x, (ast.Raise, ast.Assert))])
        ctx.holds(fi, fi.node, "%d explicit rejection(s), none after a store to detector state" % n)


SORTS = ("sort_index", "sort_values", "sample", "reindex", "nsmallest", "nlargest", "sortlevel")


def sorted_representatives(fn_node):
    """`<x>.sort_index().iloc[0]`, `.values[0]`, `.first()` ...: the first element AFTER a re-ordering is the element with the
    smallest key, not the first stored row the sibling accessors take"""
    out = []
    for n in ast.walk(fn_node):
        recv = None
        if isinstance(n, ast.Subscript) and const_value(n.slice) == 0 and isinstance(n.value, ast.Attribute) and \
                n.value.attr in ("iloc", "values", "iat", "array"):
            recv = n.value.value
        elif isinstance(n, ast.Call) and isinstance(n.func, ast.Attribute) and n.func.attr in ("first", "head") and not n.args:
            recv = n.func.value
        if recv is None:
            continue
        recv = inline_single_defs(fn_node, recv)
        hit = [c for c in ast.walk(recv) if isinstance(c, ast.Call) and isinstance(c.func, ast.Attribute) and c.func.attr in SORTS]
        if hit:
            out.append((n, hit[0].func.attr))
    return out


def representative_rule(ctx, rule):
    """The representative of a multi-point sample is the first STORED row, everywhere: the turning-point detection, the residual
    points and the case analysis must look at the same assessment point, otherwise loads of two points with different load
    factors are compared with each other."""
    prog = ctx.prog
    ctx.rule(rule, floor=1, what="the representative assessment point is the first stored row everywhere (never the first after a sort)")
    ex = ast.parse("def f(self, cur):\n    a = cur.sort_index().iloc[0]\n    b = cur.iloc[0]\n    return a, b\n").body[0]
    if len(sorted_representatives(ex)) != 1:
        raise AnalysisError("%s built-in example not matched" % rule)
    n = 0
    m = 0
    for key, fi in sorted(prog.functions.items()):
        if fi.module.name != "pylife.stress.rainflow.fkm_nonlinear" or fi.parent is not None:
            continue
        n += 1
        for node, op in sorted_representatives(fi.node):
            m += 1
            ctx.violated(fi, node, "%s: %s takes the first element after %s(): that is the assessment point with the smallest key, "
                         "while the other accessors of the module take the first stored row - for rows that are not stored in "
                         "ascending node order the case analysis compares loads of different points" %
                         (fi.name, norm_text(node)[:60], op), text="sorted representative " + fi.name)
    if n < 10:
        raise AnalysisError("functions of the FKM nonlinear detector module not found")
    if not m:
        ctx.holds("pylife.stress.rainflow.fkm_nonlinear", None, "%d functions: no representative taken after a re-ordering" % n)


def _r10(ctx):
    representative_rule(ctx, "R-C04-10")


def _r9(ctx):
    """R-C04-9 (shared with R-C05-14): the lower / upper point of a closed hysteresis and every other HCM decision is taken on the
    representative point, not reduced over all assessment points."""
    from .c05 import r14_point_axis
    r14_point_axis(ctx, "R-C04-9")


def _plateau_walk_back(fn_node):
    """'walk' if the position tested for membership in the turning-point indices is  p = len(X) - 1  walked back over equal
    neighbours  (while p > 0 and V[p-1] == V[p]: p -= 1), 'plain' if it is len(X) - 1 itself, None otherwise"""
    tests = [n for n in ast.walk(fn_node) if isinstance(n, ast.Compare) and len(n.ops) == 1 and isinstance(n.ops[0], (ast.In, ast.NotIn))]
    for t in tests:
        if isinstance(t.left, ast.IfExp) and _vectorised_walk(fn_node, t.left):
            return "walk"
        if not isinstance(t.left, ast.Name):
            continue
        p = t.left.id
        init = [s_ for s_ in walk_stmts(fn_node.body) if isinstance(s_, ast.Assign) and isinstance(s_.targets[0], ast.Name) and
                s_.targets[0].id == p]
        loops = [w for w in ast.walk(fn_node) if isinstance(w, ast.While)]
        for w in loops:
            dec = [s_ for s_ in w.body if isinstance(s_, ast.AugAssign) and isinstance(s_.target, ast.Name) and s_.target.id == p and
                   isinstance(s_.op, ast.Sub) and const_value(s_.value) == 1]
            eq = [c for c in ast.walk(w.test) if isinstance(c, ast.Compare) and len(c.ops) == 1 and isinstance(c.ops[0], ast.Eq) and
                  isinstance(c.left, ast.Subscript) and isinstance(c.comparators[0], ast.Subscript) and
                  norm_text(c.left.value) == norm_text(c.comparators[0].value) and
                  {norm_text(c.left.slice), norm_text(c.comparators[0].slice)} == {p, "%s - 1" % p}]
            if dec and eq and len(w.body) == 1 and len(init) == 1 and norm_text(init[0].value).startswith("len(") and \
                    norm_text(init[0].value).endswith("- 1"):
                return "walk"
        # vectorised form of the same walk: D = flatnonzero(V[:-1] != V[-1]);  p = D[-1] + 1 if D.size > 0 else 0
        # (the position directly behind the last sample that differs from the final value)
        if len(init) == 1 and _vectorised_walk(fn_node, init[0].value):
            return "walk"
        if len(init) == 1 and norm_text(init[0].value).startswith("len(") and norm_text(init[0].value).endswith("- 1"):
            return "plain"
    return None


def _vectorised_walk(fn_node, e):
    from ..astutil import inline_single_defs
    if not isinstance(e, ast.IfExp) or const_value(e.orelse) != 0:
        return False
    body = e.body
    if not (isinstance(body, ast.BinOp) and isinstance(body.op, ast.Add) and const_value(body.right) == 1 and
            isinstance(body.left, ast.Subscript) and const_value(body.left.slice) == -1 and isinstance(body.left.value, ast.Name)):
        return False
    dname = body.left.value.id
    t = norm_text(e.test)
    if t not in ("%s.size > 0" % dname, "0 < %s.size" % dname, "len(%s) > 0" % dname, "0 < len(%s)" % dname, "%s.size" % dname, "len(%s)" % dname,
                 "%s.size != 0" % dname, "len(%s) != 0" % dname):
        return False
    d = inline_single_defs(fn_node, ast.Name(id=dname, ctx=ast.Load()), depth=2)
    if isinstance(d, ast.Subscript) and const_value(d.slice) == 0 and isinstance(d.value, ast.Call) and \
            (call_name(d.value) or "") in ("np.nonzero", "np.where"):
        d = ast.Call(func=ast.Name(id="np.flatnonzero", ctx=ast.Load()), args=d.value.args, keywords=[])
        cn = "np.flatnonzero"
    else:
        cn = call_name(d) if isinstance(d, ast.Call) else None
    if cn != "np.flatnonzero" or len(d.args) != 1:
        return False
    c = d.args[0]
    if not (isinstance(c, ast.Compare) and len(c.ops) == 1 and isinstance(c.ops[0], ast.NotEq)):
        return False
    l, r = c.left, c.comparators[0]
    if isinstance(l, ast.Subscript) and const_value(l.slice) == -1:
        l, r = r, l
    return isinstance(l, ast.Subscript) and norm_text(l.slice) == ":-1" and isinstance(r, ast.Subscript) and const_value(r.slice) == -1 and \
        norm_text(l.value) == norm_text(r.value)


def _r1(ctx, rule="R-C04-1"):
    prog = ctx.prog
    ctx.rule(rule, floor=6, what="second pass flushes; first pass uses the computed flag; zero prepended; flush from doubled sequence")
    f2 = prog.func(D + "process_hcm_second")
    c = [c for c in calls_in(f2.node) if isinstance(c.func, ast.Attribute) and is_self_attr(c.func, "process")]
    fl = next((k.value for k in c[0].keywords if k.arg == "flush"), c[0].args[1] if c and len(c[0].args) > 1 else None) if c else None
    if c and const_value(fl) is True:
        ctx.holds(f2, c[0], "second pass: process(samples, flush=True)")
    else:
        ctx.violated(f2, c[0] if c else f2.node, "second HCM pass does not flush its last sample (flush=%s)" %
                     (norm_text(fl) if fl is not None else "default False"))
    f1 = prog.func(D + "process_hcm_first")
    adj = [s for s in f1.node.body if isinstance(s, ast.Assign) and isinstance(s.value, ast.Call) and
           isinstance(s.value.func, ast.Attribute) and "adjust_samples_and_flush" in s.value.func.attr]
    c = [c for c in calls_in(f1.node) if isinstance(c.func, ast.Attribute) and is_self_attr(c.func, "process")]
    ok = False
    if adj and c and isinstance(adj[0].targets[0], ast.Tuple) and len(adj[0].targets[0].elts) == 2:
        sname, fname = [t.id for t in adj[0].targets[0].elts]
        fl = next((k.value for k in c[0].keywords if k.arg == "flush"), None)
        ok = isinstance(fl, ast.Name) and fl.id == fname and isinstance(c[0].args[0], ast.Name) and c[0].args[0].id == sname
    if ok:
        ctx.holds(f1, c[0], "first pass: adjusted samples and the computed flush flag reach process()")
    else:
        ctx.violated(f1, c[0] if c else f1.node, "first HCM pass does not pass the adjusted samples and the computed flush flag on")
    # the two entry points hand the caller's samples on as they are: samples are only ever dropped by find_turns
    for fe, callee in ((f1, "_adjust_samples_and_flush_for_hcm_first_run"), (f2, "process")):
        par = [q for q in fe.params if q != "self"][0]
        cc = [c_ for c_ in calls_in(fe.node) if isinstance(c_.func, ast.Attribute) and is_self_attr(c_.func, callee)]
        redefs = [s_ for s_ in walk_function(fe.node) if isinstance(s_, (ast.Assign, ast.AugAssign)) and
                  any(isinstance(t, ast.Name) and t.id == par for t in (s_.targets if isinstance(s_, ast.Assign) else [s_.target]))
                  and not (isinstance(s_, ast.Assign) and isinstance(s_.value, ast.Call) and any(x is s_.value for x in cc))
                  and cc and s_.lineno < cc[0].lineno]
        if not cc:
            raise AnalysisError("%s: the call of %s was not found" % (fe.name, callee))
        direct = bool(cc) and cc[0].args and isinstance(cc[0].args[0], ast.Name) and cc[0].args[0].id == par
        if direct and not redefs:
            ctx.holds(fe, cc[0], "%s passes the caller's samples unchanged to %s" % (fe.name, callee))
        else:
            ctx.violated(fe, redefs[0] if redefs else (cc[0] if cc else fe.node), "%s alters the samples (%s) before they reach %s: "
                         "dropping or re-ordering samples outside the turning-point detection changes the junction of the passes"
                         % (fe.name, norm_text(redefs[0]) if redefs else "argument is not the parameter", callee),
                         text="samples altered in " + fe.name)
    # the adjustment and the flush decision, on the symbolic value of the function (helpers followed, find_turns opaque):
    # returns (S', flush) with S' = zero ++ samples in both layouts and
    # flush = (len(A) - 1  in  find_turns(concatenate([A, B]))[0]), A = the loads of pass 1 (one per load step), B = what pass 2
    # continues with, i.e. A without the prepended zero.
    from ..absint import Interp, TermDomain, Seq, term_walk, term_alternatives, term_to_nf
    fa = prog.func(D + "_adjust_samples_and_flush_for_hcm_first_run")
    it = Interp(prog, TermDomain(), follow=lambda c_: not c_.name.endswith("find_turns"))
    tv = it.run(fa, [("p", q) for q in fa.params if q != "self"])
    pairs = [x for x in term_alternatives(tv) if isinstance(x, Seq) and len(x) == 2]
    if len(pairs) != 1:
        raise AnalysisError("_adjust_samples_and_flush_for_hcm_first_run: returned (samples, flush) pair not recognised")
    S1, F = pairs[0]

    def zero_first(z):
        if isinstance(z, tuple) and z[:1] == ("call",) and z[1] in ("np.concatenate", "pd.concat", "np.append", "np.hstack") and z[2]:
            parts = list(z[2][0]) if isinstance(z[2][0], Seq) else list(z[2])
            first = parts[0] if parts else None
            if isinstance(first, Seq) and tuple(first) == (("c", 0),):
                return True
            if isinstance(first, tuple) and first[:2] == ("series", ("c", 0)):
                return True
            if first in (("c", 0), ("c", 0.0)):
                return True
        if isinstance(z, tuple) and z[:1] == ("call",) and z[1] in ("np.insert",) and len(z[2]) >= 3 and z[2][1] == ("c", 0) and \
                z[2][2] in (("c", 0), ("c", 0.0)):
            return True
        return False
    # np.insert / np.append keep the element type of the array they extend; np.concatenate with the list [0] promotes narrow and
    # unsigned integers.  With uint16 samples the differences of the look-ahead sequence wrap around in find_turns.
    keeps = [c_ for c_ in calls_in(fa.node) if call_name(c_) in ("np.insert", "np.append") and c_.args and
             not any(k_.arg == "dtype" for c2 in ast.walk(c_.args[0]) if isinstance(c2, ast.Call) for k_ in c2.keywords) and
             not any(isinstance(c2, ast.Call) and isinstance(c2.func, ast.Attribute) and c2.func.attr == "astype" for c2 in ast.walk(c_.args[0]))]
    for c_ in keeps:
        ctx.violated(fa, c_, "%s keeps the element type of the caller's samples: for narrow or unsigned integer samples (uint16) the "
                     "differences of the look-ahead sequence wrap around, the flush decision of pass 1 is wrong and the last "
                     "reversal is counted in pass 2" % norm_text(c_)[:60], text="element type kept " + norm_text(c_)[:40])
    layouts = term_alternatives(S1)
    if len(layouts) >= 2 and all(zero_first(z) for z in layouts):
        ctx.holds(fa, fa.node, "a zero load is prepended (scalar and multi-point input)")
    elif any(z == ("p", fa.params[-1]) or not zero_first(z) for z in layouts) and len(layouts) >= 1 and \
            all(isinstance(z, tuple) for z in layouts) and any(zero_first(z) for z in layouts) or \
            all(z == ("p", fa.params[-1]) for z in layouts):
        ctx.violated(fa, fa.node, "first-run adjustment does not prepend a zero load in both input layouts", text="zero prepend")
    else:
        raise AnalysisError("_adjust_samples_and_flush_for_hcm_first_run: the adjusted samples %r are not recognised" %
                            ([z[:2] if isinstance(z, tuple) else z for z in layouts],))
    if not (isinstance(F, tuple) and len(F) == 4 and F[0] == "cmp" and F[1] in ("in", "notin")):
        raise AnalysisError("_adjust_samples_and_flush_for_hcm_first_run: flush decision %r is not a membership test" %
                            (F[:2] if isinstance(F, tuple) else F,))
    last, where = F[2], F[3]
    dbl = None
    if isinstance(where, tuple) and len(where) == 3 and where[0] == "at" and where[2] == ("c", 0) and isinstance(where[1], tuple) and \
            where[1][:1] == ("call",) and where[1][1].endswith("find_turns") and where[1][2]:
        cc = where[1][2][0]
        if isinstance(cc, tuple) and cc[:2] == ("call", "np.concatenate") and cc[2] and isinstance(cc[2][0], Seq) and len(cc[2][0]) == 2:
            dbl = cc
    if dbl is None:
        raise AnalysisError("_adjust_samples_and_flush_for_hcm_first_run: look-ahead sequence / flush test not found")
    A, B = dbl[2][0]
    len_a = ("call", "len", (A,), ())
    try:
        nf_ok = term_to_nf(last, lambda z: "LA" if z == len_a else None) == to_nf(parse_expr("LA - 1"))
    except NFUnsupported:
        nf_ok = False
    walk = _plateau_walk_back(fa.node)
    if walk is None:
        # the decision may live in a private helper of the class that the adjustment calls
        for c_ in calls_in(fa.node):
            for k_ in prog.resolve_call(fa, c_):
                h_ = prog.functions.get(k_)
                if h_ is not None and h_.cls is fa.cls and walk is None:
                    walk = _plateau_walk_back(h_.node)
    if F[1] == "in" and walk == "walk":
        ctx.holds(fa, fa.node, "flush iff the last sample of pass 1 - a trailing plateau taken at its first sample, as find_turns "
                  "indexes it - is a turning point of the look-ahead sequence")
    elif F[1] == "in" and nf_ok:
        ctx.violated(fa, fa.node, "the flush decision tests position len(A)-1, but find_turns reports a plateau at its FIRST sample: a "
                     "load sequence that ends in repeated values is never flushed in pass 1, its last reversal is processed in pass "
                     "2 (the lifetime of [100, -200, -200] is twice that of [100, -200])", text="flush decision plateau")
    else:
        ctx.violated(fa, fa.node, "flush decision is not 'the last sample of pass 1 is a turning point of the look-ahead sequence'",
                     text="flush decision")

    def strip(z):
        while isinstance(z, tuple) and len(z) == 3 and z[0] == "attr" and z[2] in ("iloc",):
            z = z[1]
        return z

    def without_first(b_, a_):
        return isinstance(b_, tuple) and len(b_) == 3 and b_[0] == "at" and b_[2] == ("slice", ("c", 1), None, None) and strip(b_[1]) == a_
    site = next((s_ for s_ in walk_function(fa.node) if isinstance(s_, ast.Assign) and isinstance(s_.value, ast.Call) and
                 call_name(s_.value) == "np.concatenate" and any((call_name(c_) or "").endswith("find_turns") for c_ in calls_in(fa.node))),
                fa.node)
    for f2 in [fi2 for k2, fi2 in prog.functions.items() if fi2.cls is fa.cls]:
        for s_ in walk_function(f2.node):
            if isinstance(s_, ast.Assign) and isinstance(s_.value, ast.Call) and call_name(s_.value) == "np.concatenate" and \
                    isinstance(s_.targets[0], ast.Name) and any((call_name(c_) or "").endswith("find_turns") and c_.args and
                                                                isinstance(c_.args[0], ast.Name) and c_.args[0].id == s_.targets[0].id
                                                                for c_ in calls_in(f2.node)):
                site, fa_site = s_, f2
                break
        else:
            continue
        break
    else:
        fa_site = fa
    if without_first(B, A):
        ctx.holds(fa_site, site, "look-ahead = pass-1 samples (zero-prefixed) followed by the same samples without the zero, i.e. what "
                  "pass 2 processes")
    elif B == A:
        ctx.violated(fa, fa.node, "the look-ahead sequence repeats the ZERO-PREFIXED samples: the last sample of pass 1 is compared "
                     "with the artificial zero load, but pass 2 continues with the first real sample. A last sample that is not a "
                     "reversal of the repeated sequence (e.g. 100,-60,40,-20,60: -20 -> 60 -> 100) is flushed as if it were one, and "
                     "a last sample between zero and the first sample is held back although it is a reversal",
                     text="look-ahead = A ++ A (zero-prefixed samples repeated)")
    else:
        ctx.violated(fa_site, site, "the look-ahead sequence for the flush decision is A ++ B with B = %r; it must be the pass-1 "
                     "samples followed by what pass 2 processes (the same samples without the prepended zero)" % (B[:3] if isinstance(B, tuple) else B,),
                     text="look-ahead = A ++ other")


def _r2(ctx):
    prog = ctx.prog
    ctx.rule("R-C04-2", floor=3, what="pass counter +1 exactly once per process, before the algorithm; recorder tags every row")
    f = prog.func(D + "process")
    cfg = CFG(f.node)
    incs = [s for s in walk_function(f.node) if isinstance(s, ast.AugAssign) and is_self_attr(s.target, "_run_index")]
    other = [s for s in walk_function(f.node) if isinstance(s, ast.Assign) and any(is_self_attr(t, "_run_index") for t in s.targets)]
    algo = [s for s in walk_function(f.node) if isinstance(s, ast.Assign) and isinstance(s.value, ast.Call) and
            isinstance(s.value.func, ast.Attribute) and s.value.func.attr == "_perform_hcm_algorithm"]
    if not algo:
        raise AnalysisError("process: HCM algorithm call not found")
    nodes = {cfg.node(s) for s in incs}
    paths = cfg.paths(cfg.entry, {cfg.exit}, limit=256)
    counts = {sum(1 for n, _ in p if n in nodes) for p in paths}
    ok = counts == {1} and not other and all(isinstance(s.op, ast.Add) and const_value(s.value) == 1 for s in incs) and \
        cfg.must_pass(cfg.node(algo[0]), nodes)
    if ok:
        ctx.holds(f, incs[0], "self._run_index += 1 exactly once on each of %d paths, before the algorithm" % len(paths))
    else:
        ctx.violated(f, incs[0] if incs else f.node, "pass counter is incremented %s times per process (other writes: %d) or after "
                     "the algorithm ran" % (sorted(counts), len(other)), text="run_index increment")
    rc = [c for c in calls_in(f.node) if isinstance(c.func, ast.Attribute) and c.func.attr == "record_values_fkm_nonlinear"]
    ri = next((k.value for k in rc[0].keywords if k.arg == "run_index"), None) if rc else None
    if ri is not None and is_self_attr(ri, "_run_index"):
        ctx.holds(f, rc[0], "recorder receives run_index=self._run_index")
    else:
        ctx.violated(f, rc[0] if rc else f.node, "recorder does not receive the detector's pass counter")
    r = prog.func(REC + "record_values_fkm_nonlinear")
    st = [s for s in walk_function(r.node) if isinstance(s, ast.AugAssign) and is_self_attr(s.target, "_run_index")]
    ok = len(st) == 1 and norm_text(st[0].value) == "[run_index] * len(S_min)"
    if ok:
        ctx.holds(r, st[0], "recorder appends the pass number once per recorded row")
    else:
        ctx.violated(r, st[0] if st else r.node, "recorder does not append the pass number once per recorded hysteresis row")


def _r8(ctx):
    """What is counted must not depend on tolerances or on when the collective is read: (a) the HCM case decisions compare
    load ranges exactly up to a literal round-off guard (shared with R-C05-10); (b) the recorder (and the detector) cache
    nothing that a later record_* / process call does not invalidate (memo rule) - a collective read between the passes must
    not hide the second pass."""
    from .. import memo
    from .c05 import _r10 as _tolerances
    prog = ctx.prog
    ctx.rule("R-C04-8", floor=4, what="HCM decisions without relative tolerances; recorder/detector caches invalidated by every recording call")
    _tolerances(ctx, own_rule=False)
    memo.run_rule(ctx, classes=[prog.cls(REC[:-1]), prog.cls(D[:-1]),
                                prog.cls("pylife.stress.rainflow.general:AbstractRecorder")])


def _r7(ctx):
    """The two passes are two chunks of one signal: what joins them is the sample tail kept by _new_turns.  It must start at
    the last turning point found and the index offset must use the state before the update (analysis shared with R-C01-2);
    otherwise non-reversal samples at the junction change what is counted."""
    ctx.rule("R-C04-7", floor=4, what="junction of the passes: sample tail from the last turning point, offsets from pre-update state (shared with R-C01-2)")
    from .c01 import _r2_new_turns_core
    _r2_new_turns_core(ctx, ctx.prog)


def _r6(ctx):
    """Several assessment points: reversals are detected on a representative sequence (one value per load step) and the
    returned positions are looked up in the table of load-step labels.  Both must list the load steps in the same order -
    the order of appearance in the input; a key-sorted groupby / unique would pair positions with the wrong load steps
    whenever the labels are not ascending."""
    from ..orders import Orders
    prog = ctx.prog
    ctx.rule("R-C04-6", floor=2, what="representative sequence and load-step table of the multi-point path are both in order of appearance")
    f = prog.func(D + "process")
    chunk = [q for q in f.params if q != "self"][0]
    o = Orders(prog, [f.module.name], seed_env=lambda fi: {chunk: "ROW"})
    env = {chunk: "ROW"}
    nt = [c for c in calls_in(f.node) if isinstance(c.func, ast.Attribute) and is_self_attr(c.func) and c.func.attr == "_new_turns"]
    if len(nt) != 1 or not nt[0].args or not isinstance(nt[0].args[0], ast.Name):
        raise AnalysisError("process: call of _new_turns with a named sequence not found")
    seq = nt[0].args[0].id
    st = nt[0]._parent
    pos = st.targets[0].elts[0].id if isinstance(st, ast.Assign) and isinstance(st.targets[0], ast.Tuple) and \
        isinstance(st.targets[0].elts[0], ast.Name) else None
    if pos is None:
        raise AnalysisError("process: positions returned by _new_turns are not bound to a name")
    defs = [s_ for s_ in walk_stmts(f.node.body) if isinstance(s_, ast.Assign) and isinstance(s_.targets[0], ast.Name) and
            s_.targets[0].id == seq]
    if not defs:
        raise AnalysisError("process: definition of %s not found" % seq)
    for d in defs:
        k = o.oc(d.value, env, f)
        if k in ("ROW", "ROWG"):
            ctx.holds(f, d, "sequence for reversal detection %s: order of appearance" % norm_text(d.value))
        elif k in ("GROUPED", "SORTED"):
            ctx.violated(f, d, "the sequence handed to the reversal detection, %s, is ordered by load-step label (%s), not by "
                         "appearance: for labels that are not ascending the reversals are searched in a permuted history" %
                         (norm_text(d.value), k), text="representative sequence order")
        else:
            raise AnalysisError("process: order class of %s unknown" % norm_text(d.value))
    # tables indexed with positions derived from the detection result
    derived = {pos}
    for _ in range(3):
        for s_ in walk_stmts(f.node.body):
            if isinstance(s_, ast.Assign) and isinstance(s_.targets[0], ast.Name) and names_in(s_.value) & derived:
                if not any(isinstance(n, ast.Subscript) for n in ast.walk(s_.value)):
                    derived.add(s_.targets[0].id)
    n = 0
    for node in ast.walk(f.node):
        if isinstance(node, ast.Subscript) and isinstance(node.value, ast.Attribute) and node.value.attr == "iloc" and \
                isinstance(node.value.value, ast.Name) and names_in(node.slice) & derived:
            tab = node.value.value.id
            tdefs = [s_ for s_ in walk_stmts(f.node.body) if isinstance(s_, ast.Assign) and isinstance(s_.targets[0], ast.Name)
                     and s_.targets[0].id == tab]
            for d in tdefs:
                k = o.oc(d.value, env, f)
                n += 1
                if k in ("ROW", "ROWG"):
                    ctx.holds(f, d, "load-step table %s = %s: order of appearance, same as the detected sequence" % (tab, norm_text(d.value)))
                elif k in ("GROUPED", "SORTED"):
                    ctx.violated(f, d, "the table %s that is indexed with the detected positions is sorted by label (%s) while the "
                                 "sequence is in order of appearance" % (tab, norm_text(d.value)), text="load-step table order")
                else:
                    raise AnalysisError("process: order class of %s unknown" % norm_text(d.value))
    if n == 0:
        raise AnalysisError("process: no table indexed with the detected positions found")


def _unpack_names(f):
    for s in walk_function(f.node):
        if isinstance(s, ast.Assign) and isinstance(s.targets[0], (ast.List, ast.Tuple)) and isinstance(s.value, ast.Name) and \
                s.value.id == "recording_lists":
            return [t.id for t in s.targets[0].elts]
    return None


def _r3(ctx):
    prog = ctx.prog
    ctx.rule("R-C04-3", floor=4, what="only the Memory-3 handler records half hystereses; they are symmetric about zero")
    ci = prog.cls(D[:-1])
    half = []
    full = []
    roles = {}
    from ..inline import inlined
    for name, defs in ci.methods.items():
        f = defs[-1]
        if name.startswith("_handle_case"):
            f = inlined(prog, f, skip=("_proceed_on_primary_branch", "_proceed_on_secondary_branch"))   # shared recording helper
        names = _unpack_names(f)
        if not names or len(names) < 10:
            continue
        roles[f.key] = names
        for c in calls_in(f.node):
            if isinstance(c.func, ast.Attribute) and c.func.attr == "append" and isinstance(c.func.value, ast.Name) and \
                    c.func.value.id == names[8]:
                if not isinstance(c.args[0], ast.Constant):
                    continue                       # a shared helper that appends the flag it is given: judged where it is expanded
                (half if const_value(c.args[0]) is False else full).append((f, c))
    if not half:
        raise AnalysisError("no handler that records a half hysteresis (closed=False) was found")
    if len(half) != 1:
        ctx.violated(D + "*", None, "%d handlers can record a half hysteresis; exactly one (Memory 3) may" % len(half), text="half handlers %d" % len(half))
        return
    f, c = half[0]
    ctx.holds(f, c, "only %s appends closed=False" % f.name)
    nm = roles[f.key]
    zm = [cc for cc in calls_in(f.node) if isinstance(cc.func, ast.Attribute) and cc.func.attr == "append" and
          isinstance(cc.func.value, ast.Name) and cc.func.value.id == nm[9]]
    if len(zm) == 1 and const_value(zm[0].args[0]) is True:
        ctx.holds(f, zm[0], "half hysteresis: zero-mean flag True")
    else:
        ctx.violated(f, zm[0] if zm else f.node, "half hysteresis is not flagged zero-mean")
    want = {nm[0]: ("-", "load"), nm[1]: ("+", "load"), nm[2]: ("-", "stress"), nm[3]: ("+", "stress"),
            nm[4]: ("-", "strain"), nm[5]: ("+", "strain")}
    pts = set()
    bad = []
    for s in walk_function(f.node):
        if isinstance(s, ast.Assign) and isinstance(s.targets[0], ast.Name) and s.targets[0].id in want and \
                isinstance(s.value, ast.Call) and call_name(s.value) == "pd.concat":
            new = inline_single_defs(f.node, s.value.args[0].elts[1])        # -m with m = abs(point.x) bound once
            sign = "+"
            if isinstance(new, ast.UnaryOp) and isinstance(new.op, ast.USub):
                sign, new = "-", new.operand
            ok = isinstance(new, ast.Call) and call_name(new) in ("abs", "np.abs") and isinstance(new.args[0], ast.Attribute)
            if ok:
                pts.add(norm_text(new.args[0].value))
                ok = (sign, new.args[0].attr) == want[s.targets[0].id]
            if not ok:
                bad.append(s)
    if bad:
        ctx.violated(f, bad[0], "half hysteresis entry %s is not -|x| / +|x| of the reversal point: it would not be symmetric "
                     "about zero" % norm_text(bad[0]))
    elif len(pts) == 1:
        ctx.holds(f, f.node, "min/max of load, stress and strain are -|e| / +|e| of the same point %s" % pts.pop())
    else:
        ctx.violated(f, f.node, "half hysteresis mixes values of different points: %s" % sorted(pts), text="half points")
    for g, cc in full:
        zf = [x for x in calls_in(g.node) if isinstance(x.func, ast.Attribute) and x.func.attr == "append" and
              isinstance(x.func.value, ast.Name) and x.func.value.id == roles[g.key][9]]
        if const_value(cc.args[0]) is True and len(zf) == 1 and const_value(zf[0].args[0]) is False:
            ctx.holds(g, cc, "%s records full hystereses: closed=True, zero-mean=False" % g.name)
        else:
            ctx.violated(g, cc, "%s records a hysteresis with inconsistent closed / zero-mean flags" % g.name)


def _r5(ctx):
    prog = ctx.prog
    ctx.rule("R-C04-5", floor=4, what="running |load| maximum: guarded, carried, same expression in Memory-3 test, updated after classification")
    pa = prog.func(D + "_perform_hcm_algorithm")
    loop = [s for s in pa.node.body if isinstance(s, ast.For)]
    if len(loop) != 1:
        raise AnalysisError("_perform_hcm_algorithm: loop not found")
    loop = loop[0]
    upd = [s for s in walk_stmts(loop.body) if isinstance(s, ast.Assign) and isinstance(s.targets[0], ast.Name)
           and s.targets[0].id == "load_max_seen"]
    if len(upd) != 1:
        ctx.violated(pa, loop, "the running maximum is assigned %d times per load" % len(upd), text="max updates %d" % len(upd))
        return
    u = upd[0]
    g = getattr(u, "_parent", None)
    passed = {k.value.id for s_ in loop.body if isinstance(s_, ast.Assign) and isinstance(s_.value, ast.Call)
              for k in s_.value.keywords if isinstance(k.value, ast.Name)} | {"load_max_seen"}
    gtest = inline_single_defs(pa.node, g.test, keep=passed) if isinstance(g, ast.If) else None
    uval = inline_single_defs(pa.node, u.value, keep=passed)
    # orientation-free: max (+eps) < |x|
    og = oriented(gtest) if isinstance(gtest, ast.Compare) and len(gtest.ops) == 1 else None
    ok = isinstance(g, ast.If) and u in g.body and og is not None and isinstance(og.ops[0], ast.Lt) and \
        norm_text(og.comparators[0]) == norm_text(uval) and "load_max_seen" in names_in(og.left) and \
        isinstance(uval, ast.Call) and call_name(uval) in ("np.abs", "abs")
    if ok:
        ctx.holds(pa, u, "guarded maximum: load_max_seen = |x| only if |x| > load_max_seen (+eps) of the same x")
    else:
        ctx.violated(pa, u, "running maximum update is not 'if |x| > max: max = |x|' on one and the same x: it could decrease or "
                     "take a wrong value")
    ps = prog.func(D + "_hcm_process_sample")
    from ._hcm import require_recognised_dispatch, Restructured, dispatch_by_model
    restructured = False
    try:
        require_recognised_dispatch(ps)
    except Restructured:
        restructured = True
    from ..sibling import rename as _rn
    call0 = [s for s in loop.body if isinstance(s, ast.Assign) and isinstance(s.value, ast.Call) and
             isinstance(s.value.func, ast.Attribute) and s.value.func.attr == "_hcm_process_sample"]
    kwmap = {}
    if call0:
        for k in call0[0].value.keywords:
            if isinstance(k.value, ast.Name):
                kwmap[k.value.id] = k.arg       # caller's local -> callee's parameter name
    guard_text = norm_text(_rn(gtest, kwmap)) if isinstance(g, ast.If) else None
    if restructured:
        # the Memory-3 test as the abstract execution of the dispatch classified it (locals substituted)
        preds = dispatch_by_model(ctx, prog, "R-C04-5", "Memory 3 / maximum bookkeeping")
        m3 = preds.get("NEWMAX")
        odd = [k for k in preds if k.startswith("NEWMAX?")]
        flags = [norm_text(s_.value) for s_ in walk_function(ps.node) if isinstance(s_, ast.Assign) and len(s_.targets) == 1 and
                 isinstance(s_.targets[0], ast.Name)] + [norm_text(n_) for n_ in ast.walk(ps.node) if isinstance(n_, ast.Compare)]
        if m3 is not None and guard_text == m3 and not odd:
            ctx.holds(ps, ps.node, "Memory-3 test uses the same expression as the maximum update")
        elif guard_text in flags and (m3 is None or "load_max_seen" not in m3):
            # the comparison is computed once into a flag and the dispatch tests the flag: the model classified another test as the
            # Memory-3 decision; the expression itself is the guard's, so there is nothing to report and nothing decided
            raise AnalysisError("_hcm_process_sample: Memory-3 decision taken through a precomputed flag, dispatch model not conclusive")
        else:
            ctx.violated(ps, ps.node, "Memory-3 test %s differs from the maximum update guard %s: a load equal to the old maximum "
                         "could be classified inconsistently" % (m3 or [preds[k] for k in odd], guard_text), text="memory-3 guard")
    else:
        mem3 = [s for s in walk_function(ps.node) if isinstance(s, ast.If) and any(
            isinstance(c.func, ast.Attribute) and c.func.attr == "_handle_case_a_i" for x in s.body
            if not isinstance(x, (ast.If, ast.While)) for c in calls_in(x))]
        if len(mem3) != 1:
            raise AnalysisError("_hcm_process_sample: Memory-3 branch not found")
        same = guard_text is not None and norm_text(mem3[0].test) == guard_text
        if not same and guard_text is not None and "load_max_seen" not in norm_text(mem3[0].test) and \
                any(isinstance(n_, ast.Compare) and norm_text(n_) == guard_text for n_ in ast.walk(ps.node)):
            # the Memory-3 handler sits under another test (iz == ir) and the new-maximum comparison - the guard's own expression -
            # is decided earlier (early return / flag): no culprit, the shape is not modelled
            raise AnalysisError("_hcm_process_sample: Memory-3 handler not directly under the new-maximum test; dispatch shape not modelled")
        if same:
            ctx.holds(ps, mem3[0], "Memory-3 test uses the same expression as the maximum update")
        else:
            ctx.violated(ps, mem3[0], "Memory-3 test %s differs from the maximum update guard %s: a load equal to the old maximum "
                         "could be classified inconsistently" % (norm_text(mem3[0].test), norm_text(g.test) if isinstance(g, ast.If) else None))
    writes = [s for s in walk_function(ps.node) if isinstance(s, (ast.Assign, ast.AugAssign)) and
              any(isinstance(t, ast.Name) and t.id == "load_max_seen" for t in (s.targets if isinstance(s, ast.Assign) else [s.target]))]
    call = [s for s in loop.body if isinstance(s, ast.Assign) and isinstance(s.value, ast.Call) and
            isinstance(s.value.func, ast.Attribute) and s.value.func.attr == "_hcm_process_sample"]
    ok = not writes and call and loop.body.index(call[0]) < loop.body.index(g if isinstance(g, ast.If) else u) and \
        any(k.arg == "load_max_seen" and norm_text(k.value) == "load_max_seen" for k in call[0].value.keywords)
    if ok:
        ctx.holds(pa, call[0], "the sample is classified with the maximum from before this sample; the update follows")
    else:
        ctx.violated(pa, call[0] if call else loop, "the running maximum is updated before (or inside) the classification of the "
                     "sample: the Memory-3 branch could never be taken / is taken for known loads", text="update order")
    pr = prog.func(D + "process")
    carried = [s for s in walk_function(pr.node) if isinstance(s, ast.Assign) and isinstance(s.value, ast.Call) and
               isinstance(s.value.func, ast.Attribute) and s.value.func.attr == "_perform_hcm_algorithm"]
    ok = carried and any(k.arg == "load_max_seen" and is_self_attr(k.value, "_load_max_seen") for k in carried[0].value.keywords) and \
        isinstance(carried[0].targets[0], ast.Tuple) and is_self_attr(carried[0].targets[0].elts[0], "_load_max_seen")
    ret = [s for s in pa.node.body if isinstance(s, ast.Return)][-1]
    ok = ok and isinstance(ret.value, ast.Tuple) and norm_text(ret.value.elts[0]) == "load_max_seen"
    if ok:
        ctx.holds(pr, carried[0], "maximum carried from pass to pass through self._load_max_seen")
    else:
        ctx.violated(pr, carried[0] if carried else pr.node, "the running maximum is not carried from one process() call to the next")


# =========================================================================== variants

FN = "src/pylife/stress/rainflow/fkm_nonlinear.py"
RP = "src/pylife/stress/rainflow/recorders.py"
C = "FKMNonlinearDetector."


def variants():
    out = []

    def cached_collective(tree):
        f = find_func(tree, "FKMNonlinearRecorder.collective")
        f.decorator_list = [ast.parse("functools.cached_property", mode="eval").body]
        return True
    out.append(witness("recorder collective becomes a cached_property", RP, cached_collective, "R-C04-8"))

    def prefilter(tree):
        f = find_func(tree, "FKMNonlinearDetector.process_hcm_first")
        for i, st in enumerate(f.body):
            if isinstance(st, ast.Assign) and "adjust_samples_and_flush" in ast.unparse(st.value):
                f.body.insert(i, parse_stmt("samples = np.asarray(samples)[np.asarray(samples) != np.roll(np.asarray(samples), -1)]"))
                return True
        return False
    out.append(witness("first pass drops repeated samples before the adjustment", FN, prefilter, "R-C04-1"))

    def tail_last_two(tree):
        f = find_func(tree, "AbstractDetector._new_turns")
        for i, st in enumerate(f.body):
            if isinstance(st, ast.Assign) and is_self_attr(st.targets[0], "_sample_tail"):
                lo = st.value.slice.lower
                arr = ast.unparse(st.value.value)
                f.body.insert(i, parse_stmt("%s = max(%s, len(%s) - 2)" % (ast.unparse(lo), ast.unparse(lo), arr)))
                return True
        return False
    out.append(witness("sample tail truncated to the last two samples", "src/pylife/stress/rainflow/general.py", tail_last_two, "R-C04-7"))

    def lookahead_without_zero(tree):
        f = find_func(tree, "FKMNonlinearDetector._adjust_samples_and_flush_for_hcm_first_run")
        for st in f.body:
            if isinstance(st, ast.Assign) and isinstance(st.value, ast.Call) and call_name(st.value) == "np.concatenate" and \
                    isinstance(st.value.args[0], ast.List) and len(st.value.args[0].elts) == 2 and \
                    isinstance(st.value.args[0].elts[1], ast.Name):
                a = st.value.args[0].elts[0]
                st.value.args[0].elts[1] = parse_expr("np.asarray(%s)[1:]" % ast.unparse(a))
                return True
        return False
    out.append(repair("look-ahead continues with the samples without the zero", FN, lookahead_without_zero, "R-C04-1",
                      "_adjust_samples_and_flush_for_hcm_first_run"))

    def lookahead_zero_only(tree):
        f = find_func(tree, "FKMNonlinearDetector._adjust_samples_and_flush_for_hcm_first_run")
        for st in f.body:
            if isinstance(st, ast.Assign) and isinstance(st.value, ast.Call) and call_name(st.value) == "np.concatenate" and \
                    isinstance(st.value.args[0], ast.List) and len(st.value.args[0].elts) == 2 and \
                    isinstance(st.value.args[0].elts[1], ast.Name):
                a = st.value.args[0].elts[0]
                st.value.args[0].elts[1] = parse_expr("%s[:1]" % ast.unparse(a))
                return True
        return False
    out.append(witness("look-ahead sees only the prepended zero", FN, lookahead_zero_only, "R-C04-1"))

    def sorted_groupby(tree):
        f = find_func(tree, "FKMNonlinearDetector.process")
        for c in calls_in(f):
            if isinstance(c.func, ast.Attribute) and c.func.attr == "groupby":
                c.keywords = [k for k in c.keywords if k.arg != "sort"]
                return True
        return False
    out.append(witness("representative sequence from a key-sorted groupby", FN, sorted_groupby, "R-C04-6"))

    def sorted_table(tree):
        f = find_func(tree, "FKMNonlinearDetector.process")
        for n in ast.walk(f):
            if isinstance(n, ast.Call) and isinstance(n.func, ast.Attribute) and n.func.attr == "unique":
                n.func = parse_expr("np.unique")
                n.args = [parse_expr("samples.index.get_level_values('load_step')")]
                return True
        return False
    out.append(witness("load-step table from np.unique (sorted)", FN, sorted_table, "R-C04-6"))

    def no_flush(tree):
        f = find_func(tree, C + "process_hcm_second")
        for c in calls_in(f, attr="process"):
            for k in c.keywords:
                if k.arg == "flush":
                    k.value = ast.Constant(False)
                    return True
        return False
    out.append(witness("flush=False in the second pass", FN, no_flush, "R-C04-1"))

    def first_always(tree):
        f = find_func(tree, C + "process_hcm_first")
        for c in calls_in(f, attr="process"):
            for k in c.keywords:
                if k.arg == "flush":
                    k.value = ast.Constant(True)
                    return True
        return False
    out.append(witness("first pass always flushes", FN, first_always, "R-C04-1"))

    def no_zero(tree):
        f = find_func(tree, C + "_adjust_samples_and_flush_for_hcm_first_run")
        for c in calls_in(f, name="np.concatenate"):
            if isinstance(c.args[0], ast.List) and isinstance(c.args[0].elts[0], ast.List):
                c.args[0].elts = c.args[0].elts[1:]
                return True
        return False
    out.append(witness("zero load not prepended", FN, no_zero, "R-C04-1"))

    def flush_last(tree):
        f = find_func(tree, C + "_adjust_samples_and_flush_for_hcm_first_run")
        for s in f.body:
            if isinstance(s, ast.If) and isinstance(s.test, ast.Compare) and isinstance(s.test.ops[0], ast.NotIn):
                s.test.left = parse_expr("len(scalar_samples)")
                return True
        return False
    out.append(witness("flush test looks at the first sample of the second copy", FN, flush_last, "R-C04-1"))

    def plain_last(tree):
        f = find_func(tree, C + "_adjust_samples_and_flush_for_hcm_first_run")
        f.body = [st for st in f.body if not isinstance(st, ast.While)]
        return True
    out.append(witness("flush test on the plain last position (a trailing plateau is never flushed)", FN, plain_last, "R-C04-1"))

    def inc_cond(tree):
        f = find_func(tree, C + "process")
        for i, s in enumerate(f.body):
            if isinstance(s, ast.AugAssign) and is_self_attr(s.target, "_run_index"):
                f.body[i] = ast.If(test=parse_expr("flush"), body=[s], orelse=[])
                return True
        return False
    out.append(witness("pass counter only incremented when flushing", FN, inc_cond, "R-C04-2"))

    def rec_once(tree):
        f = find_func(tree, "FKMNonlinearRecorder.record_values_fkm_nonlinear")
        for s in f.body:
            if isinstance(s, ast.AugAssign) and is_self_attr(s.target, "_run_index"):
                s.value = parse_expr("[run_index]")
                return True
        return False
    out.append(witness("recorder appends the pass number once per call", RP, rec_once, "R-C04-2"))

    def half_noabs(tree):
        f = find_func(tree, C + "_handle_case_a_i")
        for s in f.body:
            if isinstance(s, ast.Assign) and isinstance(s.targets[0], ast.Name) and s.targets[0].id == "_loads_max":
                s.value.args[0].elts[1] = parse_expr("previous_point.load")
                return True
        return False
    out.append(witness("Memory-3 row: loads_max without abs", FN, half_noabs, "R-C04-3"))

    def half_other_point(tree):
        f = find_func(tree, C + "_handle_case_a_i")
        for s in f.body:
            if isinstance(s, ast.Assign) and isinstance(s.targets[0], ast.Name) and s.targets[0].id == "_epsilon_max":
                s.value.args[0].elts[1] = parse_expr("abs(current_point.strain)")
                return True
        return False
    out.append(witness("Memory-3 row: strain of another point", FN, half_other_point, "R-C04-3"))

    def second_half(tree):
        f = find_func(tree, C + "_handle_case_c_ii")
        for c in calls_in(f, attr="append"):
            if isinstance(c.func.value, ast.Name) and c.func.value.id == "_is_closed_hysteresis":
                c.args[0] = ast.Constant(False)
                return True
        return False
    out.append(witness("c)ii handler records half hystereses", FN, second_half, "R-C04-3"))

    def update_first(tree):
        f = find_func(tree, C + "_perform_hcm_algorithm")
        loop = [s for s in f.body if isinstance(s, ast.For)][0]
        g = [s for s in loop.body if isinstance(s, ast.If) and "load_max_seen" in norm_text(s.test)][0]
        call = [s for s in loop.body if isinstance(s, ast.Assign) and isinstance(s.value, ast.Call) and
                getattr(s.value.func, "attr", "") == "_hcm_process_sample"][0]
        loop.body.remove(g)
        g.body = [s for s in g.body if not (isinstance(s, ast.Assign) and norm_text(s.targets[0]) == "largest_point")]
        loop.body.insert(loop.body.index(call), g)
        return True
    out.append(witness("maximum updated before the sample is classified", FN, update_first, "R-C04-5"))

    def unguarded(tree):
        f = find_func(tree, C + "_perform_hcm_algorithm")
        loop = [s for s in f.body if isinstance(s, ast.For)][0]
        for i, s in enumerate(loop.body):
            if isinstance(s, ast.If) and "load_max_seen" in norm_text(s.test):
                loop.body[i:i + 1] = s.body
                return True
        return False
    out.append(witness("maximum overwritten by every load", FN, unguarded, "R-C04-5"))

    def mem3_ge(tree):
        f = find_func(tree, C + "_hcm_process_sample")
        for s in ast.walk(f):
            if isinstance(s, ast.If) and "load_max_seen + 1e-12" in norm_text(s.test):
                s.test.ops = [ast.GtE()]
                return True
        return False
    out.append(witness("Memory-3 test with >=", FN, mem3_ge, "R-C04-5"))

    def not_carried(tree):
        f = find_func(tree, C + "process")
        for s in ast.walk(f):
            if isinstance(s, ast.Assign) and isinstance(s.value, ast.Call) and getattr(s.value.func, "attr", "") == "_perform_hcm_algorithm":
                for k in s.value.keywords:
                    if k.arg == "load_max_seen":
                        k.value = ast.Constant(0.0)
                        return True
        return False
    out.append(witness("second pass starts with maximum 0", FN, not_carried, "R-C04-5"))

    # twins
    def rename(tree):
        f = find_func(tree, C + "_adjust_samples_and_flush_for_hcm_first_run")
        for n in ast.walk(f):
            if isinstance(n, ast.Name) and n.id == "scalar_samples_twice":
                n.id = "doubled"
        return True
    out.append(twin("rename the doubled sequence", FN, rename))

    def flush_pos(tree):
        f = find_func(tree, C + "process_hcm_second")
        for c in calls_in(f, attr="process"):
            c.args.append(ast.Constant(True))
            c.keywords = []
            return True
        return False
    out.append(twin("flush passed positionally", FN, flush_pos))
    return out
