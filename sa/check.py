"""CLI:  python -m sa.check <Cxx> --tier quick|thorough   |   --replay <path>

Exit 0: every rule instance holds (known findings are printed, not counted).
Exit 1: ``VIOLATION property=<id> replay=<path>`` for each new finding.
Exit 2: ``ANALYSIS-ERROR`` (anchor vanished, floor not met, idiom not modelled,
        checker self-validation failed, checker traceback).
"""
from __future__ import annotations

import argparse
import importlib
import json
import os
import random
import sys
import time
import traceback

from . import REPO
from .frontend import AnalysisError, Program
from .report import Ctx, split_known, write_evidence, write_replay
from .witness import run_variants

PROPS = ["C%02d" % i for i in range(1, 21)]


def load_rules(prop):
    try:
        return importlib.import_module("sa.rules." + prop.lower())
    except ModuleNotFoundError as e:
        if e.name == "sa.rules." + prop.lower():
            raise AnalysisError("no rules implemented for %s" % prop)
        raise


def analyse(prop, prog, tier, seed):
    mod = load_rules(prop)
    ctx = Ctx(prop, prog, tier, seed)
    run_rules(mod, ctx)
    return mod, ctx


def run_rules(mod, ctx):
    """Run all rules; an inconclusive rule (vanished anchor, unmodelled idiom, floor not met)
    is remembered in ctx.inconclusive.  A conclusive violation elsewhere still gets reported
    (violation takes precedence over inconclusive), otherwise the run ends with exit 2."""
    ctx.inconclusive = None
    try:
        mod.run(ctx)
        from . import common
        ctx.attempt(common.run, ctx.prop)
        if ctx.inconclusive_rules:
            raise AnalysisError(" | ".join(ctx.inconclusive_rules))
        ctx.check_floors()
    except AnalysisError as e:
        ctx.inconclusive = str(e)


def _common_explanation(prop):
    from . import common
    return common.EXPLANATION % {"p": prop}


def main(argv=None):
    ap = argparse.ArgumentParser()
    ap.add_argument("prop")
    ap.add_argument("--tier", default=os.environ.get("VERIF_TIER") or "quick", choices=["quick", "thorough"])
    ap.add_argument("--replay")
    ap.add_argument("--root", default=REPO)
    ap.add_argument("--no-selfcheck", action="store_true")
    ap.add_argument("--no-evidence", action="store_true", help="development runs against a scratch tree: write no evidence / replay file")
    ap.add_argument("-v", "--verbose", action="store_true")
    a = ap.parse_args(argv)
    prop = a.prop.upper()
    seed = int(os.environ.get("VERIF_SEED") or 0)
    t0 = time.time()
    try:
        prog = Program(a.root)
        mod, ctx = analyse(prop, prog, a.tier, seed)
        if a.replay:
            with open(a.replay) as fh:
                want = json.load(fh)
            hit = [f for f in ctx.findings if f.rule == want["rule"] and f.construct == want["construct"]
                   and f.text == want["statement"]]
            if hit:
                print("REPLAY: still violated: %s %s %s" % (want["rule"], want["site"], want["message"]))
                print("VIOLATION property=%s replay=%s" % (prop, a.replay))
                return 1
            print("REPLAY: finding no longer reported on the current tree")
            return 0
        variants = {"witnesses_run": 0, "twins_run": 0, "witnesses_skipped": 0, "names": []}
        if not a.no_selfcheck and not ctx.inconclusive:
            variants = run_variants(prop, mod, prog, ctx, a.tier, seed)
        known, new = split_known(prop, ctx.findings)
        if ctx.inconclusive and not new:
            raise AnalysisError(ctx.inconclusive)
        if ctx.inconclusive:
            print("NOTE: part of the analysis was inconclusive (%s); reporting the conclusive violations" % ctx.inconclusive)
        for f in known:
            print("KNOWN-FINDING: property=%s %s %s at %s: %s" % (prop, f.rule, f.construct, f.site, f.message))
        replays = []
        for f in new:
            path = write_replay(f) if not a.no_evidence else "(not-written)"
            replays.append(path)
            print("%s: %s [%s] %s\n    %s" % (f.site, f.rule, f.construct, f.message, f.text))
            print("VIOLATION property=%s replay=%s" % (prop, path))
        per_rule = {}
        for inst in ctx.instances:
            d = per_rule.setdefault(inst["rule"], {"instances": 0, "holds": 0, "violated": 0})
            d["instances"] += 1
            d[inst["verdict"]] += 1
        for r, (floor, what) in ctx.floors.items():
            per_rule.setdefault(r, {"instances": 0, "holds": 0, "violated": 0})
            per_rule[r]["floor"] = floor
            per_rule[r]["rule_text"] = what
        distinct = len({(i["rule"], i["construct"], i["site"], i["what"]) for i in ctx.instances})
        rnd = random.Random(seed)
        samples = ctx.instances if len(ctx.instances) <= 12 else \
            [ctx.instances[i] for i in sorted(rnd.sample(range(len(ctx.instances)), 12))]
        stats = prog.stats() if a.tier == "thorough" else {
            "modules": len(prog.modules), "classes": len(prog.classes), "functions": len(prog.functions)}
        coverage = {
            "explanation": mod.EXPLANATION + _common_explanation(prop),
            "evaluations": len(ctx.instances),
            "distinct_nontrivial": distinct,
            "rule": "one evaluation = one rule instance bound to a construct of /repo's current source "
                    "(function, statement, call site, path or algebraic obligation); distinct = distinct "
                    "(rule, construct, site, fact) tuples; every instance is non-trivial in that it matched a "
                    "code site (rules matching fewer sites than their floor abort with exit 2)",
            "samples": samples,
            "per_rule": per_rule,
            "program": stats,
            "digests": {m.path: m.digest for m in prog.modules.values()
                        if any(m.path in (i["site"] or "") for i in ctx.instances)},
            "selfcheck": variants,
            "known_findings_printed": [f.as_dict() for f in known],
            "new_findings": [f.as_dict() for f in new],
            "notes": ctx.notes,
            "exhaustive": True,
        }
        if getattr(mod, "LEVEL", "other") == "proof":
            obl = [i for i in ctx.instances if i["rule"] in getattr(mod, "PROOF_RULES", ())] or ctx.instances
            coverage["obligations"] = len(obl)
            coverage["discharged"] = len([i for i in obl if i["verdict"] == "holds"])
            coverage["checker_cmd"] = "/venv/bin/python -m sa.check %s --tier %s" % (prop, a.tier)
            coverage["trusted_base"] = list(getattr(mod, "TRUSTED_BASE", []))
        if not a.no_evidence:
            write_evidence(prop, a.tier, seed, getattr(mod, "LEVEL", "other"), coverage,
                           list(getattr(mod, "ASSUMPTIONS", [])), time.time() - t0, len(new))
        print("%s %s: %d rule instances over %d rules, %d known finding(s), %d new violation(s), "
              "selfcheck %d witnesses / %d twins / %d stored seeded changes / %d behaviour-preserving changes silent%s, %.2fs" %
              (prop, a.tier, len(ctx.instances), len(per_rule), len(known), len(new),
               variants["witnesses_run"], variants["twins_run"], variants.get("seeds_run", 0), variants.get("benign_run", 0),
               (" (%d undecided)" % len(variants["benign_inconclusive"])) if variants.get("benign_inconclusive") else "",
               time.time() - t0))
        if a.verbose:
            for i in ctx.instances:
                print("  %-10s %-9s %s %s :: %s" % (i["rule"], i["verdict"], i["site"], i["construct"], i["what"]))
        return 1 if new else 0
    except AnalysisError as e:
        print("ANALYSIS-ERROR property=%s %s" % (prop, e))
        return 2
    except Exception:
        traceback.print_exc()
        print("ANALYSIS-ERROR property=%s checker traceback (see above)" % prop)
        return 2


if __name__ == "__main__":
    sys.exit(main())
