"""Checker self-validation (design §7): armed witnesses and benign twins.

A *witness* is an in-memory ast edit of one module of /repo's current source on
which a named rule must fire; a *twin* is a behaviour-preserving edit on which
every rule must stay silent.  Nothing is written to disk and no edited code is
ever executed.  A failure here is a defect of the checker: exit 2, never a
VIOLATION of the property.
"""
from __future__ import annotations

import ast
import multiprocessing
import random
from dataclasses import dataclass

from .frontend import AnalysisError, Program, set_parents
from .report import Ctx


@dataclass
class Variant:
    kind: str            # 'witness' | 'twin'
    name: str
    path: str            # repo-relative file edited
    edit: object         # callable(tree) -> bool (site found and edited)
    rule: str | None = None        # witness: rule that must fire
    construct: str | None = None   # witness: substring the reported construct must contain


def witness(name, path, edit, rule, construct=None):
    return Variant("witness", name, path, edit, rule, construct)


def twin(name, path, edit):
    return Variant("twin", name, path, edit)


def _module_by_path(prog, path):
    for m in prog.modules.values():
        if m.path == path:
            return m
    raise AnalysisError("variant refers to missing file %s" % path)


def _apply(prog, v):
    m = _module_by_path(prog, v.path)
    import warnings
    with warnings.catch_warnings():
        warnings.simplefilter("ignore")
        tree = ast.parse(m.pysource)
    set_parents(tree)
    ok = v.edit(tree)
    if not ok:
        return None
    ast.fix_missing_locations(tree)
    return Program(prog.root, overrides={v.path: ast.unparse(tree)}, base=prog)


def _run_one(args):
    prop, idx, root, base_keys, base_rc = args
    from .check import load_rules
    mod = load_rules(prop)
    v = mod.variants()[idx]
    prog = _PROG[0] if _PROG and _PROG[0].root == root else Program(root)
    try:
        prog2 = _apply(prog, v)
    except AnalysisError as e:
        return (idx, "error", "edit failed: %s" % e)
    if prog2 is None:
        return (idx, "skipped", "site not found on this tree")
    from .check import run_rules
    ctx = Ctx(prop, prog2, "quick", 0)
    run_rules(mod, ctx)
    new = [f for f in ctx.findings if f.key() not in base_keys]
    if ctx.inconclusive and not (v.kind == "witness" and any(f.rule == v.rule for f in new)):
        if v.kind == "witness":
            return (idx, "fail", "witness made the analysis inconclusive instead of firing: %s" % ctx.inconclusive)
        return (idx, "fail", "twin made the analysis inconclusive: %s" % ctx.inconclusive)
    if v.kind == "witness":
        hit = [f for f in new if f.rule == v.rule and (v.construct is None or v.construct in f.construct)]
        if hit:
            return (idx, "ok", "%s fired at %s" % (v.rule, hit[0].site))
        return (idx, "fail", "witness %s did not make %s fire (new findings: %s)" %
                (v.name, v.rule, [(f.rule, f.construct) for f in new]))
    rc = {}
    for f in ctx.findings:
        rc[(f.rule, f.construct)] = rc.get((f.rule, f.construct), 0) + 1
    if rc != base_rc:
        extra = [(f.rule, f.construct, f.message) for f in new]
        return (idx, "fail", "twin %s changed the findings: %s" % (v.name, extra))
    return (idx, "ok", "silent")


_PROG = []


def run_variants(prop, mod, prog, base_ctx, tier, seed):
    allv = mod.variants() if hasattr(mod, "variants") else []
    res = {"witnesses_run": 0, "twins_run": 0, "witnesses_skipped": 0, "available": len(allv), "names": []}
    if not allv:
        return res
    idxs = list(range(len(allv)))
    if tier == "quick":
        rnd = random.Random(seed)
        w = [i for i in idxs if allv[i].kind == "witness"]
        t = [i for i in idxs if allv[i].kind == "twin"]
        idxs = sorted(rnd.sample(w, min(3, len(w))) + rnd.sample(t, min(2, len(t))))
    base_keys = {f.key() for f in base_ctx.findings}
    base_rc = {}
    for f in base_ctx.findings:
        base_rc[(f.rule, f.construct)] = base_rc.get((f.rule, f.construct), 0) + 1
    jobs = [(prop, i, prog.root, base_keys, base_rc) for i in idxs]
    _PROG[:] = [prog]
    if len(jobs) > 4:
        ctxm = multiprocessing.get_context("fork")
        with ctxm.Pool(min(16, len(jobs))) as pool:
            results = pool.map(_run_one, jobs)
    else:
        results = [_run_one(j) for j in jobs]
    fails = []
    for idx, status, msg in results:
        v = allv[idx]
        res["names"].append({"kind": v.kind, "name": v.name, "rule": v.rule, "status": status, "msg": msg})
        if status == "skipped":
            res["witnesses_skipped"] += 1
        elif status in ("fail", "error"):
            fails.append("%s %s: %s" % (v.kind, v.name, msg))
        elif v.kind == "witness":
            res["witnesses_run"] += 1
        else:
            res["twins_run"] += 1
    if fails:
        raise AnalysisError("checker self-validation failed: " + " | ".join(fails))
    return res
