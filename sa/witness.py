"""Checker self-validation (design §7): armed witnesses and benign twins.

A *witness* is an in-memory ast edit of one module of /repo's current source on
which a named rule must fire; a *twin* is a behaviour-preserving edit on which
every rule must stay silent.  Nothing is written to disk and no edited code is
ever executed.  A failure here is a defect of the checker: exit 2, never a
VIOLATION of the property.
"""
from __future__ import annotations

import ast
import multiprocessing
import os
import random
from dataclasses import dataclass

from .frontend import AnalysisError, Program, set_parents
from .report import Ctx


@dataclass
class Variant:
    kind: str            # 'witness' | 'twin'
    name: str
    path: str            # repo-relative file edited
    edit: object         # callable(tree) -> bool (site found and edited)
    rule: str | None = None        # witness: rule that must fire
    construct: str | None = None   # witness: substring the reported construct must contain
    seed: dict | None = None       # kind 'seed' / 'seed-obsolete': stored seeded change applied as text
    multi: object = None           # callable(prog) -> {path: source} | None : a twin that rewrites several files


def witness(name, path, edit, rule, construct=None):
    return Variant("witness", name, path, edit, rule, construct)


def twin(name, path, edit):
    return Variant("twin", name, path, edit)


def repair(name, path, edit, rule, construct=None):
    """A repaired version of a construct that is listed as a known finding: the finding of ``rule`` must disappear and
    nothing new may be reported (shows that the rule is silent on correct code, cf. DESIGN §7)."""
    return Variant("repair", name, path, edit, rule, construct)


def _module_by_path(prog, path):
    for m in prog.modules.values():
        if m.path == path:
            return m
    raise AnalysisError("variant refers to missing file %s" % path)


def _apply(prog, v):
    if v.seed is not None:
        from .seedcorpus import overrides_for, PatchDoesNotApply
        try:
            ov = overrides_for(prog, v.seed)
        except PatchDoesNotApply:
            return None
        return Program(prog.root, overrides=ov, base=prog)
    if v.multi is not None:
        ov = v.multi(prog)
        return Program(prog.root, overrides=ov, base=prog) if ov else None
    m = _module_by_path(prog, v.path)
    import warnings
    with warnings.catch_warnings():
        warnings.simplefilter("ignore")
        tree = ast.parse(m.pysource)
    set_parents(tree)
    ok = v.edit(tree)
    if not ok:
        return None
    ast.fix_missing_locations(tree)
    return Program(prog.root, overrides={v.path: ast.unparse(tree)}, base=prog)


def all_variants(prop, mod, with_private=False):
    """hand-written witnesses/twins of the rule module + one automatic alpha-renaming twin per anchored file"""
    import json
    from . import VERIF
    out = list(mod.variants()) if hasattr(mod, "variants") else []
    files = []
    try:
        for l in open(os.path.join(VERIF, "properties.jsonl")):
            rec = json.loads(l)
            if rec["id"] == prop:
                files = [f for f in rec["anchors"]["files"] if f.endswith(".py")]
    except OSError:
        files = []
    for f in getattr(mod, "EXTRA_FILES", []):
        if f not in files:
            files.append(f)
    from .seedcorpus import seeds_of
    seeds = []
    for sd in seeds_of(prop):
        kind = "seed-obsolete" if sd["obsolete"] else "seed"
        seeds.append(Variant(kind, "seeded change %s: %s" % (sd["name"], sd["summary"]), "", None, None, None, sd))
    from .seedcorpus import benign_all
    for sd in benign_all():
        seeds.append(Variant("benign", "behaviour-preserving change %s: %s" % (sd["name"], sd["summary"]), "", None, None, None, sd))
    return out + auto_rename_twins(files, with_private) + seeds


def _run_one(args):
    prop, idx, root, base_keys, base_rc = args
    from .check import load_rules
    mod = load_rules(prop)
    v = all_variants(prop, mod)[idx]
    prog = _PROG[0] if _PROG and _PROG[0].root == root else Program(root)
    try:
        prog2 = _apply(prog, v)
    except AnalysisError as e:
        return (idx, "error", "edit failed: %s" % e)
    if prog2 is None:
        return (idx, "skipped", "site not found on this tree")
    from .check import run_rules
    ctx = Ctx(prop, prog2, "quick", 0)
    run_rules(mod, ctx)
    new = [f for f in ctx.findings if f.key() not in base_keys]
    if ctx.inconclusive and v.name.startswith("auto:") and not new:
        # alpha-renaming made a name-anchored rule inconclusive: tolerated (never a violation), recorded in evidence
        return (idx, "inconclusive", ctx.inconclusive[:300])
    if v.kind == "benign":
        if new:
            return (idx, "fail", "behaviour-preserving change %s is reported: %s" %
                    (v.seed["name"], [(f.rule, f.message[:100]) for f in new]))
        if ctx.inconclusive:
            return (idx, "inconclusive", ctx.inconclusive[:300])
        return (idx, "ok", "silent")
    if ctx.inconclusive and v.kind not in ("seed", "seed-obsolete") and not (v.kind == "witness" and any(f.rule == v.rule for f in new)):
        if v.kind == "witness":
            return (idx, "fail", "witness made the analysis inconclusive instead of firing: %s" % ctx.inconclusive)
        return (idx, "fail", "twin made the analysis inconclusive: %s" % ctx.inconclusive)
    if v.kind == "seed":
        caught_elsewhere = v.seed.get("caught_by")
        if new:
            return (idx, "ok", "reported: %s" % ", ".join(sorted({f.rule for f in new})))
        if caught_elsewhere:
            return (idx, "skipped", "not decided by this property's rules (reported by %s)" % caught_elsewhere)
        if ctx.inconclusive:
            return (idx, "fail", "seeded change made the analysis inconclusive instead of being reported: %s" % ctx.inconclusive[:200])
        return (idx, "fail", "seeded change %s is not reported" % v.seed["name"])
    if v.kind == "seed-obsolete":
        if new:
            return (idx, "fail", "obsolete (now harmless) seeded change %s is reported: %s" %
                    (v.seed["name"], [(f.rule, f.message[:80]) for f in new]))
        return (idx, "ok", "silent (change is harmless on the repaired tree)")
    if v.kind == "witness":
        hit = [f for f in new if f.rule == v.rule and (v.construct is None or v.construct in f.construct)]
        if hit:
            return (idx, "ok", "%s fired at %s" % (v.rule, hit[0].site))
        return (idx, "fail", "witness %s did not make %s fire (new findings: %s)" %
                (v.name, v.rule, [(f.rule, f.construct) for f in new]))
    rc = {}
    for f in ctx.findings:
        rc[(f.rule, f.construct)] = rc.get((f.rule, f.construct), 0) + 1
    if v.kind == "repair":
        before = sum(n for (r, c), n in base_rc.items() if r == v.rule and (v.construct is None or v.construct in c))
        after = sum(n for (r, c), n in rc.items() if r == v.rule and (v.construct is None or v.construct in c))
        if new:
            return (idx, "fail", "repair %s produced new findings: %s" % (v.name, [(f.rule, f.construct, f.message) for f in new]))
        if before == 0:
            return (idx, "skipped", "nothing to repair on this tree")
        if after < before:
            return (idx, "ok", "finding of %s gone (%d -> %d)" % (v.rule, before, after))
        return (idx, "fail", "repair %s did not silence %s (%d -> %d)" % (v.name, v.rule, before, after))
    if rc != base_rc:
        extra = [(f.rule, f.construct, f.message) for f in new]
        return (idx, "fail", "twin %s changed the findings: %s" % (v.name, extra))
    return (idx, "ok", "silent")


_PROG = []


def run_variants(prop, mod, prog, base_ctx, tier, seed):
    allv = all_variants(prop, mod)
    res = {"witnesses_run": 0, "twins_run": 0, "witnesses_skipped": 0, "available": len(allv), "names": []}
    if not allv:
        return res
    idxs = list(range(len(allv)))
    if tier == "quick":
        rnd = random.Random(seed)
        w = [i for i in idxs if allv[i].kind == "witness"]
        # (stored seeded changes run in the thorough tier only)
        t = [i for i in idxs if allv[i].kind == "twin"]
        r = [i for i in idxs if allv[i].kind == "repair"]
        idxs = sorted(rnd.sample(w, min(3, len(w))) + rnd.sample(t, min(2, len(t))) + r)
    base_keys = {f.key() for f in base_ctx.findings}
    base_rc = {}
    for f in base_ctx.findings:
        base_rc[(f.rule, f.construct)] = base_rc.get((f.rule, f.construct), 0) + 1
    jobs = [(prop, i, prog.root, base_keys, base_rc) for i in idxs]
    _PROG[:] = [prog]
    if len(jobs) > 4:
        ctxm = multiprocessing.get_context("fork")
        with ctxm.Pool(min(16, len(jobs))) as pool:
            results = pool.map(_run_one, jobs)
    else:
        results = [_run_one(j) for j in jobs]
    fails = []
    for idx, status, msg in results:
        v = allv[idx]
        res["names"].append({"kind": v.kind, "name": v.name, "rule": v.rule, "status": status, "msg": msg})
        if status == "skipped":
            res["witnesses_skipped"] += 1
        elif status == "inconclusive":
            res.setdefault("benign_inconclusive" if v.kind == "benign" else "auto_twins_inconclusive", []).append(
                v.name if v.kind != "benign" else "%s: %s" % (v.seed["name"], msg[:160]))
        elif status in ("fail", "error"):
            fails.append("%s %s: %s" % (v.kind, v.name, msg))
        elif v.kind == "witness":
            res["witnesses_run"] += 1
        elif v.kind in ("seed", "seed-obsolete"):
            res["seeds_run"] = res.get("seeds_run", 0) + 1
        elif v.kind == "benign":
            res["benign_run"] = res.get("benign_run", 0) + 1
        else:
            res["twins_run"] += 1
    if fails:
        raise AnalysisError("checker self-validation failed: " + " | ".join(fails))
    return res


# ----------------------------------------------------------------------------------------------------
# automatic alpha-renaming twins: every function-local variable of a file is renamed consistently.
# Behaviour is unchanged, so every rule must stay silent (finds rules that depend on local names).

def _rename_locals(tree):
    import symtable  # noqa: F401  (kept stdlib-only; scoping done by hand below)
    changed = 0

    def locals_of(fn):
        params = {a.arg for a in fn.args.posonlyargs + fn.args.args + fn.args.kwonlyargs}
        if fn.args.vararg:
            params.add(fn.args.vararg.arg)
        if fn.args.kwarg:
            params.add(fn.args.kwarg.arg)
        declared = set()
        assigned = set()
        nested_defs = set()

        def walk(n, top):
            for c in ast.iter_child_nodes(n):
                if isinstance(c, (ast.FunctionDef, ast.AsyncFunctionDef, ast.ClassDef)):
                    nested_defs.add(c.name)
                    continue
                if isinstance(c, ast.Lambda):
                    continue
                if isinstance(c, (ast.Global, ast.Nonlocal)):
                    declared.update(c.names)
                if isinstance(c, ast.Name) and isinstance(c.ctx, (ast.Store, ast.Del)):
                    assigned.add(c.id)
                if isinstance(c, ast.ExceptHandler) and c.name:
                    declared.add(c.name)
                if isinstance(c, (ast.Import, ast.ImportFrom)):
                    for a in c.names:
                        declared.add((a.asname or a.name).split(".")[0])
                walk(c, False)
        walk(fn, True)
        return assigned - params - declared - nested_defs

    def free_in_nested(fn, names):
        # a local read by a nested function/lambda/comprehension is renamed there too (same scope chain)
        return names

    def apply(fn, mapping):
        def rec(n, mapping):
            for c in ast.iter_child_nodes(n):
                if isinstance(c, (ast.FunctionDef, ast.AsyncFunctionDef)):
                    inner_params = {a.arg for a in c.args.posonlyargs + c.args.args + c.args.kwonlyargs}
                    inner_assigned = locals_of(c)
                    m2 = {k: v for k, v in mapping.items() if k not in inner_params and k not in inner_assigned}
                    # defaults/decorators evaluate in the enclosing scope
                    for d in c.args.defaults + c.args.kw_defaults + c.decorator_list:
                        if d is not None:
                            rec_expr(d, mapping)
                    for b in c.body:
                        rec_stmt(b, m2)
                    continue
                if isinstance(c, ast.Lambda):
                    lp = {a.arg for a in c.args.args + c.args.kwonlyargs}
                    rec(c.body if False else c, {k: v for k, v in mapping.items() if k not in lp})
                    continue
                if isinstance(c, ast.ClassDef):
                    continue
                if isinstance(c, ast.Name) and c.id in mapping:
                    c.id = mapping[c.id]
                rec(c, mapping)

        def rec_expr(e, mapping):
            if isinstance(e, ast.Name) and e.id in mapping:
                e.id = mapping[e.id]
            rec(e, mapping)

        def rec_stmt(s, mapping):
            if isinstance(s, ast.Name) and s.id in mapping:
                s.id = mapping[s.id]
            rec(s, mapping)
        rec(fn, mapping)

    def visit(scope_body):
        nonlocal changed
        for n in scope_body:
            if isinstance(n, ast.ClassDef):
                visit(n.body)
            elif isinstance(n, (ast.FunctionDef, ast.AsyncFunctionDef)):
                loc = sorted(locals_of(n))
                # comprehension / keyword names are unaffected: keywords are ast.keyword.arg, not Name
                mapping = {name: "%s_rn" % name for name in loc if not name.startswith("__")}
                if mapping:
                    apply(n, mapping)
                    changed += len(mapping)
                # nested functions get their own locals renamed as well
                visit([c for c in ast.walk(n) if isinstance(c, (ast.FunctionDef, ast.AsyncFunctionDef)) and c is not n])
    visit(tree.body)
    return changed > 0


def auto_rename_twins(paths, with_private=False):
    """automatic twins of the anchored files.  The program-wide renaming of private members is not part of the self-validation
    (`with_private`): the properties name private methods as their anchors, a rule that loses such an anchor is undecided by
    design; tools/run_auto_twins.py runs it for information."""
    from .autotwins import TRANSFORMS, rename_private_everywhere
    out = [twin("auto: all locals of %s renamed" % os.path.basename(p), p, _rename_locals) for p in paths]
    for what, fn in TRANSFORMS:
        for p in paths:
            out.append(twin("auto: %s in %s" % (what, os.path.basename(p)), p, fn))
    for p in (paths if with_private else []):
        v = twin("auto: private members of %s renamed everywhere" % os.path.basename(p), p, None)
        v.multi = (lambda prog, p=p: rename_private_everywhere(prog, p))
        out.append(v)
    return out
