"""Order-class (taint) analysis shared by C18, C11 and C20 (design §2.3 "row-order taint").

Every value gets an order class: ROW (row order of a frame and of its filtered views), SORTED, GROUPED (aggregates of a
key-sorted groupby), ROWG (aggregates of an unsorted groupby: appearance order), LADDER (order-statistic probabilities),
CLEAN (reductions, lengths).  Sinks are enumerated; unknown operations pass (no false alarms, complete only for the table).
"""
from __future__ import annotations

import ast

from .astutil import call_name, const_value, is_self_attr, tuple_assign_pairs
from .frontend import walk_stmts
from .report import norm_text

ROW_PROPS = {"fractures", "runouts", "finite_zone", "infinite_zone", "load", "cycles", "_finite_zone", "_infinite_zone",
             "_obj", "_finite_fractures"}
REDUCERS = {"max", "min", "mean", "sum", "any", "all", "count", "std", "var", "median", "prod", "nunique", "size", "eq_any"}
SORTERS = {"np.sort", "sorted", "np.unique", "np.setdiff1d", "np.intersect1d", "np.setxor1d", "np.union1d"}
ELEMENTWISE = {"np.log10", "np.log", "np.exp", "np.abs", "np.sqrt", "np.power", "np.logical_not", "np.logical_and",
               "np.logical_or", "np.asarray", "np.array", "np.isnan", "np.where", "np.empty_like", "np.zeros_like",
               "stats.norm.ppf", "stats.norm.cdf", "stats.norm.pdf", "abs"}
ORDER_METHODS = {"head", "tail", "first", "last", "nth", "cumsum", "cumprod", "cummax", "cummin", "shift", "diff",
                 "rolling", "expanding", "ewm", "pct_change"}
PAIRWISE = {"stats.linregress", "linregress", "np.polyfit", "np.corrcoef", "np.dot"}


class Orders:
    def __init__(self, prog, modules, row_source=None, seed_env=None, sorted_input_sinks=False):
        self.prog = prog
        self.modules = modules
        self.row_source = row_source      # callable(expr, fi) -> bool: expression is row-ordered source data
        self.seed_env = seed_env          # callable(fi) -> dict name -> class
        self.sorted_input_sinks = sorted_input_sinks
        self.attr = {}
        self.flows = 0
        self.sinks = []      # (fi, stmt, node, message)
        self.pairings = []   # (fi, stmt, call, classes)

    def oc(self, e, env, fi):
        ci = fi.cls or (fi.parent.cls if fi.parent else None)
        if self.row_source is not None and self.row_source(e, fi):
            self.flows += 1
            return "ROW"
        if isinstance(e, ast.Name):
            return env.get(e.id)
        if is_self_attr(e):
            if e.attr in ROW_PROPS and ci is not None and ci.module.name.endswith(("fatigue_data", "elementary")):
                self.flows += 1
                return "ROW"
            return self.attr.get((ci.key if ci else None, e.attr))
        if isinstance(e, ast.Attribute):
            b = self.oc(e.value, env, fi)
            # self._fd.<prop> / infinite_zone.<col>
            if is_self_attr(e.value, "_fd") or (isinstance(e.value, ast.Name) and e.value.id in ("fatigue_data",)):
                if e.attr in ROW_PROPS:
                    self.flows += 1
                    return "ROW"
                return None
            if b == "ROW":
                if e.attr in ("shape", "size", "ndim", "dtype", "columns", "name"):
                    return "CLEAN"
                return "ROW"
            if isinstance(b, tuple) and b[0] == "GROUPBY":
                return b
            if b in ("SORTED", "GROUPED", "ROWG", "LADDER"):
                if e.attr in ("shape", "size"):
                    return "CLEAN"
                return b
            return None
        if isinstance(e, ast.Subscript):
            b = self.oc(e.value, env, fi)
            if b == "ROW":
                return "ROW"
            if isinstance(b, tuple) and b[0] == "GROUPBY":
                return b
            return b if b in ("SORTED", "GROUPED", "ROWG", "LADDER") else None
        if isinstance(e, (ast.BinOp,)):
            ks = [self.oc(e.left, env, fi), self.oc(e.right, env, fi)]
            for k in ("ROW", "ROWG", "GROUPED", "LADDER", "SORTED"):
                if k in ks:
                    return k if k != "SORTED" else None
            return None
        if isinstance(e, ast.UnaryOp):
            return self.oc(e.operand, env, fi)
        if isinstance(e, ast.Compare):
            ks = [self.oc(e.left, env, fi)] + [self.oc(c, env, fi) for c in e.comparators]
            for k in ("ROW", "ROWG", "GROUPED"):
                if k in ks:
                    return k
            return None
        if isinstance(e, ast.Call):
            fn = call_name(e) or ""
            f = e.func
            if fn in SORTERS and e.args:
                return "SORTED"
            if fn.endswith("rossow_cumfreqs"):
                return "LADDER"
            if fn in ("len",):
                return "CLEAN"
            if fn in ELEMENTWISE and e.args:
                ks = [self.oc(a, env, fi) for a in e.args]
                for k in ("ROW", "ROWG", "GROUPED", "LADDER"):
                    if k in ks:
                        return k
                if "SORTED" in ks and fn in ("np.log10", "np.log", "np.asarray", "np.array", "np.sqrt", "np.exp"):
                    return "SORTED"      # monotone element-wise map keeps the order
                return None
            if isinstance(f, ast.Attribute):
                recv = self.oc(f.value, env, fi)
                if f.attr == "groupby" and recv == "ROW":
                    sort = next((const_value(k.value) for k in e.keywords if k.arg == "sort"), True)
                    return ("GROUPBY", bool(sort))
                if isinstance(recv, tuple) and recv[0] == "GROUPBY":
                    if f.attr in REDUCERS or f.attr in ("first", "last", "agg", "aggregate", "apply"):
                        return "GROUPED" if recv[1] else "ROWG"
                    return recv
                if recv in ("ROW", "ROWG"):
                    if f.attr in REDUCERS:
                        return "CLEAN"
                    if f.attr in ("sort_values", "sort_index"):
                        return "SORTED"
                    if f.attr in ("unique", "to_numpy", "astype", "copy", "reset_index", "loc", "dropna", "fillna",
                                  "flatten", "eq", "isin", "mul", "div", "add", "sub", "pow", "abs", "to_frame",
                                  "get_level_values", "to_series", "tolist", "to_list", "ravel", "droplevel", "drop_duplicates"):
                        return recv
                    return None
                if recv in ("GROUPED", "SORTED", "LADDER"):
                    if f.attr in REDUCERS:
                        return "CLEAN"
                    if f.attr in ("to_numpy", "astype", "copy", "flatten", "ravel", "to_series", "tolist", "to_list"):
                        return recv
                    return None
            return None
        if isinstance(e, ast.IfExp):
            a, b = self.oc(e.body, env, fi), self.oc(e.orelse, env, fi)
            return a if a == b else (a or b)
        return None

    def scan(self, fi, report):
        ci = fi.cls or (fi.parent.cls if fi.parent else None)
        env = dict(self.seed_env(fi)) if self.seed_env is not None else {}
        if fi.name == "__init__" and ci is not None and ci.name == "PearlChainProbability":
            env[fi.params[1]] = "ROW"
            self.flows += 1
        for _ in range(2):
            for s in walk_stmts(fi.node.body):
                if isinstance(s, ast.Assign):
                    for t, v in tuple_assign_pairs(s):
                        k = self.oc(v, env, fi)
                        if isinstance(t, ast.Name):
                            if k is not None:
                                env[t.id] = k
                            else:
                                env.pop(t.id, None)
                        elif is_self_attr(t) and k is not None:
                            self.attr[(ci.key if ci else None, t.attr)] = k
        if not report:
            return
        for s in walk_stmts(fi.node.body):
            roots = [s.test] if isinstance(s, (ast.If, ast.While)) else ([s.iter] if isinstance(s, ast.For) else
                                                                          ([] if isinstance(s, (ast.FunctionDef, ast.With, ast.Try, ast.ClassDef)) else [s]))
            for r in roots:
                for n in ast.walk(r):
                    if isinstance(n, ast.Subscript) and isinstance(n.ctx, ast.Load):
                        base = n.value
                        via_iloc = isinstance(base, ast.Attribute) and base.attr in ("iloc", "iat")
                        via_loc = isinstance(base, ast.Attribute) and base.attr in ("loc", "at")
                        b = self.oc(base.value if (via_iloc or via_loc) else base, env, fi)
                        if b not in ("ROW", "ROWG") or via_loc:
                            continue
                        sl = n.slice
                        if isinstance(sl, ast.Tuple) and via_iloc:
                            sl = sl.elts[0]
                        c = const_value(sl)
                        hit = isinstance(c, int) and not isinstance(c, bool)
                        if isinstance(sl, ast.Slice):
                            lo, up = const_value(sl.lower) if sl.lower else None, const_value(sl.upper) if sl.upper else None
                            hit = (isinstance(lo, int) or isinstance(up, int)) and not (sl.lower is None and up == 0)
                        if hit:
                            self.sinks.append((fi, s, n, "constant positional access %s to row-ordered data" % norm_text(n)))
                    if isinstance(n, ast.Call) and isinstance(n.func, ast.Attribute):
                        recv = self.oc(n.func.value, env, fi)
                        if recv in ("ROW", "ROWG") and n.func.attr in ORDER_METHODS:
                            self.sinks.append((fi, s, n, "order-sensitive operation .%s() on row-ordered data" % n.func.attr))
                        if recv in ("ROW", "ROWG") and n.func.attr == "drop_duplicates":
                            keep = next((const_value(k.value) for k in n.keywords if k.arg == "keep"), "first")
                            if keep is not False:
                                self.sinks.append((fi, s, n, "drop_duplicates(keep=%r) on row-ordered data" % keep))
                    if isinstance(n, ast.Call) and self.sorted_input_sinks:
                        fn0 = call_name(n) or ""
                        arr = None
                        if fn0 in ("np.searchsorted", "numpy.searchsorted") and n.args:
                            arr = n.args[0]
                        elif isinstance(n.func, ast.Attribute) and n.func.attr == "searchsorted":
                            arr = n.func.value
                        if arr is not None and self.oc(arr, env, fi) in ("ROW", "ROWG"):
                            self.sinks.append((fi, s, n, "binary search in row-ordered (unsorted) data %s" % norm_text(arr)))
                    if isinstance(n, ast.Call):
                        fn = call_name(n) or ""
                        is_pair = fn in PAIRWISE
                        if not is_pair:
                            for key in self.prog.resolve_call(fi, n):
                                callee = self.prog.functions.get(key)
                                if callee is not None and callee.cls is not None and callee.cls.name == "ProbabilityFit":
                                    is_pair = True
                        if is_pair and len(n.args) >= 2:
                            ks = [self.oc(a, env, fi) for a in n.args[:2]]
                            self.pairings.append((fi, s, n, ks))

    def run(self):
        funcs = [fi for fi in self.prog.functions.values() if fi.module.name in self.modules]
        for _ in range(2):
            for fi in funcs:
                self.scan(fi, False)
        for fi in funcs:
            self.scan(fi, True)
        return len(funcs)


