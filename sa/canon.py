"""Canonical form of function bodies (design §11.4): single-use temporaries are folded into their use.

`t = E` ... one later statement of the same block that reads `t` exactly once   ->   that statement with E in place of `t`.

Refactorings introduce and remove such temporaries all the time (`return E` <-> `t = E; return t`), and rules that read the
statements of a function should not care.  The frontend applies this to every function of every module when it loads the
program, so all rules see the same shape whichever way the source is written; reports keep the line numbers of the original
nodes.  The folding is done only where it cannot change what the analysis sees:

  * `t` is a plain local with exactly one store (that assignment) and exactly one load in the whole function, the load is not
    inside a nested function, lambda or comprehension, and `t` is not declared global/nonlocal;
  * the load sits in a later statement of the same block: a simple statement, or the header expression of an `if` / `for` /
    `with` (not `while`: its test is evaluated repeatedly);
  * no statement in between stores a name that E reads, stores an attribute / subscript of such a name, or - when E reads an
    attribute or subscript, or contains a call - contains a call at all (it might change what E reads, or E's call might
    change what the statement reads); only plain assignments to names may lie in between.
"""
from __future__ import annotations

import ast

SIMPLE = (ast.Assign, ast.AugAssign, ast.AnnAssign, ast.Return, ast.Expr, ast.Raise, ast.Assert, ast.Delete)
SCOPES = (ast.FunctionDef, ast.AsyncFunctionDef, ast.Lambda, ast.ListComp, ast.SetComp, ast.DictComp, ast.GeneratorExp, ast.ClassDef)


def _own_nodes(fn):
    """nodes of the function body that belong to its own scope (nested scopes excluded, their root included)"""
    out = []
    stack = list(fn.body)
    while stack:
        n = stack.pop()
        out.append(n)
        if isinstance(n, SCOPES):
            continue
        stack.extend(ast.iter_child_nodes(n))
    return out


def _blocks(fn):
    out = []

    def rec(stmts):
        out.append(stmts)
        for st in stmts:
            if isinstance(st, (ast.FunctionDef, ast.AsyncFunctionDef, ast.ClassDef)):
                continue
            for fld in ("body", "orelse", "finalbody"):
                b = getattr(st, fld, None)
                if isinstance(b, list) and b and isinstance(b[0], ast.stmt):
                    rec(b)
            if isinstance(st, ast.Try):
                for h in st.handlers:
                    rec(h.body)
            if hasattr(ast, "Match") and isinstance(st, ast.Match):
                for c in st.cases:
                    rec(c.body)
    rec(fn.body)
    return out


def _header_exprs(st):
    if isinstance(st, ast.If):
        return [st.test]
    if isinstance(st, (ast.For, ast.AsyncFor)):
        return [st.iter]
    if isinstance(st, (ast.With, ast.AsyncWith)):
        return [i.context_expr for i in st.items]
    return []


def _replace(root, target, repl):
    for n in ast.walk(root):
        for fld, val in ast.iter_fields(n):
            if val is target:
                setattr(n, fld, repl)
                return True
            if isinstance(val, list):
                for i, v in enumerate(val):
                    if v is target:
                        val[i] = repl
                        return True
    return False


def fold_temporaries(fn):
    """apply the folding to one FunctionDef in place; returns the number of temporaries folded"""
    folded = 0
    for _ in range(50):
        own = _own_nodes(fn)
        own_ids = {id(n) for n in own}
        stores, loads = {}, {}
        captured = set()                       # names a nested scope reads without binding them itself (closure variables)
        for n in own:
            if isinstance(n, ast.Name):
                (stores if isinstance(n.ctx, (ast.Store, ast.Del)) else loads).setdefault(n.id, []).append(n)
            if isinstance(n, SCOPES):
                inner_st = {x.id for x in ast.walk(n) if isinstance(x, ast.Name) and isinstance(x.ctx, (ast.Store, ast.Del))}
                if isinstance(n, (ast.FunctionDef, ast.AsyncFunctionDef, ast.Lambda)):
                    a_ = n.args
                    inner_st |= {x.arg for x in a_.posonlyargs + a_.args + a_.kwonlyargs} | \
                        ({a_.vararg.arg} if a_.vararg else set()) | ({a_.kwarg.arg} if a_.kwarg else set())
                nl = {y for x in ast.walk(n) if isinstance(x, (ast.Nonlocal, ast.Global)) for y in x.names}
                for x in ast.walk(n):
                    if isinstance(x, ast.Name) and (x.id not in inner_st or x.id in nl):
                        captured.add(x.id)
        declared = {x for n in ast.walk(fn) if isinstance(n, (ast.Global, ast.Nonlocal)) for x in n.names}
        params = {a.arg for a in fn.args.posonlyargs + fn.args.args + fn.args.kwonlyargs}
        if fn.args.vararg:
            params.add(fn.args.vararg.arg)
        if fn.args.kwarg:
            params.add(fn.args.kwarg.arg)
        done = False
        for block in _blocks(fn):
            for i, st in enumerate(block):
                if not (isinstance(st, ast.Assign) and len(st.targets) == 1 and isinstance(st.targets[0], ast.Name)):
                    continue
                name = st.targets[0].id
                if name in declared or name in params or name in captured or len(stores.get(name, [])) != 1 or \
                        len(loads.get(name, [])) != 1:
                    continue
                use = loads[name][0]
                if id(use) not in own_ids:
                    continue
                E = st.value
                if any(isinstance(x, (ast.Yield, ast.YieldFrom, ast.Await, ast.NamedExpr)) for x in ast.walk(E)):
                    continue
                if isinstance(E, ast.Starred):
                    continue
                e_names = {x.id for x in ast.walk(E) if isinstance(x, ast.Name)}
                e_reads_state = any(isinstance(x, (ast.Attribute, ast.Subscript, ast.Call)) for x in ast.walk(E))
                # the statement holding the use
                j = None
                for k in range(i + 1, len(block)):
                    cand = block[k]
                    where = [cand] if isinstance(cand, SIMPLE) else _header_exprs(cand)
                    if any(use is x for w in where for x in ast.walk(w)):
                        j = k
                        break
                    if any(use is x for x in ast.walk(cand)):
                        break                      # used deeper inside a compound statement: leave it
                if j is None:
                    continue
                # the use must not sit inside a nested scope of that statement (checked by own_ids) - now the statements between
                ok = True
                for mid in block[i + 1:j]:
                    if not isinstance(mid, (ast.Assign, ast.AnnAssign)):
                        ok = False
                        break
                    tg = mid.targets if isinstance(mid, ast.Assign) else [mid.target]
                    flat = []
                    for t in tg:
                        flat.extend(t.elts if isinstance(t, (ast.Tuple, ast.List)) else [t])
                    if not all(isinstance(t, ast.Name) for t in flat) or any(t.id in e_names for t in flat):
                        ok = False
                        break
                    if e_reads_state and any(isinstance(x, ast.Call) for x in ast.walk(mid)):
                        ok = False
                        break
                if not ok:
                    continue
                # within the using statement: an augmented assignment to a name E reads would see the new value - cannot happen
                # (the target is evaluated after the value), a store to E's names in the same statement is harmless for `=`
                if not _replace(block[j], use, E):
                    continue
                del block[i]
                folded += 1
                done = True
                break
            if done:
                break
        if not done:
            break
    return folded


PURE_CALLS = {"len", "abs", "np.abs", "np.fabs", "fabs", "min", "max", "float", "int", "np.asarray", "np.isfinite", "np.isnan"}


def _call_name(c):
    f = c.func
    parts = []
    while isinstance(f, ast.Attribute):
        parts.append(f.attr)
        f = f.value
    if isinstance(f, ast.Name):
        parts.append(f.id)
        return ".".join(reversed(parts))
    return None


def _order_free(e):
    for x in ast.walk(e):
        if isinstance(x, ast.Call) and _call_name(x) not in PURE_CALLS:
            return False
        if isinstance(x, (ast.Yield, ast.YieldFrom, ast.Await, ast.NamedExpr)):
            return False
    return True


def _ends(block):
    return bool(block) and isinstance(block[-1], (ast.Return, ast.Raise, ast.Continue, ast.Break))


def orient_comparisons(tree):
    """`a > b` -> `b < a`, `a >= b` -> `b <= a` (single comparisons whose operands can be evaluated in either order)"""
    n = 0
    swap = {ast.Gt: ast.Lt, ast.GtE: ast.LtE}
    for x in ast.walk(tree):
        if isinstance(x, ast.Compare) and len(x.ops) == 1 and type(x.ops[0]) in swap and _order_free(x.left) and \
                _order_free(x.comparators[0]):
            x.left, x.comparators[0] = x.comparators[0], x.left
            x.ops[0] = swap[type(x.ops[0])]()
            n += 1
    return n


def normalise_branches(fn):
    """positive tests, merged nested ifs, guard clauses:
         if not c: A else: B            ->  if c: B else: A
         if a: (if b: X)                ->  if a and b: X                 (no else on either)
         if c: A(ends) else: B          ->  if c: A   followed by B       (A ends in return / raise / continue / break)"""
    n = 0
    for _ in range(30):
        changed = False
        for block in _blocks(fn):
            for i, st in enumerate(block):
                if isinstance(st, ast.Return) and isinstance(st.value, ast.IfExp):
                    # return A if c else B   ->   if c: return A ; return B
                    e = st.value
                    block[i:i + 1] = [ast.copy_location(ast.If(test=e.test, body=[ast.copy_location(ast.Return(value=e.body), st)],
                                                               orelse=[]), st),
                                      ast.copy_location(ast.Return(value=e.orelse), st)]
                    changed = True
                    break
                if not isinstance(st, ast.If):
                    continue
                if not st.orelse and isinstance(st.test, ast.UnaryOp) and isinstance(st.test.op, ast.Not) and len(st.body) == 1 and \
                        isinstance(st.body[0], ast.Return) and i + 2 == len(block) and isinstance(block[i + 1], ast.Return):
                    # if not c: return A ; return B   ->   if c: return B ; return A
                    st.test = st.test.operand
                    st.body[0], block[i + 1] = block[i + 1], st.body[0]
                    changed = True
                    break
                if st.orelse and _ends(st.orelse) and not _ends(st.body):
                    # the terminating arm first, as a guard clause; the other arm follows the statement
                    neg = st.test.operand if isinstance(st.test, ast.UnaryOp) and isinstance(st.test.op, ast.Not) else \
                        ast.copy_location(ast.UnaryOp(op=ast.Not(), operand=st.test), st.test)
                    rest = st.body
                    st.test, st.body, st.orelse = neg, st.orelse, []
                    block[i + 1:i + 1] = rest
                    changed = True
                    break
                if st.orelse and not _ends(st.body) and isinstance(st.test, ast.UnaryOp) and isinstance(st.test.op, ast.Not):
                    st.test = st.test.operand
                    st.body, st.orelse = st.orelse, st.body
                    changed = True
                if not st.orelse and len(st.body) == 1 and isinstance(st.body[0], ast.If) and not st.body[0].orelse:
                    inner = st.body[0]
                    a_vals = st.test.values if isinstance(st.test, ast.BoolOp) and isinstance(st.test.op, ast.And) else [st.test]
                    b_vals = inner.test.values if isinstance(inner.test, ast.BoolOp) and isinstance(inner.test.op, ast.And) else [inner.test]
                    st.test = ast.copy_location(ast.BoolOp(op=ast.And(), values=list(a_vals) + list(b_vals)), st.test)
                    st.body = inner.body
                    changed = True
                if st.orelse and _ends(st.body):
                    rest = st.orelse
                    st.orelse = []
                    block[i + 1:i + 1] = rest
                    changed = True
                    break
            if changed:
                n += 1
                break
        if not changed:
            break
    return n


def _is_literal(e, depth=0):
    if isinstance(e, ast.Constant):
        return True
    if isinstance(e, ast.Attribute) and isinstance(e.value, ast.Name) and e.value.id in ("np", "numpy", "math") and \
            e.attr in ("inf", "nan", "pi", "e"):
        return True
    if isinstance(e, ast.UnaryOp) and isinstance(e.op, (ast.USub, ast.UAdd)) and _is_literal(e.operand, depth + 1) and depth < 3:
        return True
    if isinstance(e, ast.BinOp) and isinstance(e.op, (ast.Add, ast.Sub, ast.Mult, ast.Div, ast.Pow)) and depth < 3:
        return _is_literal(e.left, depth + 1) and _is_literal(e.right, depth + 1)
    if isinstance(e, (ast.Tuple, ast.List)) and depth < 3:
        return all(_is_literal(x, depth + 1) for x in e.elts)
    return False


def propagate_module_constants(tree):
    """a module-level name bound exactly once to a literal (number, string, tuple / list of literals, arithmetic on literals) is
    replaced by the literal inside the functions of the module (unless the function binds the name itself).  Moving a literal
    into a named constant, or back, is the same program to every rule."""
    import copy
    binds = {}
    for st in tree.body:
        for t in (st.targets if isinstance(st, ast.Assign) else [st.target] if isinstance(st, (ast.AnnAssign, ast.AugAssign)) else []):
            for x in ast.walk(t):
                if isinstance(x, ast.Name):
                    binds.setdefault(x.id, []).append(st)
        if isinstance(st, (ast.FunctionDef, ast.AsyncFunctionDef, ast.ClassDef)):
            binds.setdefault(st.name, []).append(st)
        if isinstance(st, (ast.Import, ast.ImportFrom)):
            for a in st.names:
                binds.setdefault((a.asname or a.name).split(".")[0], []).append(st)
    consts = {}

    def fold(e):
        """"a" + "b" -> "ab" (constants built from other constants)"""
        class F(ast.NodeTransformer):
            def visit_BinOp(self, b):
                self.generic_visit(b)
                if isinstance(b.op, ast.Add) and isinstance(b.left, ast.Constant) and isinstance(b.right, ast.Constant) and \
                        isinstance(b.left.value, str) and isinstance(b.right.value, str):
                    return ast.copy_location(ast.Constant(value=b.left.value + b.right.value), b)
                return b
        return F().visit(e)
    for _round in range(4):
        grew = False
        for name, sts in binds.items():
            if name in consts or len(sts) != 1 or not isinstance(sts[0], ast.Assign) or len(sts[0].targets) != 1 or \
                    not isinstance(sts[0].targets[0], ast.Name) or name.startswith("__"):
                continue
            v = sts[0].value
            used = {x.id for x in ast.walk(v) if isinstance(x, ast.Name)}
            if used and used <= set(consts):
                # a constant defined from earlier constants: substitute them and fold string concatenations
                v = copy.deepcopy(v)

                class S(ast.NodeTransformer):
                    def visit_Name(self, n_):
                        return ast.copy_location(copy.deepcopy(consts[n_.id]), n_) if n_.id in consts else n_
                v = fold(S().visit(v))
            if _is_literal(v):
                consts[name] = v
                grew = True
        if not grew:
            break
    # names re-bound anywhere below module level through `global`
    for x in ast.walk(tree):
        if isinstance(x, ast.Global):
            for nm in x.names:
                consts.pop(nm, None)
    if not consts:
        return 0
    n = 0
    for fn in [x for x in ast.walk(tree) if isinstance(x, (ast.FunctionDef, ast.AsyncFunctionDef))]:
        local = {x.id for x in ast.walk(fn) if isinstance(x, ast.Name) and isinstance(x.ctx, (ast.Store, ast.Del))}
        a_ = fn.args
        local |= {x.arg for x in a_.posonlyargs + a_.args + a_.kwonlyargs} | ({a_.vararg.arg} if a_.vararg else set()) | \
            ({a_.kwarg.arg} if a_.kwarg else set())
        for node in ast.walk(fn):
            for fld, val in ast.iter_fields(node):
                if isinstance(val, ast.Name) and isinstance(val.ctx, ast.Load) and val.id in consts and val.id not in local:
                    setattr(node, fld, ast.copy_location(copy.deepcopy(consts[val.id]), val))
                    n += 1
                elif isinstance(val, list):
                    for i, v in enumerate(val):
                        if isinstance(v, ast.Name) and isinstance(v.ctx, ast.Load) and v.id in consts and v.id not in local:
                            val[i] = ast.copy_location(copy.deepcopy(consts[v.id]), v)
                            n += 1
    return n


def fold_constants(tree):
    """len(<literal list / tuple>) -> its length;  list(range(<small int>)) -> the literal list"""
    n = 0

    class F(ast.NodeTransformer):
        def visit_Call(self, c):
            nonlocal n
            self.generic_visit(c)
            if isinstance(c.func, ast.Name) and not c.keywords and len(c.args) == 1:
                a = c.args[0]
                if c.func.id == "len" and isinstance(a, (ast.List, ast.Tuple)) and not any(isinstance(x, ast.Starred) for x in a.elts):
                    n += 1
                    return ast.copy_location(ast.Constant(value=len(a.elts)), c)
                if c.func.id in ("list", "tuple") and isinstance(a, ast.Call) and isinstance(a.func, ast.Name) and a.func.id == "range" \
                        and len(a.args) == 1 and not a.keywords and isinstance(a.args[0], ast.Constant) and \
                        isinstance(a.args[0].value, int) and 0 <= a.args[0].value <= 16:
                    n += 1
                    elts = [ast.copy_location(ast.Constant(value=i), c) for i in range(a.args[0].value)]
                    return ast.copy_location((ast.List if c.func.id == "list" else ast.Tuple)(elts=elts, ctx=ast.Load()), c)
            return c
    shadow = {x.id for x in ast.walk(tree) if isinstance(x, ast.Name) and isinstance(x.ctx, ast.Store) and x.id in ("len", "list", "tuple", "range")}
    if not shadow:
        F().visit(tree)
    return n


def desugar_context_managers(tree):
    """`with _cm(a, b): BODY`, where `_cm` is a module-level generator decorated with contextlib.contextmanager whose body is
    `try: yield  except ...: H  [finally: F]`, becomes `try: BODY  except ...: H[params := a, b]  [finally: F]` - the
    "extract the duplicated except branches into a context manager" refactoring undone."""
    import copy
    cms = {}
    for st in tree.body:
        if isinstance(st, ast.FunctionDef) and any((isinstance(d, ast.Attribute) and d.attr == "contextmanager") or
                                                   (isinstance(d, ast.Name) and d.id == "contextmanager") for d in st.decorator_list):
            body = [x for x in st.body if not (isinstance(x, ast.Expr) and isinstance(x.value, ast.Constant))]
            if len(body) == 1 and isinstance(body[0], ast.Try) and len(body[0].body) == 1 and isinstance(body[0].body[0], ast.Expr) \
                    and isinstance(body[0].body[0].value, ast.Yield) and body[0].body[0].value.value is None and \
                    not st.args.vararg and not st.args.kwarg and not body[0].orelse:
                cms[st.name] = (st, body[0])
    if not cms:
        return 0
    n = 0

    class W(ast.NodeTransformer):
        def visit_With(self, w):
            nonlocal n
            self.generic_visit(w)
            if len(w.items) == 1 and w.items[0].optional_vars is None and isinstance(w.items[0].context_expr, ast.Call) and \
                    isinstance(w.items[0].context_expr.func, ast.Name) and w.items[0].context_expr.func.id in cms:
                fn, tr = cms[w.items[0].context_expr.func.id]
                call = w.items[0].context_expr
                params = [a.arg for a in fn.args.args]
                if len(call.args) > len(params) or any(k.arg not in params for k in call.keywords):
                    return w
                binding = dict(zip(params, call.args))
                binding.update({k.arg: k.value for k in call.keywords})
                if set(binding) != set(params):
                    return w

                class S(ast.NodeTransformer):
                    def visit_Name(self, nm):
                        if nm.id in binding and isinstance(nm.ctx, ast.Load):
                            return ast.copy_location(copy.deepcopy(binding[nm.id]), nm)
                        return nm
                new = ast.Try(body=w.body, handlers=[S().visit(copy.deepcopy(h)) for h in tr.handlers], orelse=[],
                              finalbody=[S().visit(copy.deepcopy(x)) for x in tr.finalbody])
                n += 1
                return ast.fix_missing_locations(ast.copy_location(new, w))
            return w
    W().visit(tree)
    return n


NUMPY_METHOD_FORMS = ("argmax", "argmin")


def numpy_function_forms(tree):
    """`<x>.argmax()` / `<x>.argmin()` without arguments  ->  `np.argmax(<x>)` / `np.argmin(<x>)` (the same first-occurrence
    reduction, spelled as a method); `<x>.size` of a one-dimensional carried array stays as it is"""
    n = 0
    for c in [x for x in ast.walk(tree) if isinstance(x, ast.Call)]:
        if isinstance(c.func, ast.Attribute) and c.func.attr in NUMPY_METHOD_FORMS and not c.args and not c.keywords and \
                not (isinstance(c.func.value, ast.Name) and c.func.value.id in ("np", "numpy", "pd")):
            recv = c.func.value
            c.func = ast.Attribute(value=ast.Name(id="np", ctx=ast.Load()), attr=c.func.attr, ctx=ast.Load())
            c.args = [recv]
            n += 1
    if n:
        from .frontend import set_parents
        set_parents(tree)
        ast.fix_missing_locations(tree)
    return n


def canonicalise(tree):
    """canonical form of every function of a module, in place: module-level literal constants propagated, comparisons oriented,
    branches normalised, single-use temporaries folded into their use"""
    n = propagate_module_constants(tree)
    n += desugar_context_managers(tree)
    n += fold_constants(tree)
    n += numpy_function_forms(tree)
    n += orient_comparisons(tree)
    for fn in [x for x in ast.walk(tree) if isinstance(x, (ast.FunctionDef, ast.AsyncFunctionDef))]:
        n += normalise_branches(fn)
        n += fold_temporaries(fn)
    return n
