"""Small abstract domains (design §2.4): affine/offset, order tables, intervals."""
from __future__ import annotations

import ast
import itertools
from fractions import Fraction

from .astutil import dotted


# ------------------------------------------------------------------ affine / offset

class Affine:
    """sum(coef_i * sym_i) + const with Fraction coefficients."""

    def __init__(self, terms=None, const=0):
        self.terms = {k: Fraction(v) for k, v in (terms or {}).items() if v != 0}
        self.const = Fraction(const)

    def __add__(self, o):
        t = dict(self.terms)
        for k, v in o.terms.items():
            t[k] = t.get(k, 0) + v
        return Affine(t, self.const + o.const)

    def __neg__(self):
        return Affine({k: -v for k, v in self.terms.items()}, -self.const)

    def __sub__(self, o):
        return self + (-o)

    def scale(self, c):
        return Affine({k: v * c for k, v in self.terms.items()}, self.const * c)

    def is_const(self):
        return not self.terms

    def __eq__(self, o):
        return isinstance(o, Affine) and self.terms == o.terms and self.const == o.const

    def __repr__(self):
        parts = ["%s*%s" % (v, k) if v != 1 else str(k) for k, v in sorted(self.terms.items())]
        if self.const or not parts:
            parts.append(str(self.const))
        return " + ".join(parts)


def affine_eval(e, atom):
    """Evaluate expression to Affine.  ``atom(expr)`` maps a sub-expression to a
    symbol name / Affine / None; it is asked first for every node."""
    a = atom(e)
    if a is not None:
        return a if isinstance(a, Affine) else Affine({a: 1})
    if isinstance(e, ast.Constant) and isinstance(e.value, (int, float)) and not isinstance(e.value, bool):
        return Affine(const=Fraction(str(e.value)))
    if isinstance(e, ast.BinOp):
        l = affine_eval(e.left, atom)
        r = affine_eval(e.right, atom)
        if l is None or r is None:
            return None
        if isinstance(e.op, ast.Add):
            return l + r
        if isinstance(e.op, ast.Sub):
            return l - r
        if isinstance(e.op, ast.Mult):
            if l.is_const():
                return r.scale(l.const)
            if r.is_const():
                return l.scale(r.const)
            return None
        if isinstance(e.op, (ast.Div, ast.FloorDiv)) and r.is_const() and r.const != 0 and isinstance(e.op, ast.Div):
            return l.scale(1 / r.const)
        return None
    if isinstance(e, ast.UnaryOp) and isinstance(e.op, ast.USub):
        v = affine_eval(e.operand, atom)
        return None if v is None else -v
    if isinstance(e, ast.UnaryOp) and isinstance(e.op, ast.UAdd):
        return affine_eval(e.operand, atom)
    return None


# ------------------------------------------------------------------ order tables

def weak_orderings(n):
    """All weak orderings of n items as rank tuples (13 for 3, 75 for 4, 541 for 5)."""
    out = set()
    for k in range(1, n + 1):
        for ranks in itertools.product(range(k), repeat=n):
            if set(ranks) == set(range(k)):
                out.add(ranks)
    return sorted(out)


def rank_assignments(names):
    for ranks in weak_orderings(len(names)):
        yield dict(zip(names, ranks))


# ------------------------------------------------------------------ intervals

class Interval:
    def __init__(self, lo, hi):
        self.lo, self.hi = lo, hi

    def __repr__(self):
        return "[%s, %s]" % (self.lo, self.hi)

    def __eq__(self, o):
        return isinstance(o, Interval) and (self.lo, self.hi) == (o.lo, o.hi)


NEG_INF, POS_INF = float("-inf"), float("inf")
TOP = Interval(NEG_INF, POS_INF)


def interval_eval(e, env, fold):
    """Interval of expression with min/max/clip semantics; ``env`` maps names to
    Interval, ``fold(expr)`` folds constants (returns float or None)."""
    c = fold(e)
    if c is not None:
        return Interval(c, c)
    if isinstance(e, ast.Name):
        return env.get(e.id, TOP)
    if isinstance(e, ast.Call):
        fn = dotted(e.func)
        args = [interval_eval(a, env, fold) for a in e.args]
        if fn in ("min", "np.minimum", "numpy.minimum", "np.fmin") and len(args) >= 2:
            return Interval(min(a.lo for a in args), min(a.hi for a in args))
        if fn in ("max", "np.maximum", "numpy.maximum", "np.fmax") and len(args) >= 2:
            return Interval(max(a.lo for a in args), max(a.hi for a in args))
        if fn in ("np.clip", "numpy.clip") and len(args) == 3:
            lo, hi = args[1], args[2]
            return Interval(max(min(args[0].lo, hi.lo), lo.lo), min(max(args[0].hi, lo.hi), hi.hi))
    return TOP
