"""Absolute tolerances on data (shared by several properties).

A quantity that carries a unit - a load, a range, a class width, a cycle count, a coordinate difference - may be compared
with other quantities of the same kind, with zero and with infinity.  Comparing it with a small fixed number, rounding it to
fixed digits, testing it with np.isclose (whose default atol is 1e-8) or adding a small fixed number to it makes the result
depend on the unit the data happen to be given in: the same histogram in strain instead of microstrain, a spectrum normalised
to relative frequencies, a mesh in metres instead of millimetres.  `absolute_tolerances(fn)` returns the constructs of one
function that do so; counts (len, shape, nunique, ndim, size) are not quantities."""
from __future__ import annotations

import ast

from .astutil import call_name, const_value, inline_single_defs
from .report import norm_text

CLOSE_FUNCS = ("np.isclose", "np.allclose", "numpy.isclose", "numpy.allclose", "math.isclose")
ROUND_FUNCS = ("np.round", "np.around", "np.round_", "round", "numpy.round")


def _count_like(e):
    if isinstance(e, ast.Call) and call_name(e) in ("len", "int", "np.ndim", "np.size"):
        return True
    if isinstance(e, ast.Call) and isinstance(e.func, ast.Attribute) and e.func.attr in ("count", "nunique"):
        return True
    if isinstance(e, ast.Subscript) and isinstance(e.value, ast.Attribute) and e.value.attr == "shape":
        return True
    if isinstance(e, ast.Attribute) and e.attr in ("size", "ndim", "nlevels"):
        return True
    return False


def _tiny(c):
    return isinstance(c, float) and c != 0.0 and abs(c) <= 1e-2


def absolute_tolerances(fn_node, allow_guard=None):
    """[(node, kind, text)] with kind in {'close', 'round', 'threshold', 'offset'}; allow_guard(node) -> True exempts a construct"""
    out = []
    for n in ast.walk(fn_node):
        if isinstance(n, ast.Call):
            fn = call_name(n) or ""
            if fn in CLOSE_FUNCS and n.args and not all(const_value(a) is not None for a in n.args[:2]):
                # an explicit, purely relative tolerance (atol=0) is scale free
                atol = next((k.value for k in n.keywords if k.arg in ("atol", "abs_tol")), None)
                if atol is not None and const_value(atol) in (0, 0.0):
                    continue
                out.append((n, "close", norm_text(n)))
            elif fn in ROUND_FUNCS and n.args and const_value(n.args[0]) is None and not _count_like(n.args[0]):
                nd = n.args[1] if len(n.args) > 1 else next((k.value for k in n.keywords if k.arg in ("decimals", "ndigits")), None)
                if nd is not None:
                    out.append((n, "round", norm_text(n)))
        elif isinstance(n, ast.Compare) and len(n.ops) == 1 and isinstance(n.ops[0], (ast.Lt, ast.LtE, ast.Gt, ast.GtE)):
            for lit, other in ((n.left, n.comparators[0]), (n.comparators[0], n.left)):
                c = const_value(lit)
                if isinstance(lit, ast.UnaryOp) and isinstance(lit.op, ast.USub):
                    c0 = const_value(lit.operand)
                    c = -c0 if isinstance(c0, (int, float)) else None
                if _tiny(c):
                    o2 = inline_single_defs(fn_node, other) if isinstance(other, ast.Name) else other
                    if not _count_like(o2):
                        out.append((n, "threshold", norm_text(n)))
        elif isinstance(n, ast.BinOp) and isinstance(n.op, (ast.Add, ast.Sub)):
            for lit, other in ((n.left, n.right), (n.right, n.left)):
                t = lit
                # c  or  c * np.eye(k) / np.ones(...) / np.identity(k)
                if isinstance(t, ast.BinOp) and isinstance(t.op, ast.Mult):
                    cands = [t.left, t.right]
                    lits = [x for x in cands if _tiny(const_value(x))]
                    fills = [x for x in cands if isinstance(x, ast.Call) and call_name(x) in ("np.eye", "np.identity", "np.ones", "np.ones_like")]
                    if lits and fills:
                        out.append((n, "offset", norm_text(n)))
                        break
                elif _tiny(const_value(t)) and const_value(other) is None:
                    out.append((n, "offset", norm_text(n)))
                    break
    if allow_guard is not None:
        out = [x for x in out if not allow_guard(x[0])]
    seen, res = set(), []
    for x in out:
        if id(x[0]) not in seen:
            seen.add(id(x[0]))
            res.append(x)
    return res


EXAMPLE = ("def f(h, cycles, diff, a, b):\n"
           "    if a.overlap(b) < 1e-6:\n        return 0.0\n"
           "    cycles[np.isclose(cycles, 0.0)] = 0\n"
           "    m = diff.T @ diff + 1e-10 * np.eye(3)\n"
           "    e = np.round(h, 3)\n"
           "    if len(h) < 2 or a.left < b.left or np.isclose(a.left, b.left, rtol=1e-9, atol=0):\n        return 1.0\n"
           "    return m, e\n")


def selfcheck():
    ex = ast.parse(EXAMPLE).body[0]
    kinds = sorted(k for _, k, _ in absolute_tolerances(ex))
    return kinds == ["close", "offset", "round", "threshold"]


def run_rule(ctx, prog, modules, what_for, skip_funcs=()):
    """expected-zero rule over the functions of `modules`: every absolute tolerance on data is a violation"""
    from .frontend import AnalysisError
    if not selfcheck():
        raise AnalysisError("absolute-tolerance rule: built-in example not matched")
    n = 0
    for key, fi in sorted(prog.functions.items()):
        if fi.module.name not in modules or fi.parent is not None or fi.name in skip_funcs:
            continue
        n += 1
        for node, kind, text in absolute_tolerances(fi.node):
            st = node
            ctx.violated(fi, st, "%s: %s %s puts an absolute tolerance on %s; the decision / value changes when the data are "
                         "given in another unit or scale (a histogram in strain instead of microstrain, counts normalised to "
                         "relative frequencies, a mesh in metres)" %
                         (fi.name, {"close": "the closeness test", "round": "rounding to fixed digits",
                                    "threshold": "the comparison with a fixed small number",
                                    "offset": "the fixed additive constant"}[kind], text[:80], what_for),
                         text="absolute tolerance %s %s" % (fi.name, text[:60]))
    if n < 3:
        raise AnalysisError("absolute-tolerance rule: fewer than 3 functions scanned in %s" % (modules,))
    ctx.holds(modules[0], None, "%d functions of %d modules: no absolute tolerance on %s" % (n, len(modules), what_for))
