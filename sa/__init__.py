"""Static analysis of boschresearch/pylife (see /verif/DESIGN.md).

Nothing in this package imports pylife or executes any of its code: every
check reads /repo's working-tree *source*, builds syntax trees / CFGs /
def-use facts / algebraic normal forms and decides a rule on them.
"""

REPO = "/repo"
VERIF = "/verif"
