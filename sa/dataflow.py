"""Def-use helpers on top of the CFG (design §2.3).

The work-horse is ``inline_env``: for a statement S of a function it returns the
closed form of every local visible at S, obtained by walking the assignments
that *dominate* S in CFG order and substituting earlier definitions into later
ones (an SSA-style value numbering along the dominator chain).  It fails closed
(AnalysisError) when a definition that does not dominate S can also reach S,
because then the value at S is a phi of several definitions the rule would have
to reason about explicitly.
"""
from __future__ import annotations

import ast
import copy

from .astutil import clone, assigned_targets, names_in, subst_names, tuple_assign_pairs
from .cfg import CFG
from .frontend import AnalysisError


def cfg_order(cfg: CFG):
    """Reverse post-order numbering of reachable nodes."""
    seen, order = set(), []

    def dfs(n):
        stack = [(n, iter(cfg.succ[n]))]
        seen.add(n)
        while stack:
            node, it = stack[-1]
            for d, _ in it:
                if d not in seen:
                    seen.add(d)
                    stack.append((d, iter(cfg.succ[d])))
                    break
            else:
                order.append(node)
                stack.pop()
    dfs(cfg.entry)
    order.reverse()
    return {n: i for i, n in enumerate(order)}


def defs_of(stmt):
    """Names (plain locals) defined by a statement."""
    out = set()
    for t in assigned_targets(stmt):
        if isinstance(t, ast.Name):
            out.add(t.id)
    return out


def reaching_names(cfg: CFG, target_node):
    """name -> set of cfg nodes whose definition of name may reach target_node."""
    # classic reaching definitions, restricted to plain names
    gen = {}
    for n in cfg.nodes():
        s = cfg.stmt[n]
        if s is not None and cfg.kind[n] in ("stmt", "loop"):
            d = defs_of(s)
            if d:
                gen[n] = d
    IN = {n: {} for n in cfg.nodes()}
    OUT = {n: {} for n in cfg.nodes()}
    changed = True
    while changed:
        changed = False
        for n in cfg.nodes():
            new_in = {}
            for p, _ in cfg.pred[n]:
                for name, ds in OUT[p].items():
                    new_in.setdefault(name, set()).update(ds)
            new_out = {k: set(v) for k, v in new_in.items()}
            for name in gen.get(n, ()):
                new_out[name] = {n}
            if new_in != IN[n] or new_out != OUT[n]:
                IN[n], OUT[n] = new_in, new_out
                changed = True
    return IN[target_node]


def inline_env(cfg: CFG, stmt, params=(), strict_names=None):
    """Closed forms of locals at ``stmt``.

    Returns dict name -> ast expression over parameters, ``self`` attributes and
    calls.  ``strict_names``: if given, only these names are checked for
    non-dominating reaching definitions (others are left unresolved when
    ambiguous)."""
    node = cfg.node(stmt)
    if node is None:
        raise AnalysisError("statement not in CFG")
    dom = cfg.dominators().get(node)
    if dom is None:
        raise AnalysisError("statement unreachable")
    order = cfg_order(cfg)
    chain = sorted((n for n in dom if n != node), key=lambda n: order.get(n, 1 << 30))
    reach = reaching_names(cfg, node)
    env = {}
    ambiguous = set()
    for name, defs in reach.items():
        if not defs <= dom:
            ambiguous.add(name)
    for n in chain:
        s = cfg.stmt[n]
        if s is not None and cfg.kind[n] == "test" and isinstance(s, ast.If) and _simple_diamond(s) \
                and not _inside(stmt, s):
            # both arms are straight-line assignments: merge them as conditional expressions (phi)
            test = subst_names(s.test, env)
            arms = []
            for blk in (s.body, s.orelse):
                e2 = dict(env)
                for st in blk:
                    if isinstance(st, ast.Assign):
                        for t, v in tuple_assign_pairs(st):
                            if isinstance(t, ast.Name):
                                e2[t.id] = subst_names(v, e2)
                    elif isinstance(st, ast.AugAssign) and isinstance(st.target, ast.Name):
                        cur = e2.get(st.target.id, ast.Name(id=st.target.id, ctx=ast.Load()))
                        e2[st.target.id] = ast.BinOp(left=clone(cur), op=st.op, right=subst_names(st.value, e2))
                arms.append(e2)
            changed = {k for a in arms for k in a if a.get(k) is not env.get(k)}
            for k in changed:
                a = arms[0].get(k, ast.Name(id=k, ctx=ast.Load()))
                b = arms[1].get(k, ast.Name(id=k, ctx=ast.Load()))
                env[k] = ast.IfExp(test=clone(test), body=a, orelse=b)
                ambiguous.discard(k)
            continue
        if s is None or cfg.kind[n] not in ("stmt",):
            continue
        if isinstance(s, ast.Assign):
            for t, v in tuple_assign_pairs(s):
                if isinstance(t, ast.Name):
                    env[t.id] = subst_names(v, env)
        elif isinstance(s, ast.AugAssign) and isinstance(s.target, ast.Name):
            cur = env.get(s.target.id, ast.Name(id=s.target.id, ctx=ast.Load()))
            env[s.target.id] = ast.BinOp(left=clone(cur), op=s.op, right=subst_names(s.value, env))
    for a in ambiguous:
        env.pop(a, None)
    env["__ambiguous__"] = ambiguous
    return env


def _simple_diamond(ifstmt):
    for blk in (ifstmt.body, ifstmt.orelse):
        for st in blk:
            if isinstance(st, ast.Pass):
                continue
            if not isinstance(st, (ast.Assign, ast.AugAssign)):
                return False
            for t in assigned_targets(st):
                if not isinstance(t, ast.Name):
                    return False
    return True


def _inside(stmt, ifstmt):
    for blk in (ifstmt.body, ifstmt.orelse):
        for st in blk:
            for x in ast.walk(st):
                if x is stmt:
                    return True
    return False


def resolve_at(cfg, stmt, expr):
    env = inline_env(cfg, stmt)
    amb = env.pop("__ambiguous__")
    used = names_in(expr)
    r = subst_names(expr, env)
    return r, (names_in(r) & amb)
