"""A small abstract interpreter for straight-line numeric Python (design §11.1, added after the behaviour-preserving round).

The first generation of rules matched the *shape* of a function (a particular local, a particular statement).  Refactorings
that keep the behaviour - temporaries introduced or removed, tuple unpacking, helper functions extracted, if/else turned
into early returns - broke them.  This module evaluates a function over an abstract domain instead, so a rule states what
the *value* must be and the code may compute it any way the interpreter understands:

* statements: assignment (names, tuple targets, `x[k] = v`, `x[mask] = v`), augmented assignment, if/elif/else (both arms,
  joined), early returns (joined), assert / docstrings / pass (ignored), with (body);
* expressions: names, constants, tuples/lists (kept element-wise as `Seq`), generator expressions and list comprehensions
  over a literal tuple of expressions (expanded element-wise), subscripts with constant index into a `Seq`, conditional
  expressions (joined), calls of functions of the analysed program (evaluated in the callee, depth-limited) and everything
  else through the domain.

A domain implements: const, param, binop, unaryop, compare, boolop, call, method, attribute, subscript, store, join, unknown.
Anything the domain cannot interpret is `domain.unknown()`; rules must treat that as *undecided*, never as a violation.
"""
from __future__ import annotations

import ast

from .astutil import call_name, const_value


class Seq(tuple):
    """element-wise known tuple / list / stacked array literal"""
    __slots__ = ()


class Domain:
    def unknown(self):
        return None

    def const(self, c):
        return self.unknown()

    def binop(self, op, a, b, node):
        return self.unknown()

    def unaryop(self, op, a, node):
        return self.unknown()

    def compare(self, node, vals):
        return self.unknown()

    def boolop(self, node, vals):
        return self.unknown()

    def call(self, fn, args, kwargs, node, interp, env):
        return NotImplemented

    def method(self, recv, name, args, kwargs, node):
        return self.unknown()

    def attribute(self, recv, attr, node):
        return self.unknown()

    def subscript(self, recv, index, node):
        return self.unknown()

    def store(self, old, index, value, node):
        """value of a container after `container[index] = value`"""
        return self.join(old, value)

    def join(self, a, b):
        return a if a == b else self.unknown()

    def self_attr(self, attr, node):
        return self.unknown()

    def truth(self, value):
        """True / False when the domain knows the outcome of a test, else None (both arms are evaluated and joined)"""
        return None


RAISED = ("c", "@raise")


class Interp:
    def __init__(self, prog, domain, max_depth=5, follow=None, single_exit=False, raise_leaf=False):
        self.raise_leaf = raise_leaf      # with single_exit: a path that raises yields the value RAISED instead of vanishing
        self.single_exit = single_exit    # early returns become else-branches: returned values keep their path conditions
        self.prog = prog
        self.d = domain
        self.max_depth = max_depth
        self.follow = follow              # callable(callee FuncInfo) -> bool: evaluate the callee (default: same module)
        self._stack = []

    # ------------------------------------------------------------------ functions
    _callee_state = None
    effects = ()

    def run(self, fi, args=None, kwargs=None, depth=0, state=None):
        """abstract value returned by `fi` for the given argument values (list aligned with the parameters, `self` excluded)"""
        params = [p for p in fi.params if p not in ("self", "cls")]
        env = {}
        args = list(args or [])
        for i, p in enumerate(params):
            env[p] = args[i] if i < len(args) else self.d.unknown()
        for k, v in (kwargs or {}).items():
            if k in params:
                env[k] = v
        va = getattr(getattr(fi.node, "args", None), "vararg", None)
        if va is not None:
            named = [p for p in params if p != va.arg]
            for i, p in enumerate(named):
                env[p] = args[i] if i < len(args) else self.d.unknown()
            env[va.arg] = Seq(args[len(named):])         # *components: the remaining positional arguments, element-wise known
        env["@fi"] = fi
        env["@depth"] = depth
        rets = []
        top = depth == 0
        if top:
            self.effects = []
            self.exits = []                   # (returned value, {"self.<attr>": value written}) for every return of the top function
        env["@top"] = top
        if (state or {}):
            env.update({"self." + k: v for k, v in state.items()})
        body = fi.node.body
        if self.single_exit:
            from .inline import _single_exit, _returns_outside_nested
            rets_ = _returns_outside_nested(fi.node)
            early = [r_ for r_ in rets_ if not (body and r_ is body[-1])]
            if early or (self.raise_leaf and any(isinstance(x, ast.Raise) for x in ast.walk(fi.node))):
                conv = _single_exit(list(body), lambda e: [ast.Assign(targets=[ast.Name(id="__ret__", ctx=ast.Store())],
                                                                       value=e if e is not None else ast.Constant(value=None))],
                                    (lambda st: [ast.Assign(targets=[ast.Name(id="__ret__", ctx=ast.Store())],
                                                            value=ast.Constant(value="@raise"))]) if self.raise_leaf else None)
                if conv is not None:
                    body = conv
        done = self._block(body, env, rets)
        if "__ret__" in env and not rets:
            rets.append(env["__ret__"])
            if top:
                self.exits.append((env["__ret__"], {k: v for k, v in env.items() if k.startswith("self.")}))
            done = True
        if top and not done:
            self.exits.append((None, {k: v for k, v in env.items() if k.startswith("self.")}))
        if depth > 0 and self._callee_state is not None:
            self._callee_state.update({k: v for k, v in env.items() if k.startswith("self.")})
        if not rets:
            return self.d.unknown()
        out = rets[0]
        for r in rets[1:]:
            out = self.join(out, r)
        return out

    def _module_constant(self, fi, name):
        """defining expression of a module-level name bound exactly once to a literal / arithmetic on literals"""
        if fi is None:
            return None
        cache = self.__dict__.setdefault("_mc", {})
        key = fi.module.name
        if key not in cache:
            seen, vals = {}, {}
            for st in fi.module.tree.body:
                if isinstance(st, ast.Assign) and len(st.targets) == 1 and isinstance(st.targets[0], ast.Name):
                    seen[st.targets[0].id] = seen.get(st.targets[0].id, 0) + 1
                    vals[st.targets[0].id] = st.value
            ok = {}
            for k, v in vals.items():
                if seen[k] == 1 and all(isinstance(n, (ast.Constant, ast.BinOp, ast.UnaryOp, ast.operator, ast.unaryop, ast.Name,
                                                       ast.Load, ast.Tuple)) for n in ast.walk(v)):
                    ok[k] = v
            cache[key] = ok
        return cache[key].get(name)

    def join(self, a, b):
        if isinstance(a, Seq) and isinstance(b, Seq) and len(a) == len(b):
            return Seq(self.join(x, y) for x, y in zip(a, b))
        if isinstance(a, Seq) or isinstance(b, Seq):
            return self.d.unknown()
        return self.d.join(a, b)

    def merge(self, cond, a, b):
        """value of a variable after `if cond: (a) else: (b)`; domains that keep the condition implement `merge`"""
        if a is b or (not isinstance(a, Seq) and not isinstance(b, Seq) and a == b):
            return a
        if isinstance(a, Seq) and isinstance(b, Seq) and len(a) == len(b):
            return Seq(self.merge(cond, x, y) for x, y in zip(a, b))
        if hasattr(self.d, "merge") and not isinstance(a, Seq) and not isinstance(b, Seq):
            return self.d.merge(cond, a, b)
        return self.join(a, b)

    def _block(self, body, env, rets):
        """returns True when every path through the block returned"""
        for st in body:
            if isinstance(st, ast.Return):
                v = self.ev(st.value, env) if st.value is not None else self.d.unknown()
                rets.append(v)
                if env.get("@top"):
                    self.exits.append((v, {k: x for k, x in env.items() if k.startswith("self.")}))
                return True
            if isinstance(st, ast.Assign):
                v = self.ev(st.value, env)
                for t in st.targets:
                    self._bind(t, v, env, st)
            elif isinstance(st, ast.AnnAssign) and st.value is not None:
                self._bind(st.target, self.ev(st.value, env), env, st)
            elif isinstance(st, ast.AugAssign):
                cur = self.ev(st.target, env)
                v = self._binop(st.op, cur, self.ev(st.value, env), st)
                self._bind(st.target, v, env, st)
            elif isinstance(st, ast.If):
                known = self.d.truth(self.ev(st.test, env))
                if known is not None:
                    if self._block(st.body if known else st.orelse, env, rets):
                        return True
                    continue
                e1, e2 = dict(env), dict(env)
                cond = self.ev(st.test, env)
                r1 = self._block(st.body, e1, rets)
                r2 = self._block(st.orelse, e2, rets)
                if r1 and r2:
                    return True
                if r1:
                    env.clear()
                    env.update(e2)
                elif r2:
                    env.clear()
                    env.update(e1)
                else:
                    for k in set(e1) | set(e2):
                        if k.startswith("@"):
                            continue
                        if k in e1 and k in e2:
                            env[k] = self.merge(cond, e1[k], e2[k])
                        elif k.startswith("self.") and self.d.self_attr(k[5:], st) is not None:
                            # an attribute written on one arm only keeps its previous value on the other
                            old_ = self.d.self_attr(k[5:], st)
                            env[k] = self.merge(cond, e1.get(k, old_), e2.get(k, old_))
                        else:
                            env[k] = self.d.unknown()
            elif isinstance(st, (ast.With,)):
                if self._block(st.body, env, rets):
                    return True
            elif isinstance(st, (ast.For, ast.While, ast.Try)):
                for n in ast.walk(st):
                    if isinstance(n, ast.Name) and isinstance(n.ctx, ast.Store):
                        env[n.id] = self.d.unknown()
                    if isinstance(n, ast.Return):
                        rets.append(self.d.unknown())
            elif isinstance(st, ast.Expr):
                v = self.ev(st.value, env)
                if isinstance(st.value, ast.Call):
                    self.effects.append(v)            # calls made for their effect, in execution order (callees included)
            # assert / pass / raise / nested defs: no effect on values
            elif isinstance(st, ast.Raise):
                return True
        return False

    def _bind(self, t, v, env, st):
        if isinstance(t, ast.Name):
            env[t.id] = v
        elif isinstance(t, ast.Attribute) and isinstance(t.value, ast.Name) and t.value.id == "self":
            env["self." + t.attr] = v
        elif isinstance(t, (ast.Tuple, ast.List)):
            for i, e in enumerate(t.elts):
                if isinstance(v, Seq) and len(v) == len(t.elts):
                    self._bind(e, v[i], env, st)
                else:
                    self._bind(e, self.d.subscript(v, i, st) if v is not None else self.d.unknown(), env, st)
        elif isinstance(t, ast.Subscript) and isinstance(t.value, ast.Name):
            old = env.get(t.value.id, self.d.unknown())
            idx = const_value(t.slice)
            if isinstance(old, Seq) and isinstance(idx, int) and -len(old) <= idx < len(old):
                lst = list(old)
                lst[idx] = v
                env[t.value.id] = Seq(lst)
            else:
                env[t.value.id] = self.d.store(old, self.ev(t.slice, env) if not isinstance(t.slice, ast.Slice) else None, v, st)

    # ------------------------------------------------------------------ expressions
    def ev(self, e, env):
        d = self.d
        if isinstance(e, ast.Constant):
            return d.const(e.value)
        if isinstance(e, ast.Name):
            if e.id in env:
                return env[e.id]
            mc = self._module_constant(env.get("@fi"), e.id)
            if mc is not None:
                return self.ev(mc, {"@fi": env.get("@fi"), "@depth": env.get("@depth", 0)})
            if hasattr(d, "global_name"):
                return d.global_name(e.id)
            return d.unknown()
        if isinstance(e, (ast.Tuple, ast.List)):
            return Seq(self.ev(x, env) for x in e.elts)
        if isinstance(e, (ast.GeneratorExp, ast.ListComp)):
            return self._comprehension(e, env)
        if isinstance(e, ast.UnaryOp):
            return d.unaryop(e.op, self.ev(e.operand, env), e)
        if isinstance(e, ast.BinOp):
            return self._binop(e.op, self.ev(e.left, env), self.ev(e.right, env), e)
        if isinstance(e, ast.Compare):
            return d.compare(e, [self.ev(e.left, env)] + [self.ev(c, env) for c in e.comparators])
        if isinstance(e, ast.BoolOp):
            return d.boolop(e, [self.ev(v, env) for v in e.values])
        if isinstance(e, ast.IfExp):
            known = d.truth(self.ev(e.test, env))
            if known is not None:
                return self.ev(e.body if known else e.orelse, env)
            return self.merge(self.ev(e.test, env), self.ev(e.body, env), self.ev(e.orelse, env))
        if isinstance(e, ast.Subscript):
            recv = self.ev(e.value, env)
            idx = const_value(e.slice)
            if isinstance(recv, Seq) and isinstance(idx, int) and -len(recv) <= idx < len(recv):
                return recv[idx]
            if idx is None and isinstance(e.slice, ast.Slice):
                sl = e.slice
                idx = ("slice",) + tuple(self.ev(x, env) if x is not None else None for x in (sl.lower, sl.upper, sl.step))
            elif idx is None:
                idx = self.ev(e.slice, env)
            return d.subscript(recv, idx, e)
        if isinstance(e, ast.Attribute):
            if isinstance(e.value, ast.Name) and e.value.id == "self":
                if "self." + e.attr in env:
                    return env["self." + e.attr]
                return d.self_attr(e.attr, e)
            recv = self.ev(e.value, env)
            if e.attr == "T" and isinstance(recv, Seq):
                return recv            # transposition of an element-wise known stack keeps the elements (rules look at elements)
            return d.attribute(recv, e.attr, e)
        if isinstance(e, ast.Call):
            return self._call(e, env)
        return d.unknown()

    def _binop(self, op, a, b, node):
        if isinstance(a, Seq) or isinstance(b, Seq):
            if isinstance(a, Seq) and isinstance(b, Seq) and len(a) == len(b):
                return Seq(self._binop(op, x, y, node) for x, y in zip(a, b))
            if isinstance(a, Seq) and not isinstance(b, Seq):
                return Seq(self._binop(op, x, b, node) for x in a)
            if isinstance(b, Seq) and not isinstance(a, Seq):
                return Seq(self._binop(op, a, y, node) for y in b)
            return self.d.unknown()
        return self.d.binop(op, a, b, node)

    def _comprehension(self, e, env):
        if len(e.generators) != 1 or e.generators[0].ifs:
            return self.d.unknown()
        g = e.generators[0]
        src = g.iter
        items = None
        if isinstance(src, (ast.Tuple, ast.List)):
            items = [self.ev(x, env) for x in src.elts]
        else:
            v = self.ev(src, env)
            if isinstance(v, Seq):
                items = list(v)
        if items is None:
            return self.d.unknown()
        out = []
        for it in items:
            e2 = dict(env)
            self._bind(g.target, it, e2, e)
            out.append(self.ev(e.elt, e2))
        return Seq(out)

    def _call(self, e, env):
        d = self.d
        fn = call_name(e) or ""
        args = []
        for a in e.args:
            if isinstance(a, ast.Starred):
                v = self.ev(a.value, env)
                if isinstance(v, Seq):
                    args.extend(v)
                else:
                    return d.unknown()
            else:
                args.append(self.ev(a, env))
        kwargs = {k.arg: self.ev(k.value, env) for k in e.keywords if k.arg}
        if fn in ("tuple", "list") and len(args) == 1 and isinstance(args[0], Seq):
            return args[0]
        r = d.call(fn, args, kwargs, e, self, env)
        if r is not NotImplemented:
            return r
        # functions / methods of the analysed program
        fi = env.get("@fi")
        depth = env.get("@depth", 0)
        if fi is not None and depth < self.max_depth:
            for key in self.prog.resolve_call(fi, e):
                callee = self.prog.functions.get(key)
                if callee is None or callee.key in self._stack:
                    continue
                if callee.name == "__init__":
                    break                   # constructing an object: kept as a call term, the constructor is not interpreted
                if self.follow is not None and not self.follow(callee):
                    continue
                if self.follow is None and callee.module.name != fi.module.name:
                    continue
                self._stack.append(callee.key)
                own = isinstance(e.func, ast.Attribute) and isinstance(e.func.value, ast.Name) and e.func.value.id == "self"
                saved = self._callee_state
                self._callee_state = {} if own else None
                try:
                    st_in = {k[5:]: v for k, v in env.items() if k.startswith("self.")} if own else None
                    r = self.run(callee, args, kwargs, depth + 1, state=st_in)
                    if own:
                        env.update(self._callee_state)
                    return r
                finally:
                    self._callee_state = saved
                    self._stack.pop()
        root = e.func
        while isinstance(root, ast.Attribute):
            root = root.value
        module_function = isinstance(root, ast.Name) and root.id not in env and root.id not in ("self", "cls")
        if isinstance(e.func, ast.Attribute) and not module_function:
            recv = self.ev(e.func.value, env)
            return d.method(recv, e.func.attr, args, kwargs, e)
        if hasattr(d, "call_default"):
            return d.call_default(fn, args, kwargs, e)
        return d.unknown()


# ----------------------------------------------------------------------------------------------------------------------
# A generic symbolic-term domain: every value is a canonical nested tuple.  Wrappers that do not change the value
# (np.asarray, .copy(), np.full_like(shape, v), float casts ...) are stripped, comparisons and commutative operations are
# put into a canonical order, masked stores become ("where", mask, new, old).  Rules match on the term, so temporaries,
# renames, helper functions and if/else restructurings of the analysed code do not matter.

IDENTITY_FUNCS = {"np.asarray", "np.array", "np.asanyarray", "np.atleast_1d", "np.double", "np.float64", "float", "np.copy",
                  "np.ascontiguousarray", "np.squeeze", "pd.Series", "np.ravel"}
IDENTITY_METHODS = {"copy", "to_numpy", "astype", "ravel", "flatten", "squeeze", "to_series", "__array__"}
IDENTITY_ATTRS = {"values", "array"}
CMP_NAMES = {ast.Lt: "lt", ast.LtE: "le", ast.Eq: "eq", ast.NotEq: "ne", ast.Is: "is", ast.IsNot: "isnot", ast.In: "in",
             ast.NotIn: "notin"}
OP_NAMES = {ast.Add: "+", ast.Sub: "-", ast.Mult: "*", ast.Div: "/", ast.Pow: "**", ast.FloorDiv: "//", ast.Mod: "%",
            ast.BitAnd: "&", ast.BitOr: "|", ast.BitXor: "^", ast.MatMult: "@"}


class TermDomain(Domain):
    labels_as_attrs = False

    def __init__(self, identity_funcs=(), identity_methods=()):
        self.idf = IDENTITY_FUNCS | set(identity_funcs)
        self.idm = IDENTITY_METHODS | set(identity_methods)

    def unknown(self):
        return ("?",)

    def const(self, c):
        return ("c", c)

    def join(self, a, b):
        if a == b:
            return a
        alts = set()
        for x in (a, b):
            if isinstance(x, tuple) and x and x[0] == "phi":
                alts |= set(x[1])
            else:
                alts.add(x)
        return ("phi", tuple(sorted(alts, key=repr)))

    def merge(self, cond, a, b):
        if a == b:
            return a
        t, f = ("c", True), ("c", False)
        if (a, b) == (t, f):
            return cond
        if (a, b) == (f, t):
            return self.negate(cond)
        if isinstance(cond, tuple) and len(cond) == 3 and cond[0] == "u" and cond[1] == "not":
            cond, a, b = cond[2], b, a
        a, b = assume(a, cond, True), assume(b, cond, False)
        return a if a == b else ("ite", cond, a, b)

    def negate(self, c):
        if isinstance(c, tuple) and len(c) == 4 and c[0] == "cmp":
            inv = {"in": "notin", "notin": "in", "eq": "ne", "ne": "eq", "is": "isnot", "isnot": "is"}
            if c[1] in inv:
                return ("cmp", inv[c[1]], c[2], c[3])
            if c[1] == "lt":
                return ("cmp", "le", c[3], c[2])       # not (a < b)  ==  b <= a
            if c[1] == "le":
                return ("cmp", "lt", c[3], c[2])
        if isinstance(c, tuple) and len(c) == 3 and c[0] == "u" and c[1] == "not":
            return c[2]
        return ("u", "not", c)


    def binop(self, op, a, b, node):
        name = OP_NAMES.get(type(op), type(op).__name__)
        if name in ("+", "*", "&", "|") and repr(b) < repr(a):
            a, b = b, a
        return ("op", name, a, b)

    def unaryop(self, op, a, node):
        if isinstance(op, ast.USub) and isinstance(a, tuple) and a[0] == "c" and isinstance(a[1], (int, float)):
            return ("c", -a[1])
        if isinstance(op, ast.UAdd):
            return a
        if isinstance(op, ast.Not):
            return self.negate(a)
        return ("u", type(op).__name__.lower(), a)

    def compare(self, node, vals):
        if len(vals) != 2:
            return ("cmpchain", tuple(type(o).__name__ for o in node.ops), tuple(vals))
        a, b = vals
        op = type(node.ops[0])
        if op is ast.Gt:
            return self._emptiness(("cmp", "lt", b, a))
        if op is ast.GtE:
            return self._emptiness(("cmp", "le", b, a))
        name = CMP_NAMES.get(op, op.__name__)
        if name in ("eq", "ne") and repr(b) < repr(a):
            a, b = b, a
        return self._emptiness(("cmp", name, a, b))

    @staticmethod
    def _size_of(z):
        if isinstance(z, tuple) and len(z) == 3 and z[0] == "attr" and z[2] == "size":
            return z[1]
        if isinstance(z, tuple) and len(z) == 4 and z[0] == "call" and z[1] == "len" and len(z[2]) == 1:
            return z[2][0]
        return None

    def _emptiness(self, c):
        """len(x) == 0, x.size == 0, 0 < len(x), ... -> ("empty", x) or its negation"""
        _, name, a, b = c
        for zero, other, flip in ((a, b, False), (b, a, True)):
            x = self._size_of(other)
            if zero == ("c", 0) and x is not None:
                if name == "eq":
                    return ("empty", x)
                if name == "ne":
                    return ("u", "not", ("empty", x))
                if name == "lt" and not flip:            # 0 < size
                    return ("u", "not", ("empty", x))
                if name == "le" and flip:                # size <= 0
                    return ("empty", x)
        return c

    def boolop(self, node, vals):
        return ("bool", "and" if isinstance(node.op, ast.And) else "or", tuple(vals))

    def call(self, fn, args, kwargs, node, interp, env):
        if fn in self.idf and args and (fn not in ("np.array", "np.asarray", "pd.Series") or
                                        not (set(kwargs) - {"dtype", "copy", "name", "index"})):
            if fn == "pd.Series" and "index" in kwargs:
                return ("series", args[0], kwargs["index"])
            return args[0]
        if fn in ("np.full_like", "np.full") and len(args) >= 2:
            return args[1]                              # a value spread over a shape is that value, element by element
        if fn == "np.where" and len(args) == 3:
            return ("where", args[0], args[1], args[2])
        if fn in ("np.logical_not", "np.invert") and len(args) == 1:
            return ("u", "not", args[0])
        if fn in ("np.logical_and", "np.logical_or") and len(args) == 2:
            a, b = sorted(args, key=repr)
            return ("op", "&" if fn.endswith("and") else "|", a, b)
        if fn in ("np.power", "np.float_power") and len(args) == 2:
            return ("op", "**", args[0], args[1])
        if fn in ("np.multiply", "np.add") and len(args) == 2:
            a, b = sorted(args, key=repr)
            return ("op", "*" if fn.endswith("multiply") else "+", a, b)
        if fn in ("np.divide", "np.subtract") and len(args) == 2 and not kwargs:
            return ("op", "/" if fn.endswith("divide") else "-", args[0], args[1])
        return NotImplemented

    def call_default(self, fn, args, kwargs, node):
        return ("call", fn, tuple(args), tuple(sorted(kwargs.items(), key=lambda kv: kv[0])))

    def method(self, recv, name, args, kwargs, node):
        if name in self.idm:
            return recv
        return ("m", recv, name, tuple(args), tuple(sorted(kwargs.items(), key=lambda kv: kv[0])))

    def attribute(self, recv, attr, node):
        if attr in IDENTITY_ATTRS:
            return recv
        return ("attr", recv, attr)

    def self_attr(self, attr, node):
        return ("self", attr)

    def global_name(self, name):
        return ("g", name)                  # a module / builtin / imported name that is not a local

    def subscript(self, recv, index, node):
        if isinstance(index, (int, str)) and not isinstance(index, bool):
            index = ("c", index)
        if self.labels_as_attrs and isinstance(index, tuple) and len(index) == 2 and index[0] == "c" and isinstance(index[1], str) \
                and index[1].isidentifier():
            return ("attr", recv, index[1])             # a label read: obj['k_1'] is obj.k_1
        if index is None:
            index = ("slice", ast.unparse(node.slice) if isinstance(node, ast.Subscript) else "?")
        return ("at", recv, index)

    def store(self, old, index, value, node):
        if isinstance(value, tuple) and len(value) == 3 and value[0] == "at" and value[2] == index:
            value = value[1]                            # k[mask] = k_2[mask]  ==  where(mask, k_2, k)
        return ("where", index, value, old)


def assume(t, cond, truth, _depth=0):
    """simplify a term under the assumption that `cond` is true / false: nested conditionals on the same condition collapse"""
    if _depth > 40 or not isinstance(t, (tuple, Seq)):
        return t
    if isinstance(t, tuple) and len(t) == 4 and t[0] == "ite" and t[1] == cond:
        return assume(t[2] if truth else t[3], cond, truth, _depth + 1)
    if isinstance(t, Seq):
        return Seq(assume(x, cond, truth, _depth + 1) for x in t)
    return tuple(assume(x, cond, truth, _depth + 1) if isinstance(x, (tuple, Seq)) else x for x in t)


def term_walk(t):
    """all sub-terms of a term (pre-order)"""
    yield t
    if isinstance(t, (tuple, Seq)):
        for x in t:
            if isinstance(x, (tuple, Seq)):
                yield from term_walk(x)


def term_alternatives(t):
    """the alternatives of a joined value (returns of different paths, arms of a conditional), or the value itself"""
    if isinstance(t, tuple) and t and t[0] == "phi":
        return [y for x in t[1] for y in term_alternatives(x)]
    if isinstance(t, tuple) and len(t) == 4 and t[0] == "ite":
        return term_alternatives(t[2]) + term_alternatives(t[3])
    return [t]


def cond_value(c, atom_truth):
    """truth of a condition term under `atom_truth(term) -> True/False/None` for its atomic parts (None = unknown)"""
    v = atom_truth(c)
    if v is not None:
        return v
    if isinstance(c, tuple) and c:
        if c[0] == "u" and c[1] == "not":
            v = cond_value(c[2], atom_truth)
            return None if v is None else not v
        if c[0] == "bool":
            vs = [cond_value(x, atom_truth) for x in c[2]]
            if c[1] == "and":
                return False if any(x is False for x in vs) else (True if all(x is True for x in vs) else None)
            return True if any(x is True for x in vs) else (False if all(x is False for x in vs) else None)
        if c[0] == "cmp" and c[1] in ("isnot", "ne", "notin"):
            inv = {"isnot": "is", "ne": "eq", "notin": "in"}[c[1]]
            v = cond_value(("cmp", inv) + tuple(c[2:]), atom_truth)
            return None if v is None else not v
        if c[0] == "c":
            return bool(c[1])
    return None


def term_resolve(t, atom_truth, _depth=0):
    """the term with every conditional whose condition is decided by `atom_truth` replaced by the selected arm"""
    if _depth > 60 or not isinstance(t, (tuple, Seq)):
        return t
    if isinstance(t, tuple) and len(t) == 4 and t[0] == "ite":
        v = cond_value(t[1], atom_truth)
        if v is not None:
            return term_resolve(t[2] if v else t[3], atom_truth, _depth + 1)
    if isinstance(t, Seq):
        return Seq(term_resolve(x, atom_truth, _depth + 1) for x in t)
    return tuple(term_resolve(x, atom_truth, _depth + 1) if isinstance(x, (tuple, Seq)) else x for x in t)


def term_select(t, atom_truth):
    """the leaf of a nest of conditionals that is selected when the atomic conditions have the given truth values; None if
    a condition on the way cannot be decided (or the value is an unconditioned join)"""
    for _ in range(60):
        if isinstance(t, tuple) and len(t) == 4 and t[0] == "ite":
            v = cond_value(t[1], atom_truth)
            if v is None:
                return None
            t = t[2] if v else t[3]
            continue
        if isinstance(t, tuple) and t and t[0] == "phi":
            return None
        return t
    return None


def term_to_nf(t, atom):
    """rational normal form of an arithmetic term; `atom(term)` names the leaves (returns a symbol name or None)"""
    from fractions import Fraction
    from .nf import RF, NFUnsupported
    name = atom(t)
    if name is not None:
        return RF.sym(name)
    if isinstance(t, tuple) and t and t[0] == "c" and isinstance(t[1], (int, float)) and not isinstance(t[1], bool):
        return RF.const(Fraction(t[1]).limit_denominator(10 ** 12))
    if isinstance(t, tuple) and len(t) == 4 and t[0] == "op":
        a, b = term_to_nf(t[2], atom), None
        if t[1] == "**":
            if isinstance(t[3], tuple) and t[3][0] == "c" and isinstance(t[3][1], int) and 0 <= t[3][1] <= 8:
                out = RF.const(1)
                for _ in range(t[3][1]):
                    out = out * a
                return out
            raise NFUnsupported("power %r" % (t[3],))
        b = term_to_nf(t[3], atom)
        if t[1] == "+":
            return a + b
        if t[1] == "-":
            return a - b
        if t[1] == "*":
            return a * b
        if t[1] == "/":
            return a / b
    if isinstance(t, tuple) and len(t) == 3 and t[0] == "u" and t[1] == "usub":
        return RF.const(0) - term_to_nf(t[2], atom)
    raise NFUnsupported("term %r" % (t,))


def term_to_ast(t):
    """python expression for an arithmetic / selection term (inverse of TermDomain for the forms rules feed to the normal-form
    translator): where, comparisons, +-*/**, constants, parameters, self attributes, attributes, plain calls"""
    if isinstance(t, Seq):
        return ast.Tuple(elts=[term_to_ast(x) for x in t], ctx=ast.Load())
    if not isinstance(t, tuple) or not t:
        raise ValueError("term %r" % (t,))
    h = t[0]
    if h == "c":
        return ast.Constant(value=t[1])
    if h in ("p", "g"):
        return ast.Name(id=t[1], ctx=ast.Load())
    if h == "self":
        return ast.Attribute(value=ast.Name(id="self", ctx=ast.Load()), attr=t[1], ctx=ast.Load())
    if h == "attr":
        return ast.Attribute(value=term_to_ast(t[1]), attr=t[2], ctx=ast.Load())
    if h == "op":
        ops = {v: k for k, v in OP_NAMES.items()}
        return ast.BinOp(left=term_to_ast(t[2]), op=ops[t[1]](), right=term_to_ast(t[3]))
    if h == "u" and t[1] == "usub":
        return ast.UnaryOp(op=ast.USub(), operand=term_to_ast(t[2]))
    if h == "u" and t[1] == "not":
        return ast.UnaryOp(op=ast.Not(), operand=term_to_ast(t[2]))
    if h == "cmp":
        ops = {"lt": ast.Lt, "le": ast.LtE, "eq": ast.Eq, "ne": ast.NotEq}
        if t[1] in ops:
            return ast.Compare(left=term_to_ast(t[2]), ops=[ops[t[1]]()], comparators=[term_to_ast(t[3])])
    if h == "cmp" and t[1] in ("is", "isnot", "in", "notin"):
        ops = {"is": ast.Is, "isnot": ast.IsNot, "in": ast.In, "notin": ast.NotIn}
        return ast.Compare(left=term_to_ast(t[2]), ops=[ops[t[1]]()], comparators=[term_to_ast(t[3])])
    if h == "ite":
        return ast.IfExp(test=term_to_ast(t[1]), body=term_to_ast(t[2]), orelse=term_to_ast(t[3]))
    if h == "where":
        return ast.Call(func=ast.Attribute(value=ast.Name(id="np", ctx=ast.Load()), attr="where", ctx=ast.Load()),
                        args=[term_to_ast(t[1]), term_to_ast(t[2]), term_to_ast(t[3])], keywords=[])
    if h == "call" and isinstance(t[1], str) and t[1]:
        fn = ast.parse(t[1], mode="eval").body
        return ast.Call(func=fn, args=[term_to_ast(x) for x in t[2]],
                        keywords=[ast.keyword(arg=k, value=term_to_ast(v)) for k, v in t[3]])
    if h == "m":
        return ast.Call(func=ast.Attribute(value=term_to_ast(t[1]), attr=t[2], ctx=ast.Load()), args=[term_to_ast(x) for x in t[3]],
                        keywords=[ast.keyword(arg=k, value=term_to_ast(v)) for k, v in t[4]])
    if h == "at":
        return ast.Subscript(value=term_to_ast(t[1]), slice=term_to_ast(t[2]), ctx=ast.Load())
    raise ValueError("term %r cannot be written back as an expression" % (t[:2],))
