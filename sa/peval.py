"""Partial evaluation of small pure helper functions (design §3 C19-2).

Evaluates a Python function body *symbolically from its syntax tree* with a mix
of concrete arguments (ints, bools, tuples) and symbolic ones (normal forms).
Branches must be decidable from the concrete arguments; anything else raises
NFUnsupported.  No code of the repository is executed.
"""
from __future__ import annotations

import ast
from fractions import Fraction

from .nf import RF, NFUnsupported


class _Return(Exception):
    def __init__(self, v):
        self.v = v


class Closure:
    def __init__(self, node, env):
        self.node = node
        self.env = env


def call_closure(cl: Closure, args):
    params = [a.arg for a in cl.node.args.args]
    if len(params) != len(args):
        raise NFUnsupported("arity mismatch calling %s" % cl.node.name)
    env = dict(cl.env)
    env.update(zip(params, args))
    try:
        exec_block(cl.node.body, env)
    except _Return as r:
        return r.v
    return None


def exec_block(body, env):
    for s in body:
        if isinstance(s, ast.FunctionDef):
            env[s.name] = Closure(s, env)
        elif isinstance(s, ast.Assign) and len(s.targets) == 1 and isinstance(s.targets[0], ast.Name):
            env[s.targets[0].id] = ev(s.value, env)
        elif isinstance(s, ast.Assign) and len(s.targets) == 1 and isinstance(s.targets[0], (ast.Tuple, ast.List)) and \
                all(isinstance(t, ast.Name) for t in s.targets[0].elts):
            v = ev(s.value, env)
            if not isinstance(v, tuple) or len(v) != len(s.targets[0].elts):
                raise NFUnsupported("unpacking of a non-tuple in partial evaluation")
            for t, x in zip(s.targets[0].elts, v):
                env[t.id] = x
        elif isinstance(s, ast.Return):
            raise _Return(ev(s.value, env) if s.value is not None else None)
        elif isinstance(s, ast.If):
            t = ev(s.test, env)
            if not isinstance(t, (bool, int)):
                raise NFUnsupported("branch on a symbolic value")
            exec_block(s.body if t else s.orelse, env)
        elif isinstance(s, ast.Expr) and isinstance(s.value, ast.Constant):
            continue
        elif isinstance(s, ast.Pass):
            continue
        else:
            raise NFUnsupported("statement %s in partial evaluation" % type(s).__name__)


def _num(v):
    if isinstance(v, RF):
        return v
    if isinstance(v, bool):
        return RF.const(int(v))
    if isinstance(v, (int, Fraction)):
        return RF.const(v)
    if isinstance(v, float):
        return RF.const(Fraction(str(v)))
    raise NFUnsupported("non-numeric value %r" % (v,))


def ev(e, env):
    if isinstance(e, ast.Constant):
        return e.value
    if isinstance(e, ast.Name):
        if e.id not in env:
            raise NFUnsupported("unbound name %s" % e.id)
        return env[e.id]
    if isinstance(e, (ast.Tuple, ast.List)):
        return tuple(ev(x, env) for x in e.elts)
    if isinstance(e, ast.Subscript):
        b = ev(e.value, env)
        i = ev(e.slice, env)
        if isinstance(b, tuple) and isinstance(i, int):
            return b[i]
        raise NFUnsupported("subscript in partial evaluation")
    if isinstance(e, ast.UnaryOp):
        v = ev(e.operand, env)
        if isinstance(e.op, ast.USub):
            return -v if isinstance(v, (int, Fraction)) and not isinstance(v, bool) else -_num(v)
        if isinstance(e.op, ast.Not):
            return not v
        raise NFUnsupported("unary op")
    if isinstance(e, ast.BinOp):
        l, r = ev(e.left, env), ev(e.right, env)
        conc = all(isinstance(x, (int, Fraction)) and not isinstance(x, RF) for x in (l, r))
        if isinstance(e.op, ast.Add):
            return l + r if conc else _num(l) + _num(r)
        if isinstance(e.op, ast.Sub):
            return l - r if conc else _num(l) - _num(r)
        if isinstance(e.op, ast.Mult):
            return l * r if conc else _num(l) * _num(r)
        if isinstance(e.op, ast.Div):
            return _num(l) / _num(r)
        raise NFUnsupported("binary op %s" % type(e.op).__name__)
    if isinstance(e, ast.Compare) and len(e.ops) == 1:
        l, r = ev(e.left, env), ev(e.comparators[0], env)
        if isinstance(l, RF) or isinstance(r, RF):
            raise NFUnsupported("comparison of symbolic values")
        op = e.ops[0]
        if isinstance(op, ast.Eq):
            return l == r
        if isinstance(op, ast.NotEq):
            return l != r
        if isinstance(op, ast.In):
            return l in r
        if isinstance(op, ast.NotIn):
            return l not in r
        if isinstance(op, ast.Lt):
            return l < r
        if isinstance(op, ast.Gt):
            return l > r
        if isinstance(op, ast.LtE):
            return l <= r
        if isinstance(op, ast.GtE):
            return l >= r
        raise NFUnsupported("comparison op")
    if isinstance(e, ast.IfExp):
        t = ev(e.test, env)
        if isinstance(t, RF):
            raise NFUnsupported("conditional on a symbolic value")
        return ev(e.body if t else e.orelse, env)
    if isinstance(e, ast.Call):
        f = ev(e.func, env) if isinstance(e.func, ast.Name) else None
        if isinstance(f, Closure):
            return call_closure(f, [ev(a, env) for a in e.args])
        raise NFUnsupported("call in partial evaluation")
    raise NFUnsupported("expression %s in partial evaluation" % type(e).__name__)


def module_env(tree):
    """the module's top-level functions (as closures over this environment) and its top-level literal bindings"""
    env = {}
    for s in tree.body:
        if isinstance(s, ast.FunctionDef):
            env[s.name] = Closure(s, env)
        elif isinstance(s, ast.Assign) and len(s.targets) == 1 and isinstance(s.targets[0], ast.Name):
            try:
                env[s.targets[0].id] = ev(s.value, {})
            except NFUnsupported:
                pass
    return env
