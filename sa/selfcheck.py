"""setup_cmd: byte-compile the engine, parse /repo, print what would be analysed."""
import compileall
import os
import sys

from .frontend import AnalysisError, Program


def main():
    here = os.path.dirname(os.path.abspath(__file__))
    ok = compileall.compile_dir(here, quiet=1)
    try:
        p = Program()
    except AnalysisError as e:
        print("ANALYSIS-ERROR selfcheck: %s" % e)
        return 2
    print("sa selfcheck: engine compiled=%s; parsed %d modules, %d classes, %d functions from /repo"
          % (bool(ok), len(p.modules), len(p.classes), len(p.functions)))
    return 0 if ok else 2


if __name__ == "__main__":
    sys.exit(main())
