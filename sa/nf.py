"""Algebraic normal form (design §2.5).

Rational functions with Fraction coefficients over monomials whose exponents
may be symbolic (Laurent polynomials in other symbols).  Expressions are
translated *from the syntax tree*; nothing is executed.  Two expressions are
equal iff their cross-multiplied normal forms coincide.  Anything outside the
fragment raises NFUnsupported (the obligation becomes inconclusive).

Trusted base of every obligation discharged here: this file, ``ast`` and the
assumption that numpy element-wise arithmetic on reals follows real algebra,
with every symbol that carries a non-integer exponent being positive.
"""
from __future__ import annotations

import ast
from fractions import Fraction

from .astutil import call_name, const_value, dotted


class NFUnsupported(Exception):
    pass


MAX_TERMS = 10000

# ----------------------------------------------------------------------------- exponents


def _e_norm(e):
    """Exponent: Fraction if constant, else Poly."""
    if isinstance(e, Poly):
        c = e.as_const()
        if c is not None:
            return c
        return e
    return Fraction(e)


def _e_add(a, b):
    if isinstance(a, Poly) or isinstance(b, Poly):
        return _e_norm(_as_poly(a) + _as_poly(b))
    return a + b


def _e_mul(a, b):
    if isinstance(a, Poly) or isinstance(b, Poly):
        return _e_norm(_as_poly(a) * _as_poly(b))
    return a * b


def _as_poly(e):
    return e if isinstance(e, Poly) else Poly.const(e)


def _e_key(e):
    return ("p", e.key()) if isinstance(e, Poly) else ("f", e.numerator, e.denominator)


def _e_repr(e):
    return "(%r)" % e if isinstance(e, Poly) else str(e)


def _primes(n):
    out = {}
    p = 2
    while p * p <= n:
        while n % p == 0:
            out[p] = out.get(p, 0) + 1
            n //= p
        p += 1
    if n > 1:
        out[n] = out.get(n, 0) + 1
    return out


# ----------------------------------------------------------------------------- Poly

class Poly:
    """dict monomial -> Fraction ; monomial = tuple(sorted((atom, exponent)))"""
    __slots__ = ("terms", "_key")

    def __init__(self, terms=None):
        self.terms = {m: c for m, c in (terms or {}).items() if c != 0}
        if len(self.terms) > MAX_TERMS:
            raise NFUnsupported("normal form exceeds %d monomials" % MAX_TERMS)
        self._key = None

    # constructors
    @staticmethod
    def const(c):
        return Poly({(): Fraction(c)})

    @staticmethod
    def sym(name, expo=Fraction(1)):
        return Poly({((name, _e_norm(expo)),): Fraction(1)})

    def key(self):
        if self._key is None:
            self._key = tuple(sorted(
                (tuple((repr(a), _e_key(e)) for a, e in m), c.numerator, c.denominator) for m, c in self.terms.items()))
        return self._key

    def __hash__(self):
        return hash(self.key())

    def __eq__(self, o):
        return isinstance(o, Poly) and self.key() == o.key()

    def is_zero(self):
        return not self.terms

    def as_const(self):
        if not self.terms:
            return Fraction(0)
        if len(self.terms) == 1 and () in self.terms:
            return self.terms[()]
        return None

    def single_term(self):
        if len(self.terms) == 1:
            return next(iter(self.terms.items()))
        return None

    def __add__(self, o):
        t = dict(self.terms)
        for m, c in o.terms.items():
            t[m] = t.get(m, 0) + c
        return Poly(t)

    def __neg__(self):
        return Poly({m: -c for m, c in self.terms.items()})

    def __sub__(self, o):
        return self + (-o)

    def scale(self, c):
        return Poly({m: v * c for m, v in self.terms.items()})

    def __mul__(self, o):
        out = Poly()
        acc = {}
        pending = []
        for m1, c1 in self.terms.items():
            for m2, c2 in o.terms.items():
                m, extra = _mono_mul(m1, m2)
                if extra is None:
                    acc[m] = acc.get(m, 0) + c1 * c2
                else:
                    pending.append((m, c1 * c2, extra))
        out = Poly(acc)
        for m, c, extra in pending:
            p = Poly({m: c})
            for q in extra:
                p = p * q
            out = out + p
        return out

    def atoms(self):
        s = set()
        for m in self.terms:
            for a, e in m:
                s.add(a)
                if isinstance(e, Poly):
                    s |= e.atoms()
        return s

    def __repr__(self):
        if not self.terms:
            return "0"
        parts = []
        for m, c in sorted(self.terms.items(), key=lambda kv: repr(kv[0])):
            f = "*".join(("%s" % _atom_repr(a)) if e == 1 else "%s^%s" % (_atom_repr(a), _e_repr(e)) for a, e in m)
            if not f:
                parts.append(str(c))
            elif c == 1:
                parts.append(f)
            else:
                parts.append("%s*%s" % (c, f))
        return " + ".join(parts)


def _atom_repr(a):
    if isinstance(a, tuple):
        if a[0] == "expr":
            return "[%r]" % (a[1],)
        if a[0] == "num":
            return "#%d" % a[1]
        return "%s(%s)" % (a[0], ",".join(repr(x) for x in a[1:]))
    return str(a)


def _mono_mul(m1, m2):
    """Multiply monomials; returns (mono, extra_polys|None) where extra_polys
    are expanded integer powers of 'expr' atoms and folded numeric atoms."""
    d = {}
    for a, e in m1:
        d[a] = e
    for a, e in m2:
        d[a] = _e_add(d[a], e) if a in d else e
    extra = []
    out = []
    for a, e in d.items():
        if not isinstance(e, Poly) and e == 0:
            continue
        if isinstance(a, tuple) and a[0] == "expr" and not isinstance(e, Poly) and e >= 1:
            k = int(e)       # floor for positive
            frac = e - k
            p = Poly.const(1)
            for _ in range(k):
                p = p * a[1]
            extra.append(p)
            if frac:
                out.append((a, frac))
            continue
        if isinstance(a, tuple) and a[0] == "num" and not isinstance(e, Poly) and e.denominator == 1:
            extra.append(Poly.const(Fraction(a[1]) ** int(e)))
            continue
        if isinstance(a, tuple) and a[0] == "num" and isinstance(e, Poly):
            # p^(k + rest) = p^k * p^rest for the integer part k of the constant term of a symbolic exponent
            c0 = e.terms.get((), Fraction(0))
            k = c0.numerator // c0.denominator
            if k != 0:
                extra.append(Poly.const(Fraction(a[1]) ** int(k)))
                e = e + Poly.const(-k)
                e = e.as_const() if e.as_const() is not None else e
                if not isinstance(e, Poly) and e == 0:
                    continue
        out.append((a, e))
    out.sort(key=lambda ae: repr(ae[0]))
    return tuple(out), (extra or None)


# ----------------------------------------------------------------------------- RF

class RF:
    __slots__ = ("num", "den")

    def __init__(self, num, den=None):
        den = Poly.const(1) if den is None else den
        if den.is_zero():
            raise NFUnsupported("division by zero in normal form")
        # a single-term denominator folds into the numerator (Laurent monomials)
        st = den.single_term()
        if st is not None:
            m, c = st
            inv = Poly({tuple((a, _e_mul(e, Fraction(-1))) for a, e in m): 1 / c})
            num = num * inv
            den = Poly.const(1)
        num, den = _clear_negative_expr(num, den)
        self.num, self.den = num, den

    @staticmethod
    def const(c):
        return RF(Poly.const(c))

    @staticmethod
    def sym(name):
        return RF(Poly.sym(name))

    def __add__(self, o):
        if self.den == o.den:
            return RF(self.num + o.num, self.den)
        return RF(self.num * o.den + o.num * self.den, self.den * o.den)

    def __neg__(self):
        return RF(-self.num, self.den)

    def __sub__(self, o):
        return self + (-o)

    def __mul__(self, o):
        return RF(self.num * o.num, self.den * o.den)

    def inv(self):
        if self.num.is_zero():
            raise NFUnsupported("division by zero")
        return RF(self.den, self.num)

    def __truediv__(self, o):
        return self * o.inv()

    def __eq__(self, o):
        if not isinstance(o, RF):
            return NotImplemented
        return (self.num * o.den - o.num * self.den).is_zero()

    def __hash__(self):  # pragma: no cover
        return 0

    def is_zero(self):
        return self.num.is_zero()

    def as_const(self):
        if self.den.as_const() is not None and self.num.as_const() is not None:
            return self.num.as_const() / self.den.as_const()
        return None

    def as_poly(self):
        c = self.den.as_const()
        if c is None:
            raise NFUnsupported("exponent with a non-monomial denominator")
        return self.num.scale(1 / c)

    def pow(self, e: "RF"):
        ec = e.as_const()
        if self.is_zero():
            if ec is not None and ec > 0:
                return RF.const(0)
            if ec is None and _poly_sign(e.num) == 1 and _poly_sign(e.den) == 1:
                return RF.const(0)      # 0 ** (positive symbolic exponent)
            raise NFUnsupported("power of zero with a non-positive exponent")
        if ec is not None and ec.denominator == 1:
            k = int(ec)
            base = self if k >= 0 else self.inv()
            out = RF.const(1)
            for _ in range(abs(k)):
                out = out * base
            return out
        expo = _e_norm(e.as_poly())
        return _pow_poly(self.num, expo) * _pow_poly(self.den, _e_mul(expo, Fraction(-1)))

    def atoms(self):
        return self.num.atoms() | self.den.atoms()

    def __repr__(self):
        if self.den.as_const() == 1:
            return repr(self.num)
        return "(%r)/(%r)" % (self.num, self.den)


def _clear_negative_expr(num, den):
    for _ in range(20):
        neg = None
        for p in (num, den):
            for m in p.terms:
                for a, e in m:
                    if isinstance(a, tuple) and a[0] == "expr" and not isinstance(e, Poly) and e < 0:
                        neg = (a, -e)
                        break
                if neg:
                    break
            if neg:
                break
        if not neg:
            return num, den
        f = Poly({((neg[0], neg[1]),): Fraction(1)})
        num, den = num * f, den * f
    raise NFUnsupported("cannot clear negative powers")


def _pow_poly(p: Poly, expo):
    """p ** expo for a non-integer / symbolic exponent."""
    if p.as_const() == 1:
        return RF.const(1)
    st = p.single_term()
    if st is not None:
        m, c = st
        out = _pow_const(c, expo)
        mono = tuple((a, _e_mul(e, expo)) for a, e in m)
        return out * RF(Poly({(): Fraction(1)}) * Poly({tuple(sorted(mono, key=lambda ae: repr(ae[0]))): Fraction(1)}))
    # factor out content: coefficient of the first term in canonical order and common symbol powers
    items = sorted(p.terms.items(), key=lambda kv: repr(kv[0]))
    lead = items[0][1]
    if lead < 0:
        raise NFUnsupported("non-integer power of an expression with negative leading coefficient")
    prim = p.scale(1 / lead)
    atom = ("expr", prim)
    return _pow_const(lead, expo) * RF(Poly({((atom, expo),): Fraction(1)}) * Poly.const(1))


def _pow_const(c: Fraction, expo):
    if c == 1:
        return RF.const(1)
    if c <= 0:
        raise NFUnsupported("non-integer power of a non-positive constant")
    out = Poly.const(1)
    for n, sgn in ((c.numerator, 1), (c.denominator, -1)):
        for prime, k in _primes(n).items():
            out = out * Poly({((("num", prime), _e_mul(expo, Fraction(sgn * k))),): Fraction(1)}) * Poly.const(1)
    return RF(out)


# ----------------------------------------------------------------------------- derivative

def d_poly(p: Poly, x):
    out = Poly()
    for m, c in p.terms.items():
        for i, (a, e) in enumerate(m):
            if isinstance(e, Poly) and x in e.atoms():
                raise NFUnsupported("derivative of x-dependent exponent")
            rest = Poly({tuple(m[:i] + m[i + 1:]): c})
            if a == x:
                # e * x^(e-1)
                term = _as_poly(e) * Poly({((x, _e_add(e, Fraction(-1))),): Fraction(1)}) * Poly.const(1)
                out = out + rest * term
            elif isinstance(a, tuple) and a[0] == "expr" and x in a[1].atoms():
                inner = d_poly(a[1], x)
                term = _as_poly(e) * Poly({((a, _e_add(e, Fraction(-1))),): Fraction(1)}) * Poly.const(1) * inner
                out = out + rest * term
            elif isinstance(a, tuple) and a[0] not in ("expr", "num") and any(
                    isinstance(z, (Poly, RF)) and x in z.atoms() for z in a[1:]):
                raise NFUnsupported("derivative through opaque function %s" % a[0])
    return out


def derivative(r: RF, x):
    dn, dd = d_poly(r.num, x), d_poly(r.den, x)
    return RF(dn * r.den - r.num * dd, r.den * r.den)


# ----------------------------------------------------------------------------- translation

SQRT = ("np.sqrt", "numpy.sqrt", "math.sqrt", "sqrt")
POWER = ("np.power", "numpy.power", "pow", "math.pow", "np.float_power")
ABS = ("np.abs", "numpy.abs", "abs", "np.absolute", "np.fabs", "math.fabs", "fabs")
LOG10 = ("np.log10", "numpy.log10", "math.log10")
LOG = ("np.log", "numpy.log", "math.log")
EXP = ("np.exp", "numpy.exp", "math.exp")
IDENT = ("np.asarray", "np.array", "float", "np.float64", "pd.Series", "np.asfarray", "np.atleast_1d")


# Private single-expression helpers of the analysed program (set by frontend.Program when it has indexed the package): a call
# `self._h(a)` / `_h(a)` that no rule-specific hook understands is replaced by the helper's returned expression with the
# arguments substituted, provided the name is unique in the program ("extract expression into a helper" undone).
HELPERS = {"methods": {}, "functions": {}}


def register_helpers(prog):
    meth, func = {}, {}
    for k, fi in prog.functions.items():
        n = fi.node
        if not isinstance(n, ast.FunctionDef) or not fi.name.startswith("_") or fi.name.startswith("__") or fi.parent is not None:
            continue
        body = [s_ for s_ in n.body if not (isinstance(s_, ast.Expr) and isinstance(s_.value, ast.Constant))]
        if len(body) != 1 or not isinstance(body[0], ast.Return) or body[0].value is None:
            continue
        a = n.args
        if a.vararg or a.kwarg or a.posonlyargs:
            continue
        (meth if fi.cls is not None else func).setdefault(fi.name, []).append(fi)
    HELPERS["methods"] = {k: v[0] for k, v in meth.items() if len(v) == 1}
    HELPERS["functions"] = {k: v[0] for k, v in func.items() if len(v) == 1}


def expand_private_helper(call):
    """the returned expression of a registered helper with the call's arguments substituted, or None"""
    f = call.func
    fi = None
    if isinstance(f, ast.Attribute) and isinstance(f.value, ast.Name) and f.value.id == "self":
        fi = HELPERS["methods"].get(f.attr)
    elif isinstance(f, ast.Name):
        fi = HELPERS["functions"].get(f.id)
    if fi is None:
        return None
    n = fi.node
    decos = {getattr(d, "id", getattr(d, "attr", "")) for d in n.decorator_list}
    names = [x.arg for x in n.args.args]
    if fi.cls is not None and names and names[0] in ("self", "cls") and "staticmethod" not in decos:
        names = names[1:]
    if len(call.args) > len(names) or any(isinstance(x, ast.Starred) for x in call.args) or any(k.arg is None for k in call.keywords):
        return None
    binding = dict(zip(names, call.args))
    for k in call.keywords:
        if k.arg not in names and k.arg not in [x.arg for x in n.args.kwonlyargs]:
            return None
        binding[k.arg] = k.value
    defaults = dict(zip(names[len(names) - len(n.args.defaults):], n.args.defaults))
    for x, d in zip(n.args.kwonlyargs, n.args.kw_defaults):
        if d is not None:
            defaults[x.arg] = d
    for nm in names + [x.arg for x in n.args.kwonlyargs]:
        if nm not in binding:
            if nm not in defaults:
                return None
            binding[nm] = defaults[nm]
    from .astutil import subst_names
    ret = [s_ for s_ in n.body if isinstance(s_, ast.Return)][0].value
    return subst_names(ret, binding)


class Translator:
    """AST expression -> RF.

    atom(expr) -> symbol name | RF | None   (asked first for every node)
    env: name -> ast expression (local definitions, already inlined or not)
    strip(expr) -> expr with value-preserving wrappers removed
    positive: callable(RF) -> True/False/None  used for abs(); default: every
              monomial with positive coefficient is positive (symbols positive).
    order(a: RF, b: RF) -> -1/0/1/None  decides comparisons for max/min/where.
    call(fn_dotted, call_node, translator) -> RF | None  user hook for calls.
    """

    def __init__(self, atom=None, env=None, strip=None, positive=None, order=None, call=None,
                 symbols_positive=True):
        self.atom = atom or (lambda e: None)
        self.env = env or {}
        self.strip = strip or (lambda e: e)
        self.positive = positive
        self.order = order
        self.call = call
        self.symbols_positive = symbols_positive
        self._depth = 0

    def __call__(self, e):
        return self.tr(e)

    def tr(self, e):
        a = self.atom(e)
        if a is not None:
            return a if isinstance(a, RF) else RF.sym(a)
        s = self.strip(e)
        if s is not e:
            return self.tr(s)
        if isinstance(e, ast.Constant):
            v = e.value
            if isinstance(v, bool) or not isinstance(v, (int, float)):
                raise NFUnsupported("constant %r" % (v,))
            if v != v or v in (float("inf"), float("-inf")):
                raise NFUnsupported("non-finite constant")
            return RF.const(Fraction(str(v)) if isinstance(v, float) else Fraction(v))
        if isinstance(e, ast.Name):
            if e.id in self.env:
                self._depth += 1
                if self._depth > 60:
                    raise NFUnsupported("definition chain too deep")
                try:
                    return self.tr(self.env[e.id])
                finally:
                    self._depth -= 1
            return RF.sym(e.id)
        if isinstance(e, ast.BinOp):
            l = self.tr(e.left)
            if isinstance(e.op, ast.Pow):
                return l.pow(self.tr(e.right))
            r = self.tr(e.right)
            if isinstance(e.op, ast.Add):
                return l + r
            if isinstance(e.op, ast.Sub):
                return l - r
            if isinstance(e.op, ast.Mult):
                return l * r
            if isinstance(e.op, ast.Div):
                return l / r
            raise NFUnsupported("operator %s" % type(e.op).__name__)
        if isinstance(e, ast.UnaryOp):
            if isinstance(e.op, ast.USub):
                return -self.tr(e.operand)
            if isinstance(e.op, ast.UAdd):
                return self.tr(e.operand)
            raise NFUnsupported("unary %s" % type(e.op).__name__)
        if isinstance(e, ast.IfExp):
            return self._select(e.test, e.body, e.orelse)
        if isinstance(e, ast.Call):
            fn = call_name(e)
            if self.call is not None:
                r = self.call(fn, e, self)
                if r is not None:
                    return r
            if fn in SQRT and len(e.args) == 1:
                return self.tr(e.args[0]).pow(RF.const(Fraction(1, 2)))
            if fn in ("np.square", "numpy.square") and len(e.args) == 1:
                x = self.tr(e.args[0])
                return x * x
            if fn in POWER and len(e.args) == 2:
                return self.tr(e.args[0]).pow(self.tr(e.args[1]))
            if fn in ("np.divide", "numpy.divide", "np.true_divide") and len(e.args) == 2:
                # a where= mask only guards the pole (checked by the rule that uses this translation)
                return self.tr(e.args[0]) / self.tr(e.args[1])
            if fn in ("np.multiply", "numpy.multiply") and len(e.args) == 2 and not e.keywords:
                return self.tr(e.args[0]) * self.tr(e.args[1])
            if fn in IDENT and len(e.args) >= 1:
                return self.tr(e.args[0])
            if fn in ABS and len(e.args) == 1:
                x = self.tr(e.args[0])
                sg = self.sign_of(x)
                if sg is None:
                    raise NFUnsupported("abs() of an expression of unknown sign: %r" % x)
                return x if sg >= 0 else -x
            if fn in ("np.maximum", "numpy.maximum", "max", "np.fmax") and len(e.args) == 2:
                a, b = self.tr(e.args[0]), self.tr(e.args[1])
                c = self.compare(a, b)
                return a if c >= 0 else b
            if fn in ("np.minimum", "numpy.minimum", "min", "np.fmin") and len(e.args) == 2:
                a, b = self.tr(e.args[0]), self.tr(e.args[1])
                c = self.compare(a, b)
                return a if c <= 0 else b
            if fn in ("np.where", "numpy.where") and len(e.args) == 3:
                return self._select(e.args[0], e.args[1], e.args[2])
            if fn in LOG10 + LOG + EXP and len(e.args) == 1:
                x = self.tr(e.args[0])
                return self._transcendental(fn, x)
            if fn in ("np.sign", "numpy.sign") and len(e.args) == 1:
                x = self.tr(e.args[0])
                sg = self.sign_of(x)
                if sg is None:
                    raise NFUnsupported("sign() of unknown sign")
                return RF.const(sg)
            ex = expand_private_helper(e)
            if ex is not None and self._depth < 40:
                self._depth += 1
                try:
                    return self.tr(ex)
                finally:
                    self._depth -= 1
            raise NFUnsupported("call %s" % (fn or ast.dump(e.func)[:40]))
        raise NFUnsupported("expression %s" % type(e).__name__)

    # -- helpers
    def sign_of(self, x: RF):
        if self.positive is not None:
            r = self.positive(x)
            if r is not None:
                return r
        if x.is_zero():
            return 0
        if not self.symbols_positive:
            return None
        sn = _poly_sign(x.num)
        sd = _poly_sign(x.den)
        if sn is None or sd is None:
            return None
        return sn * sd

    def compare(self, a: RF, b: RF):
        if self.order is not None:
            r = self.order(a, b)
            if r is not None:
                return r
        d = a - b
        s = self.sign_of(d)
        if s is None:
            raise NFUnsupported("cannot order %r and %r" % (a, b))
        return s

    def _select(self, test, x, y):
        t = test
        neg = False
        while isinstance(t, ast.UnaryOp) and isinstance(t.op, ast.Not):
            neg, t = not neg, t.operand
        if not (isinstance(t, ast.Compare) and len(t.ops) == 1):
            raise NFUnsupported("selector is not a single comparison")
        a, b = self.tr(t.left), self.tr(t.comparators[0])
        c = self.compare(a, b)
        op = type(t.ops[0])
        val = {ast.Lt: c < 0, ast.LtE: c <= 0, ast.Gt: c > 0, ast.GtE: c >= 0, ast.Eq: c == 0,
               ast.NotEq: c != 0}.get(op)
        if val is None:
            raise NFUnsupported("comparison operator")
        if neg:
            val = not val
        return self.tr(x) if val else self.tr(y)

    def _transcendental(self, fn, x: RF):
        base10 = fn in LOG10
        if fn in LOG10 + LOG:
            name = "log10" if base10 else "log"
            if x.den.as_const() is None:
                return self._transcendental(fn, RF(x.num)) - self._transcendental(fn, RF(x.den))
            st = x.num.single_term()
            c = x.den.as_const()
            if st is None:
                return RF(Poly.sym((name, x.num.scale(1 / c))))
            m, coef = st
            coef = coef / c
            out = RF.const(0)
            if coef <= 0:
                raise NFUnsupported("log of non-positive")
            for n, sgn in ((coef.numerator, 1), (coef.denominator, -1)):
                for prime, k in _primes(n).items():
                    out = out + RF(Poly.sym((name, ("num", prime)))).__mul__(RF.const(sgn * k))
            for a, e in m:
                out = out + RF(_as_poly(e)) * RF(Poly.sym((name, a)))
            if base10:
                # log10(2) + log10(5) = 1
                l2 = RF(Poly.sym((name, ("num", 2))))
                out = _subst_atom(out, (name, ("num", 5)), RF.const(1) - l2)
            return out
        raise NFUnsupported("exp() not in the fragment")


def _subst_atom(r: RF, atom, repl: RF):
    def sub_poly(p):
        out = RF.const(0)
        for m, c in p.terms.items():
            term = RF.const(c)
            for a, e in m:
                if a == atom:
                    term = term * repl.pow(RF(_as_poly(e)))
                else:
                    term = term * RF(Poly({((a, e),): Fraction(1)}))
            out = out + term
        return out
    return sub_poly(r.num) / sub_poly(r.den)


def _poly_sign(p: Poly):
    """+1/-1 if all coefficients share a sign (symbols positive), 0 if zero, else None."""
    if p.is_zero():
        return 0
    signs = {1 if c > 0 else -1 for c in p.terms.values()}
    if len(signs) == 1:
        return signs.pop()
    return None


def to_nf(expr, atom=None, env=None, strip=None, **kw):
    return Translator(atom=atom, env=env, strip=strip, **kw).tr(expr)


NF = RF
