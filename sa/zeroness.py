"""Zeroness abstract interpretation (design §11.1): is a residual defined where one of its inputs is zero?

Values: "Z" (identically zero), "NZ" (never zero), "ANY".  A function body is evaluated statement by statement (both arms of
an `if` are evaluated and joined; loops are not supported), calls of methods of the same object and of objects held in
attributes whose class is known (`attr_classes`) are evaluated in the callee.  Every division whose divisor is "Z" is
recorded as an event.  The domain is deliberately small: it decides the question "does this expression divide by something
that vanishes identically when the given input is zero" and nothing else; anything it does not understand is "ANY" (no
event), so the analysis never reports a division it cannot justify.
"""
from __future__ import annotations

import ast

from .astutil import call_name, const_value, is_self_attr

Z, NZ, ANY = "Z", "NZ", "ANY"
KEEP_ZERO_FUNCS = {"np.abs", "np.fabs", "abs", "np.sign", "np.asarray", "np.array", "np.sqrt", "np.sin", "np.tan", "np.arctan",
                   "np.arcsin", "np.sinh", "np.tanh", "np.negative", "float", "np.float64", "np.square", "np.cbrt"}
NONZERO_AT_ZERO = {"np.cos", "np.exp", "np.cosh"}        # f(0) != 0
KEEP_ZERO_METHODS = {"astype", "copy", "to_numpy", "abs", "values", "ravel", "flatten", "reshape", "squeeze"}


def join(a, b):
    if isinstance(a, tuple) and isinstance(b, tuple) and len(a) == len(b):
        return tuple(join(x, y) for x, y in zip(a, b))
    return a if a == b else ANY


class Zeroness:
    def __init__(self, prog, nonzero_attrs=(), attr_classes=None, max_depth=6):
        self.prog = prog
        self.nonzero_attrs = set(nonzero_attrs)          # attributes of self known to be non-zero (positive parameters)
        self.attr_classes = attr_classes or {}           # attribute name -> ClassInfo of the object it holds
        self.max_depth = max_depth
        self.events = []                                 # (FuncInfo, node, text)

    # ------------------------------------------------------------------ functions
    def call(self, ci, fi, args, depth=0):
        """evaluate method `fi` of class `ci` with positional argument values (without self)"""
        if depth > self.max_depth:
            return ANY
        params = [p for p in fi.params if p != "self"]
        env = {p: (args[i] if i < len(args) else ANY) for i, p in enumerate(params)}
        ret = [None]
        self._block(ci, fi, fi.node.body, env, ret, depth)
        return ret[0] if ret[0] is not None else ANY

    def _block(self, ci, fi, body, env, ret, depth):
        for st in body:
            if isinstance(st, ast.Return):
                v = self.ev(ci, fi, st.value, env, depth) if st.value is not None else ANY
                ret[0] = v if ret[0] is None else join(ret[0], v)
                return
            if isinstance(st, ast.Assign):
                v = self.ev(ci, fi, st.value, env, depth)
                for t in st.targets:
                    self._bind(t, v, env)
            elif isinstance(st, ast.AugAssign) and isinstance(st.target, ast.Name):
                v = self.ev(ci, fi, ast.BinOp(left=ast.Name(id=st.target.id, ctx=ast.Load()), op=st.op, right=st.value), env, depth)
                env[st.target.id] = v
            elif isinstance(st, ast.If):
                e1, e2 = dict(env), dict(env)
                self._block(ci, fi, st.body, e1, ret, depth)
                self._block(ci, fi, st.orelse, e2, ret, depth)
                for k in set(e1) | set(e2):
                    env[k] = join(e1.get(k, ANY), e2.get(k, ANY))
            elif isinstance(st, (ast.With,)):
                self._block(ci, fi, st.body, env, ret, depth)
            elif isinstance(st, ast.Expr):
                self.ev(ci, fi, st.value, env, depth)
            elif isinstance(st, (ast.For, ast.While, ast.Try)):
                for n in ast.walk(st):
                    if isinstance(n, ast.Name) and isinstance(n.ctx, ast.Store):
                        env[n.id] = ANY

    def _bind(self, t, v, env):
        if isinstance(t, ast.Name):
            env[t.id] = v
        elif isinstance(t, (ast.Tuple, ast.List)):
            for i, e in enumerate(t.elts):
                self._bind(e, v[i] if isinstance(v, tuple) and i < len(v) else ANY, env)

    # ------------------------------------------------------------------ expressions
    def ev(self, ci, fi, e, env, depth):
        c = const_value(e)
        if isinstance(c, (int, float)) and not isinstance(c, bool):
            return Z if c == 0 else NZ
        if isinstance(e, ast.Name):
            return env.get(e.id, ANY)
        if isinstance(e, ast.Tuple):
            return tuple(self.ev(ci, fi, x, env, depth) for x in e.elts)
        if is_self_attr(e):
            return NZ if e.attr in self.nonzero_attrs else ANY
        if isinstance(e, ast.Attribute):
            if e.attr in KEEP_ZERO_METHODS or e.attr in ("T", "real"):
                return self.ev(ci, fi, e.value, env, depth)
            return ANY
        if isinstance(e, ast.UnaryOp) and isinstance(e.op, (ast.USub, ast.UAdd)):
            return self.ev(ci, fi, e.operand, env, depth)
        if isinstance(e, ast.BinOp):
            a, b = self.ev(ci, fi, e.left, env, depth), self.ev(ci, fi, e.right, env, depth)
            if isinstance(a, tuple) or isinstance(b, tuple):
                return ANY
            return self._binop(fi, e, e.op, a, b)
        if isinstance(e, ast.Subscript):
            v = self.ev(ci, fi, e.value, env, depth)
            if isinstance(v, tuple):
                i = const_value(e.slice)
                return v[i] if isinstance(i, int) and -len(v) <= i < len(v) else ANY
            return v if v == Z else ANY
        if isinstance(e, ast.IfExp):
            return join(self.ev(ci, fi, e.body, env, depth), self.ev(ci, fi, e.orelse, env, depth))
        if isinstance(e, ast.Call):
            return self._call(ci, fi, e, env, depth)
        return ANY

    def _binop(self, fi, node, op, a, b):
        if isinstance(op, ast.Mult):
            return Z if Z in (a, b) else (NZ if a == b == NZ else ANY)
        if isinstance(op, (ast.Div, ast.FloorDiv, ast.Mod)):
            if b == Z:
                self.events.append((fi, node, "%s with a divisor that is identically zero" % ast.unparse(node)[:90]))
                return ANY
            return Z if a == Z else (NZ if a == b == NZ and isinstance(op, ast.Div) else ANY)
        if isinstance(op, (ast.Add, ast.Sub)):
            if a == Z:
                return b
            if b == Z:
                return a
            return ANY
        if isinstance(op, ast.Pow):
            if a == Z:
                return Z if b == NZ else ANY           # 0 ** (non-zero, by assumption positive) = 0
            return NZ if a == NZ else ANY
        return ANY

    def _call(self, ci, fi, e, env, depth):
        fn = call_name(e) or ""
        args = [self.ev(ci, fi, a, env, depth) for a in e.args]
        if fn in ("np.divide", "np.true_divide") and len(args) >= 2:
            where = next((k.value for k in e.keywords if k.arg == "where"), None)
            out = next((k.value for k in e.keywords if k.arg == "out"), None)
            a, b = args[0], args[1]
            if where is None:
                return self._binop(fi, e, ast.Div(), a, b)
            # guarded division: where the guard fails the `out` value is kept
            guarded_nonzero = isinstance(where, ast.Compare) and len(where.ops) == 1 and \
                isinstance(where.ops[0], (ast.NotEq, ast.Gt, ast.Lt)) and const_value(where.comparators[0]) == 0 and \
                ast.unparse(where.left) == ast.unparse(e.args[1])
            if b == Z and not guarded_nonzero:
                self.events.append((fi, e, "%s divides by a quantity that is identically zero" % ast.unparse(e)[:90]))
                return ANY
            q = Z if (a == Z and b != Z) else ANY
            o = self.ev(ci, fi, out, env, depth) if out is not None else ANY
            if b == Z and guarded_nonzero:
                return o                                # the guard never passes: only the `out` values remain
            return join(q, o)
        if fn in ("np.multiply",) and len(args) >= 2:
            return self._binop(fi, e, ast.Mult(), args[0], args[1])
        if fn in ("np.power", "np.float_power", "pow") and len(args) == 2:
            return self._binop(fi, e, ast.Pow(), args[0], args[1])
        if fn in KEEP_ZERO_FUNCS and args:
            return args[0] if args[0] in (Z, NZ) else ANY
        if fn in NONZERO_AT_ZERO and args:
            return NZ if args[0] == Z else ANY
        if fn in ("np.ones_like", "np.ones"):
            return NZ
        if fn in ("np.zeros_like", "np.zeros"):
            return Z
        if fn in ("np.log", "np.log10"):
            return ANY
        f = e.func
        if isinstance(f, ast.Attribute):
            kwargs = {k.arg: self.ev(ci, fi, k.value, env, depth) for k in e.keywords if k.arg}
            target_ci = None
            if is_self_attr(f):
                target_ci = ci
            elif is_self_attr(f.value) and f.value.attr in self.attr_classes:
                target_ci = self.attr_classes[f.value.attr]
            if target_ci is not None:
                callee = self.prog.lookup_method(target_ci, f.attr)
                if callee is not None:
                    ps = [p for p in callee.params if p != "self"]
                    full = list(args) + [ANY] * max(0, len(ps) - len(args))
                    for k, v in kwargs.items():
                        if k in ps:
                            full[ps.index(k)] = v
                    inner = Zeroness(self.prog, self.nonzero_attrs, self.attr_classes, self.max_depth)
                    inner.events = self.events
                    # the callee's own positive parameters: every private attribute assigned from a constructor argument is
                    # treated like the caller's (same naming convention _E/_K/_n)
                    return inner.call(target_ci, callee, full, depth + 1)
                return ANY
            if f.attr in KEEP_ZERO_METHODS:
                return self.ev(ci, fi, f.value, env, depth)
        return ANY
