"""The stored seeded changes (/verif/seeded/<name>/patch.diff) as in-memory variants (design §11.3).

Each patch is applied to the *current* source text of /repo in memory (never to the working tree): for every hunk the
block of context+removed lines is located in the file (at the stated position or, failing that, at its unique
occurrence) and replaced by context+added lines.  A seed whose hunks no longer match is reported as skipped.  The
thorough tier of a property's check runs its own seeds: every seed must make the check report a new violation; a
seed marked obsolete in meta.json (the repaired tree made it harmless) must leave the findings unchanged.
"""
from __future__ import annotations

import glob
import json
import os
import re

from . import VERIF


class PatchDoesNotApply(Exception):
    pass


def parse_patch(text):
    """-> {path: [(old_lines, new_lines, old_start)]}"""
    files = {}
    cur = None
    hunk = None
    for line in text.splitlines():
        if line.startswith("diff --git"):
            cur = None
            hunk = None
            continue
        if line.startswith("+++ "):
            p = line[4:].strip()
            cur = p[2:] if p.startswith("b/") else p
            files.setdefault(cur, [])
            continue
        if line.startswith("--- ") or line.startswith("index ") or line.startswith("new file") or line.startswith("deleted file"):
            continue
        m = re.match(r"@@ -(\d+)(?:,(\d+))? \+(\d+)(?:,(\d+))? @@", line)
        if m and cur is not None:
            hunk = ([], [], int(m.group(1)))
            files[cur].append(hunk)
            continue
        if hunk is None:
            continue
        if line.startswith("\\"):
            continue
        tag, body = (line[0], line[1:]) if line else (" ", "")
        if tag == " ":
            hunk[0].append(body)
            hunk[1].append(body)
        elif tag == "-":
            hunk[0].append(body)
        elif tag == "+":
            hunk[1].append(body)
    return files


def apply_to_text(src, hunks):
    lines = src.split("\n")
    shift = 0
    for old, new, start in hunks:
        n = len(old)
        pos = None
        guess = start - 1 + shift
        if 0 <= guess <= len(lines) - n and lines[guess:guess + n] == old:
            pos = guess
        else:
            hits = [i for i in range(0, len(lines) - n + 1) if lines[i:i + n] == old]
            if len(hits) == 1:
                pos = hits[0]
            elif len(hits) > 1:
                pos = min(hits, key=lambda i: abs(i - guess))
        if pos is None:
            # tolerate trailing-whitespace differences
            strip = [x.rstrip() for x in old]
            hits = [i for i in range(0, len(lines) - n + 1) if [x.rstrip() for x in lines[i:i + n]] == strip]
            if len(hits) >= 1:
                pos = min(hits, key=lambda i: abs(i - guess))
        if pos is None:
            raise PatchDoesNotApply("hunk at line %d does not match the current source" % start)
        lines[pos:pos + n] = new
        shift += len(new) - n
    return "\n".join(lines)


def seeds_of(prop):
    out = []
    for d in sorted(glob.glob(os.path.join(VERIF, "seeded", prop + "-*"))):
        pf, mf = os.path.join(d, "patch.diff"), os.path.join(d, "meta.json")
        if not (os.path.exists(pf) and os.path.exists(mf)):
            continue
        meta = json.load(open(mf))
        out.append({"name": os.path.basename(d), "patch": open(pf).read(), "obsolete": meta.get("status") == "obsolete",
                    "summary": (meta.get("summary") or "")[:160],
                    "caught_by": meta.get("caught_by")})
    return out


def benign_all():
    """behaviour-preserving changes (/verif/benign/<name>/): every check must stay silent on every one of them"""
    out = []
    for d in sorted(glob.glob(os.path.join(VERIF, "benign", "C*-b*"))):
        pf, mf = os.path.join(d, "patch.diff"), os.path.join(d, "meta.json")
        if not (os.path.exists(pf) and os.path.exists(mf)):
            continue
        meta = json.load(open(mf))
        if meta.get("status") == "rejected":
            continue
        out.append({"name": os.path.basename(d), "patch": open(pf).read(), "obsolete": True,
                    "summary": (meta.get("summary") or "")[:120], "caught_by": None})
    return out


def overrides_for(prog, seed):
    """-> {repo-relative path: patched source}; raises PatchDoesNotApply"""
    out = {}
    for path, hunks in parse_patch(seed["patch"]).items():
        mods = [m for m in prog.modules.values() if m.path == path]
        if not mods:
            raise PatchDoesNotApply("file %s is not part of the analysed package" % path)
        out[path] = apply_to_text(mods[0].source if hasattr(mods[0], "source") else mods[0].src, hunks)
    return out
