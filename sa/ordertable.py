"""Order-table domain (design §2.4): a boolean combination of comparisons between a
small set of terms is evaluated on every weak ordering of those terms; two
predicates are equal iff their truth tables are.  Literal tolerances |x| <= 1e-9
are an infinitesimal epsilon with a recorded direction.  This evaluates one
branch condition as a formula; it does not run code."""
from __future__ import annotations

import ast
from fractions import Fraction

from .astutil import const_value
from .domains import weak_orderings
from .frontend import AnalysisError

MAX_TERMS = 5


class Pred:
    """Parsed predicate: tree of ('and', [..]) / ('or', [..]) / ('not', p) / ('cmp', op, (atom, eps), (atom, eps))
    / ('const', bool)."""

    def __init__(self, tree, atoms):
        self.tree = tree
        self.atoms = atoms

    def table(self, atoms=None):
        atoms = list(atoms if atoms is not None else sorted(self.atoms, key=repr))
        if len(atoms) > MAX_TERMS:
            raise AnalysisError("order table over %d terms exceeds the bound of %d" % (len(atoms), MAX_TERMS))
        rows = []
        for ranks in weak_orderings(len(atoms)) if atoms else [()]:
            val = dict(zip(atoms, ranks))
            rows.append(_eval(self.tree, val))
        return tuple(rows)


def _eval(t, val):
    k = t[0]
    if k == "const":
        return t[1]
    if k == "and":
        return all(_eval(x, val) for x in t[1])
    if k == "or":
        return any(_eval(x, val) for x in t[1])
    if k == "not":
        return not _eval(t[1], val)
    if k == "cmp":
        _, op, (a, ea), (b, eb) = t
        x = Fraction(val[a]) + Fraction(ea, 10) if a is not None else Fraction(ea, 10)
        y = Fraction(val[b]) + Fraction(eb, 10) if b is not None else Fraction(eb, 10)
        return {"<": x < y, "<=": x <= y, ">": x > y, ">=": x >= y, "==": x == y, "!=": x != y}[op]
    raise AnalysisError("bad predicate node %r" % (k,))


OPS = {ast.Lt: "<", ast.LtE: "<=", ast.Gt: ">", ast.GtE: ">=", ast.Eq: "==", ast.NotEq: "!="}


def split_eps(e):
    """x + 1e-12 -> (x, +1); x - 1e-12 -> (x, -1); x -> (x, 0)"""
    if isinstance(e, ast.BinOp) and isinstance(e.op, (ast.Add, ast.Sub)):
        c = const_value(e.right)
        if isinstance(c, (int, float)) and not isinstance(c, bool) and 0 < abs(c) <= 1e-9:
            sign = 1 if c > 0 else -1
            if isinstance(e.op, ast.Sub):
                sign = -sign
            inner, eps = split_eps(e.left)
            return inner, eps + sign
        c = const_value(e.left)
        if isinstance(c, (int, float)) and not isinstance(c, bool) and 0 < abs(c) <= 1e-9 and isinstance(e.op, ast.Add):
            inner, eps = split_eps(e.right)
            return inner, eps + (1 if c > 0 else -1)
    return e, 0


def parse_pred(e, atomize):
    """atomize(expr) -> hashable atom (or raises AnalysisError)."""
    atoms = set()

    def rec(x):
        if isinstance(x, ast.BoolOp):
            parts = [rec(v) for v in x.values]
            return ("and" if isinstance(x.op, ast.And) else "or", parts)
        if isinstance(x, ast.UnaryOp) and isinstance(x.op, ast.Not):
            return ("not", rec(x.operand))
        if isinstance(x, ast.Constant) and isinstance(x.value, bool):
            return ("const", x.value)
        if isinstance(x, ast.Call) and isinstance(x.func, ast.Attribute) and x.func.attr in ("logical_and", "logical_or") \
                and len(x.args) == 2:
            return ("and" if x.func.attr == "logical_and" else "or", [rec(x.args[0]), rec(x.args[1])])
        if isinstance(x, ast.Compare):
            parts = []
            left = x.left
            for op, right in zip(x.ops, x.comparators):
                o = OPS.get(type(op))
                if o is None:
                    raise AnalysisError("comparison operator %s not in the order-table fragment" % type(op).__name__)
                (le, leps), (re_, reps) = split_eps(left), split_eps(right)
                la, ra = atomize(le), atomize(re_)
                atoms.add(la)
                atoms.add(ra)
                parts.append(("cmp", o, (la, leps), (ra, reps)))
                left = right
            return parts[0] if len(parts) == 1 else ("and", parts)
        raise AnalysisError("predicate node %s not in the order-table fragment" % type(x).__name__)
    tree = rec(e)
    return Pred(tree, atoms)


def equal_preds(p: Pred, q: Pred):
    atoms = sorted(p.atoms | q.atoms, key=repr)
    return p.table(atoms) == q.table(atoms), atoms


def first_difference(p: Pred, q: Pred):
    atoms = sorted(p.atoms | q.atoms, key=repr)
    for ranks in weak_orderings(len(atoms)):
        val = dict(zip(atoms, ranks))
        a, b = _eval(p.tree, val), _eval(q.tree, val)
        if a != b:
            return {repr(k): v for k, v in val.items()}, a, b
    return None
