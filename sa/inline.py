"""Helper inlining (design §11.1, added after the behaviour-preserving round).

"Extract method" is the most common refactoring: a piece of a function moves into a private helper (a method of the same
object, a static method, a module-level function).  Rules that read the shape of one function lose their anchor.  This module
produces, for a function, an equivalent function in which calls of small private helpers are expanded in place, so that a rule
that does not find its pattern in `fi.node` can look again in `inlined(prog, fi).node`.

Supported call positions:
  * `self._h(a, b)` / `_h(a, b)` / `Cls._h(a, b)` as an expression statement     -> the helper's body, `return` dropped;
  * `x = <helper call>`, `x, y = <helper call>`, `return <helper call>`           -> the helper's body, its final
    `return E` turned into the assignment / return (only helpers whose single return is their last statement);
  * a helper that consists of `return E` only, anywhere inside an expression      -> E.
Parameters are substituted by the argument expressions (keywords and defaults included); the helper's own locals are
renamed `<name>__<helper>` so they cannot capture the caller's names.  Only helpers whose name starts with an underscore, that
are not recursive, have no *args/**kwargs, no nested functions and at most MAX_STMTS statements are expanded, DEPTH levels
deep.  Line numbers of the helper's statements are kept (reports then point into the helper).
"""
from __future__ import annotations

import ast
import copy

from .astutil import clone, subst_names
from .frontend import set_parents

MAX_STMTS = 40
DEPTH = 2
_COUNTER = [0]


def _docstring_free(body):
    if body and isinstance(body[0], ast.Expr) and isinstance(body[0].value, ast.Constant) and isinstance(body[0].value.value, str):
        return body[1:]
    return body


def _bind_args(callee, call):
    """param name -> argument expression, or None if the call cannot be bound"""
    a = callee.node.args
    if a.vararg or a.kwarg or a.posonlyargs:
        return None
    decos = {getattr(d, "id", getattr(d, "attr", "")) for d in callee.node.decorator_list}
    names = [x.arg for x in a.args]
    if names and names[0] in ("self", "cls") and "staticmethod" not in decos:
        names = names[1:]
    kwonly = [x.arg for x in a.kwonlyargs]
    out = {}
    if len(call.args) > len(names) or any(isinstance(x, ast.Starred) for x in call.args):
        return None
    for n, v in zip(names, call.args):
        out[n] = v
    for k in call.keywords:
        if k.arg is None or k.arg in out or k.arg not in names + kwonly:
            return None
        out[k.arg] = k.value
    defaults = dict(zip(names[len(names) - len(a.defaults):], a.defaults))
    for n, d in zip(kwonly, a.kw_defaults):
        if d is not None:
            defaults[n] = d
    for n in names + kwonly:
        if n not in out:
            if n not in defaults:
                return None
            out[n] = defaults[n]
    return out


def _eligible(callee):
    n = callee.node
    if not isinstance(n, ast.FunctionDef) or not callee.name.startswith("_") or callee.name.startswith("__"):
        return False
    body = _docstring_free(n.body)
    count = sum(1 for x in ast.walk(n) if isinstance(x, ast.stmt)) - 1
    if count > MAX_STMTS or not body:
        return False
    for x in ast.walk(n):
        if isinstance(x, (ast.Yield, ast.YieldFrom, ast.Global, ast.Nonlocal, ast.ClassDef)):
            return False
    return True


def _helper_body(callee, call):
    """(statements, return expression or None) of the helper with parameters substituted and locals renamed; None if the
    helper's returns are not of the supported form (a single `return` as the last statement, or none)"""
    binding = _bind_args(callee, call)
    if binding is None:
        return None
    body = _docstring_free(callee.node.body)
    nested = [x for x in ast.walk(callee.node) if isinstance(x, (ast.FunctionDef, ast.Lambda)) and x is not callee.node]
    inner_nodes = {id(y) for x in nested for y in ast.walk(x)}
    rets = [x for x in ast.walk(callee.node) if isinstance(x, ast.Return) and id(x) not in inner_nodes]
    tail = None
    if rets:
        if len(rets) != 1 or rets[0] is not body[-1]:
            return None
        tail = rets[0].value
        body = body[:-1]
    params = set(binding)
    locals_ = set()
    for x in ast.walk(callee.node):
        if isinstance(x, ast.Name) and isinstance(x.ctx, (ast.Store, ast.Del)) and x.id not in params and id(x) not in inner_nodes:
            locals_.add(x.id)
        if isinstance(x, ast.FunctionDef) and x is not callee.node and x in callee.node.body:
            locals_.add(x.name)
    # a parameter that is re-assigned in the helper becomes a local initialised with the argument
    reassigned = {x.id for x in ast.walk(callee.node) if isinstance(x, ast.Name) and isinstance(x.ctx, ast.Store) and x.id in params}
    _COUNTER[0] += 1
    suffix = "__%s_%d" % (callee.name.strip("_"), _COUNTER[0])
    mapping = {n: ast.Name(id=n + suffix, ctx=ast.Load()) for n in locals_ | reassigned}
    pre = []
    for n in sorted(reassigned):
        pre.append(ast.Assign(targets=[ast.Name(id=n + suffix, ctx=ast.Store())], value=clone(binding[n]), lineno=call.lineno,
                              col_offset=0))
    mapping.update({n: v for n, v in binding.items() if n not in reassigned})

    def rewrite(node):
        node = clone(node)
        # stores: rename in place
        for x in ast.walk(node):
            if isinstance(x, ast.Name) and isinstance(x.ctx, (ast.Store, ast.Del)) and x.id in (locals_ | reassigned):
                x.id = x.id + suffix
            if isinstance(x, ast.FunctionDef) and x.name in locals_:
                x.name = x.name + suffix
        return subst_names(node, mapping)
    stmts = pre + [rewrite(s) for s in body]
    ret = rewrite(tail) if tail is not None else None
    return stmts, ret


def inlined(prog, fi, depth=DEPTH, skip=()):
    """a FuncInfo like `fi` whose node has the calls of small private helpers expanded (see module docstring); helpers named
    in `skip` stay calls"""
    cache = prog.__dict__.setdefault("_inlined_cache", {})
    key = (fi.key, depth, tuple(sorted(skip)))
    if key in cache:
        return cache[key]
    node = clone(fi.node)
    changed = [False]
    _COUNTER[0] = 0

    def resolve(call, stack):
        if not isinstance(call, ast.Call):
            return None
        for k in prog.resolve_call(fi, call):
            callee = prog.functions.get(k)
            if callee is not None and callee.key != fi.key and callee.key not in stack and callee.name not in skip and \
                    _eligible(callee):
                return callee
        return None

    def expand_block(body, level, stack):
        out = []
        for st in body:
            for fld in ("body", "orelse", "finalbody"):
                if isinstance(getattr(st, fld, None), list) and not isinstance(st, (ast.FunctionDef, ast.ClassDef)):
                    setattr(st, fld, expand_block(getattr(st, fld), level, stack))
            if isinstance(st, ast.Try):
                for h in st.handlers:
                    h.body = expand_block(h.body, level, stack)
            call = None
            if isinstance(st, ast.Expr) and isinstance(st.value, ast.Call):
                call = st.value
            elif isinstance(st, (ast.Assign, ast.Return, ast.AnnAssign)) and isinstance(getattr(st, "value", None), ast.Call):
                call = st.value
            callee = resolve(call, stack) if call is not None and level > 0 else None
            hb = _helper_body(callee, call) if callee is not None else None
            if hb is not None:
                stmts, ret = hb
                stmts = expand_block(stmts, level - 1, stack | {callee.key})
                if isinstance(st, ast.Expr):
                    out.extend(stmts)
                    changed[0] = True
                    continue
                if ret is not None:
                    new = clone(st)
                    new.value = ret
                    out.extend(stmts)
                    out.append(new)
                    changed[0] = True
                    continue
            # single-expression helpers nested inside an expression
            if level > 0:
                st = expand_exprs(st, level, stack)
            out.append(st)
        return out

    def expand_exprs(st, level, stack):
        class T(ast.NodeTransformer):
            def visit_Call(self, c):
                self.generic_visit(c)
                callee = resolve(c, stack)
                if callee is None:
                    return c
                body = _docstring_free(callee.node.body)
                if len(body) == 1 and isinstance(body[0], ast.Return) and body[0].value is not None:
                    hb = _helper_body(callee, c)
                    if hb is not None and not hb[0] and hb[1] is not None:
                        changed[0] = True
                        return hb[1]
                return c

            def visit_FunctionDef(self, n):
                return n
        if isinstance(st, (ast.FunctionDef, ast.ClassDef)):
            return st
        return T().visit(st)
    node.body = expand_block(node.body, depth, frozenset([fi.key]))
    if not changed[0]:
        cache[key] = fi
        return fi
    ast.fix_missing_locations(node)
    set_parents(node)
    fi2 = copy.copy(fi)
    fi2.node = node
    cache[key] = fi2
    return fi2
