"""Helper inlining (design §11.1, added after the behaviour-preserving round).

"Extract method" is the most common refactoring: a piece of a function moves into a private helper (a method of the same
object, a static method, a module-level function).  Rules that read the shape of one function lose their anchor.  This module
produces, for a function, an equivalent function in which calls of small private helpers are expanded in place, so that a rule
that does not find its pattern in `fi.node` can look again in `inlined(prog, fi).node`.

Supported call positions:
  * `self._h(a, b)` / `_h(a, b)` / `Cls._h(a, b)` as an expression statement     -> the helper's body, `return` dropped;
  * `x = <helper call>`, `x, y = <helper call>`, `return <helper call>`           -> the helper's body, its final
    `return E` turned into the assignment / return (only helpers whose single return is their last statement);
  * a helper that consists of `return E` only, anywhere inside an expression      -> E.
Parameters are substituted by the argument expressions (keywords and defaults included); the helper's own locals are
renamed `<name>__<helper>` so they cannot capture the caller's names.  Only helpers whose name starts with an underscore, that
are not recursive, have no *args/**kwargs, no nested functions and at most MAX_STMTS statements are expanded, DEPTH levels
deep.  Line numbers of the helper's statements are kept (reports then point into the helper).
"""
from __future__ import annotations

import ast
import copy

from .astutil import clone, subst_names
from .frontend import set_parents

MAX_STMTS = 40
DEPTH = 2
_COUNTER = [0]


def _docstring_free(body):
    if body and isinstance(body[0], ast.Expr) and isinstance(body[0].value, ast.Constant) and isinstance(body[0].value.value, str):
        return body[1:]
    return body


def _bind_args(callee, call):
    """param name -> argument expression, or None if the call cannot be bound"""
    a = callee.node.args
    if a.vararg or a.kwarg or a.posonlyargs:
        return None
    decos = {getattr(d, "id", getattr(d, "attr", "")) for d in callee.node.decorator_list}
    names = [x.arg for x in a.args]
    if names and names[0] in ("self", "cls") and "staticmethod" not in decos:
        names = names[1:]
    kwonly = [x.arg for x in a.kwonlyargs]
    out = {}
    if len(call.args) > len(names) or any(isinstance(x, ast.Starred) for x in call.args):
        return None
    for n, v in zip(names, call.args):
        out[n] = v
    for k in call.keywords:
        if k.arg is None or k.arg in out or k.arg not in names + kwonly:
            return None
        out[k.arg] = k.value
    defaults = dict(zip(names[len(names) - len(a.defaults):], a.defaults))
    for n, d in zip(kwonly, a.kw_defaults):
        if d is not None:
            defaults[n] = d
    for n in names + kwonly:
        if n not in out:
            if n not in defaults:
                return None
            out[n] = defaults[n]
    return out


def _eligible(callee, nested_in=None):
    n = callee.node
    private = callee.name.startswith("_") and not callee.name.startswith("__")
    closure = nested_in is not None and getattr(callee, "parent", None) is not None and callee.parent.key == nested_in.key
    if not isinstance(n, ast.FunctionDef) or not (private or closure):
        return False
    body = _docstring_free(n.body)
    count = sum(1 for x in ast.walk(n) if isinstance(x, ast.stmt)) - 1
    if count > MAX_STMTS or not body:
        return False
    for x in ast.walk(n):
        if isinstance(x, (ast.Yield, ast.YieldFrom, ast.Global, ast.Nonlocal, ast.ClassDef)):
            return False
    return True


def _fold_const(e):
    """'S11'.lower() -> 's11' and the like (methods of string constants without arguments)"""
    if isinstance(e, ast.Call) and isinstance(e.func, ast.Attribute) and isinstance(e.func.value, ast.Constant) and \
            isinstance(e.func.value.value, str) and not e.args and not e.keywords and \
            e.func.attr in ("lower", "upper", "strip", "capitalize", "title", "casefold"):
        return ast.copy_location(ast.Constant(value=getattr(e.func.value.value, e.func.attr)()), e)
    return e


def _returns_outside_nested(fn):
    nested = [x for x in ast.walk(fn) if isinstance(x, (ast.FunctionDef, ast.Lambda)) and x is not fn]
    inner = {id(y) for x in nested for y in ast.walk(x)}
    return [x for x in ast.walk(fn) if isinstance(x, ast.Return) and id(x) not in inner]


def _single_exit(body, make, on_raise=None):
    """`body` with every `return E` replaced by the statements `make(E)` (E may be None) and the code behind an
    `if ...: return` moved into the else branch, so that control leaves the block at its end only.  Supported: returns that
    are the last statement of the function body or of an if/else arm (nested).  None when a return sits anywhere else (loop,
    try, with, not last)."""
    out = []
    for i, st in enumerate(body):
        rest = body[i + 1:]
        if isinstance(st, ast.Return):
            if rest:
                return None
            out.extend(make(st.value))
            return out
        if isinstance(st, ast.Raise) and on_raise is not None:
            out.extend(on_raise(st))
            return out
        has_ret = any(isinstance(x, ast.Return) or (on_raise is not None and isinstance(x, ast.Raise)) for x in ast.walk(st)) \
            and not isinstance(st, (ast.FunctionDef, ast.ClassDef))
        if not has_ret:
            out.append(st)
            continue
        if not isinstance(st, ast.If):
            return None

        def ends(block):
            return bool(block) and (isinstance(block[-1], ast.Return) or (isinstance(block[-1], ast.If) and block[-1].orelse and
                                                                          ends(block[-1].body) and ends(block[-1].orelse)) or
                                    isinstance(block[-1], ast.Raise))
        b_ends, o_ends = ends(st.body), ends(st.orelse)
        new = clone(st)
        if b_ends and o_ends:
            nb, no = _single_exit(st.body, make, on_raise), _single_exit(st.orelse, make, on_raise)
            if nb is None or no is None or rest:
                return None
            new.body, new.orelse = nb or [ast.Pass()], no
            out.append(new)
            return out
        if b_ends:
            nb = _single_exit(st.body, make, on_raise)
            no = _single_exit(list(st.orelse) + list(rest), make, on_raise)
        elif o_ends:
            nb = _single_exit(list(st.body) + list(rest), make, on_raise)
            no = _single_exit(st.orelse, make, on_raise)
        else:
            # some path through each arm goes on: the rest of the block is duplicated behind both arms
            if sum(1 for x in rest for _ in ast.walk(x)) > 400:
                return None
            nb = _single_exit(list(st.body) + [clone(x) for x in rest], make, on_raise)
            no = _single_exit(list(st.orelse) + list(rest), make, on_raise)
        if nb is None or no is None:
            return None
        new.body, new.orelse = nb or [ast.Pass()], no
        out.append(new)
        return out
    out.extend(make(None) if make is not None else [])
    return out


def _prepare(callee, call):
    """(body statements, initialising statements, rewrite function) of the helper for this call: parameters substituted,
    locals renamed; None if the call cannot be bound"""
    binding = _bind_args(callee, call)
    if binding is None:
        return None
    body = _docstring_free(callee.node.body)
    nested = [x for x in ast.walk(callee.node) if isinstance(x, (ast.FunctionDef, ast.Lambda)) and x is not callee.node]
    inner_nodes = {id(y) for x in nested for y in ast.walk(x)}
    params = set(binding)
    locals_ = set()
    for x in ast.walk(callee.node):
        if isinstance(x, ast.Name) and isinstance(x.ctx, (ast.Store, ast.Del)) and x.id not in params and id(x) not in inner_nodes:
            locals_.add(x.id)
        if isinstance(x, ast.FunctionDef) and x is not callee.node and x in callee.node.body:
            locals_.add(x.name)
    # a parameter that is re-assigned in the helper becomes a local initialised with the argument
    reassigned = {x.id for x in ast.walk(callee.node) if isinstance(x, ast.Name) and isinstance(x.ctx, ast.Store) and x.id in params}
    _COUNTER[0] += 1
    suffix = "__%s_%d" % (callee.name.strip("_"), _COUNTER[0])
    mapping = {n: ast.Name(id=n + suffix, ctx=ast.Load()) for n in locals_ | reassigned}
    pre = []
    for n in sorted(reassigned):
        pre.append(ast.Assign(targets=[ast.Name(id=n + suffix, ctx=ast.Store())], value=clone(binding[n]), lineno=call.lineno,
                              col_offset=0))
    mapping.update({n: v for n, v in binding.items() if n not in reassigned})

    def rewrite(node):
        node = clone(node)
        # stores: rename in place
        for x in ast.walk(node):
            if isinstance(x, ast.Name) and isinstance(x.ctx, (ast.Store, ast.Del)) and x.id in (locals_ | reassigned):
                x.id = x.id + suffix
            if isinstance(x, ast.FunctionDef) and x.name in locals_:
                x.name = x.name + suffix
        return subst_names(node, mapping)
    return body, pre, rewrite


def _helper_body(callee, call):
    """(statements, return expression or None) of the helper with parameters substituted and locals renamed; None if the
    helper's returns are not of the supported form (a single `return` as the last statement, or none)"""
    rets = _returns_outside_nested(callee.node)
    body = _docstring_free(callee.node.body)
    if rets and (len(rets) != 1 or rets[0] is not body[-1]):
        return None
    prep = _prepare(callee, call)
    if prep is None:
        return None
    body, pre, rewrite = prep
    tail = None
    if rets:
        tail = rets[0].value
        body = body[:-1]
    stmts = pre + [rewrite(s) for s in body]
    ret = rewrite(tail) if tail is not None else None
    return stmts, ret


def _helper_body_multi(callee, call, st):
    """statements that replace the caller's statement `st` (an assignment / return / expression statement whose value is
    `call`) for a helper with several returns in if/else arms (early returns): the helper's body in single-exit form with each
    `return E` turned into `st` with value E.  None if not of that form."""
    prep = _prepare(callee, call)
    if prep is None:
        return None
    body, pre, rewrite = prep

    def make(e):
        if isinstance(st, ast.Expr):
            return []
        new = clone(st)
        new.value = e if e is not None else ast.Constant(value=None)
        return [new]
    body = [rewrite(s) for s in body]
    out = _single_exit(body, make)
    if out is None:
        return None
    if isinstance(st, ast.Expr) is False and not _returns_outside_nested(callee.node):
        return None
    return pre + out


def inlined(prog, fi, depth=DEPTH, skip=()):
    """a FuncInfo like `fi` whose node has the calls of small private helpers expanded (see module docstring); helpers named
    in `skip` stay calls"""
    cache = prog.__dict__.setdefault("_inlined_cache", {})
    key = (fi.key, depth, tuple(sorted(skip)))
    if key in cache:
        return cache[key]
    node = clone(fi.node)
    changed = [False]
    _COUNTER[0] = 0

    def resolve(call, stack):
        if not isinstance(call, ast.Call):
            return None
        for k in prog.resolve_call(fi, call):
            callee = prog.functions.get(k)
            if callee is not None and callee.key != fi.key and callee.key not in stack and callee.name not in skip and \
                    _eligible(callee, fi):
                return callee
        return None

    def hoist_nested(body, level, stack):
        """`<stmt using helper(...) inside a larger expression>`  ->  `t = helper(...)` ; `<stmt using t>`  for helpers that
        need statements (the call is evaluated before the rest of the simple statement can observe anything it changes)"""
        out = []
        for st in body:
            if level > 0 and isinstance(st, (ast.Assign, ast.Return, ast.Expr, ast.AugAssign)) and getattr(st, "value", None) is not None:
                top = st.value
                for c in [x for x in ast.walk(top) if isinstance(x, ast.Call) and x is not top]:
                    callee = resolve(c, stack)
                    if callee is None:
                        continue
                    body_ = _docstring_free(callee.node.body)
                    if len(body_) == 1 and isinstance(body_[0], ast.Return):
                        continue                               # single-expression helpers are expanded in place
                    # not under a lambda / comprehension / conditional evaluation
                    p_, ok_ = getattr(c, "_parent", None), True
                    while p_ is not None and p_ is not st:
                        if isinstance(p_, (ast.Lambda, ast.ListComp, ast.SetComp, ast.DictComp, ast.GeneratorExp, ast.IfExp, ast.BoolOp)):
                            ok_ = False
                        p_ = getattr(p_, "_parent", None)
                    if not ok_ or p_ is None:
                        continue
                    _COUNTER[0] += 1
                    tmp = "inl__%s_%d" % (callee.name.strip("_"), _COUNTER[0])
                    from .canon import _replace
                    if _replace(st, c, ast.copy_location(ast.Name(id=tmp, ctx=ast.Load()), c)):
                        out.append(ast.copy_location(ast.Assign(targets=[ast.Name(id=tmp, ctx=ast.Store())], value=c), st))
                        changed[0] = True
            if level > 0 and isinstance(st, ast.If):
                # `if helper(...):`  ->  `t = helper(...)` ; `if t:`   (the test of an if statement is evaluated exactly once,
                # before anything of its branches; calls under and / or / conditional expressions stay where they are)
                for c in [x for x in ast.walk(st.test) if isinstance(x, ast.Call)]:
                    callee = resolve(c, stack)
                    if callee is None:
                        continue
                    p_, ok_ = c, True
                    while p_ is not st.test and p_ is not None:
                        p_ = getattr(p_, "_parent", None)
                        if isinstance(p_, (ast.Lambda, ast.ListComp, ast.SetComp, ast.DictComp, ast.GeneratorExp, ast.IfExp, ast.BoolOp)):
                            ok_ = False
                    if not ok_:
                        continue
                    _COUNTER[0] += 1
                    tmp = "inl__%s_%d" % (callee.name.strip("_"), _COUNTER[0])
                    name = ast.copy_location(ast.Name(id=tmp, ctx=ast.Load()), c)
                    if c is st.test:
                        st.test = name
                        done = True
                    else:
                        from .canon import _replace
                        done = _replace(st.test, c, name)
                    if done:
                        out.append(ast.copy_location(ast.Assign(targets=[ast.Name(id=tmp, ctx=ast.Store())], value=c), st))
                        changed[0] = True
            out.append(st)
        return out

    def expand_block(body, level, stack):
        out = []
        set_parents(ast.Module(body=list(body), type_ignores=[]))
        body = hoist_nested(body, level, stack)
        for st in body:
            for fld in ("body", "orelse", "finalbody"):
                if isinstance(getattr(st, fld, None), list) and not isinstance(st, (ast.FunctionDef, ast.ClassDef)):
                    setattr(st, fld, expand_block(getattr(st, fld), level, stack))
            if isinstance(st, ast.Try):
                for h in st.handlers:
                    h.body = expand_block(h.body, level, stack)
            call = None
            if isinstance(st, ast.Expr) and isinstance(st.value, ast.Call):
                call = st.value
            elif isinstance(st, (ast.Assign, ast.Return, ast.AnnAssign)) and isinstance(getattr(st, "value", None), ast.Call):
                call = st.value
            callee = resolve(call, stack) if call is not None and level > 0 else None
            hb = _helper_body(callee, call) if callee is not None else None
            if callee is not None and hb is None:
                multi = _helper_body_multi(callee, call, st)
                if multi is not None:
                    out.extend(expand_block(multi, level - 1, stack | {callee.key}))
                    changed[0] = True
                    continue
            if hb is not None:
                stmts, ret = hb
                stmts = expand_block(stmts, level - 1, stack | {callee.key})
                if isinstance(st, ast.Expr):
                    out.extend(stmts)
                    changed[0] = True
                    continue
                if ret is not None:
                    new = clone(st)
                    new.value = ret
                    if level > 1:
                        new = expand_exprs(new, level - 1, stack | {callee.key})
                    out.extend(stmts)
                    out.append(new)
                    changed[0] = True
                    continue
            # single-expression helpers nested inside an expression
            if level > 0:
                st = expand_exprs(st, level, stack)
            out.append(st)
        return out

    def expand_exprs(st, level, stack):
        class T(ast.NodeTransformer):
            def visit_Call(self, c):
                self.generic_visit(c)
                callee = resolve(c, stack)
                if callee is None:
                    return c
                body = _docstring_free(callee.node.body)
                if len(body) == 1 and isinstance(body[0], ast.Return) and body[0].value is not None:
                    hb = _helper_body(callee, c)
                    if hb is not None and not hb[0] and hb[1] is not None:
                        changed[0] = True
                        return hb[1]
                return c

            def visit_FunctionDef(self, n):
                return n
        if isinstance(st, (ast.FunctionDef, ast.ClassDef)):
            return st
        return T().visit(st)
    node.body = expand_block(node.body, depth, frozenset([fi.key]))
    if changed[0]:
        # {k(c): v(c) for c in (<literals>)} -> {k(c1): v(c1), ...} with constant string methods folded (a keyword dictionary
        # built by a comprehension over the column names)
        class _ExpandDictComp(ast.NodeTransformer):
            def visit_DictComp(self, dc):
                self.generic_visit(dc)
                if len(dc.generators) != 1 or dc.generators[0].ifs or not isinstance(dc.generators[0].target, ast.Name):
                    return dc
                it_ = dc.generators[0].iter
                if not (isinstance(it_, (ast.Tuple, ast.List)) and it_.elts and all(isinstance(x, ast.Constant) for x in it_.elts)):
                    return dc
                var = dc.generators[0].target.id
                keys, vals = [], []
                for c_ in it_.elts:
                    k_ = _fold_const(subst_names(dc.key, {var: c_}))
                    v_ = subst_names(dc.value, {var: c_})
                    keys.append(k_)
                    vals.append(v_)
                return ast.copy_location(ast.Dict(keys=keys, values=vals), dc)
        node = _ExpandDictComp().visit(node)
        # f(**{'a': x, 'b': y}) (a helper that returned the keyword dictionary) -> f(a=x, b=y)
        for c in ast.walk(node):
            if isinstance(c, ast.Call):
                kws = []
                for k in c.keywords:
                    if k.arg is None and isinstance(k.value, ast.Dict) and k.value.keys and all(
                            isinstance(x, ast.Constant) and isinstance(x.value, str) and x.value.isidentifier() for x in k.value.keys):
                        kws.extend(ast.keyword(arg=x.value, value=v) for x, v in zip(k.value.keys, k.value.values))
                    else:
                        kws.append(k)
                c.keywords = kws
    if not changed[0]:
        cache[key] = fi
        return fi
    ast.fix_missing_locations(node)
    set_parents(node)
    fi2 = copy.copy(fi)
    fi2.node = node
    cache[key] = fi2
    return fi2
