"""Front end: loader, Cython desugarer, symbol tables, resolver, call graph.

Design §2.1.  Everything is keyed by ``"<module>:<qualname>"`` where qualname
is ``Class.method`` or ``func`` or ``func.inner`` for nested functions.
"""
from __future__ import annotations

import ast
import hashlib
import os
import re
import warnings
from dataclasses import dataclass, field

from . import REPO


class AnalysisError(Exception):
    """Anchor vanished / idiom not modelled / floor not met -> exit 2."""


# --------------------------------------------------------------------------- pyx

_CTYPE = (r"(?:unsigned\s+)?(?:double|float|int|long|short|char|size_t|Py_ssize_t|"
          r"bint|object|tuple|list|dict|str|bytes|void)\s*(?:\[[^\]]*\])?")


def desugar_pyx(src: str):
    """Turn the small Cython dialect used by extension.pyx into Python.

    Returns (python_source, ctypes) where ctypes maps a name (function-local,
    keyed ``func.name`` is not needed here since names are unique per kernel)
    to its declared C type.  Raises AnalysisError on anything not understood.
    Line numbers are preserved (one output line per input line).
    """
    out = []
    ctypes = {}
    lines = src.split("\n")
    i = 0
    # join continuation lines of def headers (parenthesis not closed)
    joined = []
    while i < len(lines):
        line = lines[i]
        stripped = line.strip()
        if re.match(r"(def|cpdef|cdef)\b.*\($|(def|cpdef|cdef)\b.*\(.*[^:]$", stripped) and \
                stripped.count("(") > stripped.count(")"):
            buf = line
            extra = 0
            while buf.count("(") > buf.count(")"):
                i += 1
                extra += 1
                buf = buf.rstrip() + " " + lines[i].strip()
            joined.append(buf)
            joined.extend([""] * extra)
        else:
            joined.append(line)
        i += 1
    for line in joined:
        stripped = line.strip()
        indent = line[: len(line) - len(line.lstrip())]
        if not stripped or stripped.startswith("#"):
            out.append(line)
            continue
        if re.match(r"cimport\b|from\s+\S+\s+cimport\b", stripped):
            m = re.match(r"from\s+\S+\s+cimport\s+(.*)", stripped)
            # keep cimported C functions as known names (fabs ...)
            out.append(indent + "pass" if indent else "")
            continue
        if stripped.startswith("@cython."):
            out.append("")
            continue
        m = re.match(r"(?:cpdef|cdef|def)\s+(?:inline\s+)?(?:" + _CTYPE + r"\s+)?(\w+)\s*\((.*)\)"
                     r"(?:\s+(?:noexcept|nogil|except\s*[-+*?\w]+))*\s*:\s*$", stripped)
        if m and re.match(r"(cpdef|cdef|def)\b", stripped):
            name, params = m.group(1), m.group(2)
            newparams = []
            for p in [q.strip() for q in params.split(",") if q.strip()]:
                pm = re.match(r"(" + _CTYPE + r")\s+(\w+)$", p)
                if pm:
                    ctypes[name + "." + pm.group(2)] = re.sub(r"\s+", " ", pm.group(1))
                    newparams.append(pm.group(2))
                elif re.match(r"\w+(\s*=.*)?$", p):
                    newparams.append(p)
                else:
                    raise AnalysisError("pyx desugar: parameter not understood: %r" % p)
            out.append("%sdef %s(%s):" % (indent, name, ", ".join(newparams)))
            continue
        m = re.match(r"cdef\s+(" + _CTYPE + r")\s+(\w+(?:\s*,\s*\w+)+)\s*$", stripped)
        if m:
            # cdef double a, b, c, d
            for nm in [x.strip() for x in m.group(2).split(",")]:
                ctypes[nm] = re.sub(r"\s+", " ", m.group(1))
            out.append(indent + "pass")
            continue
        m = re.match(r"cdef\s+(" + _CTYPE + r")\s+(\w+)\s*(=\s*(.*))?$", stripped)
        if m:
            ctypes[m.group(2)] = re.sub(r"\s+", " ", m.group(1))
            if m.group(3):
                out.append("%s%s = %s" % (indent, m.group(2), m.group(4)))
            else:
                out.append(indent + "pass")
            continue
        if stripped.startswith("cdef") or stripped.startswith("cpdef"):
            raise AnalysisError("pyx desugar: statement not understood: %r" % stripped)
        out.append(line)
    py = "\n".join(out)
    try:
        ast.parse(py)
    except SyntaxError as e:  # pragma: no cover
        raise AnalysisError("pyx desugar produced invalid python: %s" % e)
    return py, ctypes


# --------------------------------------------------------------------------- data


@dataclass
class Module:
    name: str
    path: str            # path relative to repo root
    source: str
    tree: ast.Module
    digest: str
    is_pyx: bool = False
    ctypes: dict = field(default_factory=dict)
    imports: dict = field(default_factory=dict)   # local alias -> dotted target


@dataclass
class FuncInfo:
    key: str
    module: Module
    qualname: str
    node: ast.AST            # FunctionDef / AsyncFunctionDef / Lambda
    cls: "ClassInfo | None" = None
    parent: "FuncInfo | None" = None   # enclosing function for nested defs

    @property
    def name(self):
        return self.qualname.split(".")[-1]

    @property
    def params(self):
        a = self.node.args
        return [x.arg for x in a.posonlyargs + a.args] + ([a.vararg.arg] if a.vararg else []) + \
            [x.arg for x in a.kwonlyargs] + ([a.kwarg.arg] if a.kwarg else [])

    def loc(self, node=None):
        n = node if node is not None else self.node
        return "%s:%d" % (self.module.path, getattr(n, "lineno", 0))

    def is_property(self):
        for d in getattr(self.node, "decorator_list", []):
            if isinstance(d, ast.Name) and d.id in ("property", "cached_property"):
                return True
            if isinstance(d, ast.Attribute) and d.attr == "cached_property":
                return True                     # functools.cached_property: read like a property
            if isinstance(d, ast.Attribute) and d.attr in ("setter", "getter"):
                return False
        return False

    def is_setter(self):
        for d in getattr(self.node, "decorator_list", []):
            if isinstance(d, ast.Attribute) and d.attr == "setter":
                return True
        return False


@dataclass
class ClassInfo:
    key: str
    module: Module
    name: str
    node: ast.ClassDef
    base_keys: list = field(default_factory=list)
    methods: dict = field(default_factory=dict)   # name -> list[FuncInfo] (definition order)
    accessor: "tuple | None" = None               # ('series'|'dataframe', name)


def set_parents(tree):
    for n in ast.walk(tree):
        for c in ast.iter_child_nodes(n):
            c._parent = n
    return tree


class Program:
    """The parsed package.  ``overrides`` maps repo-relative path -> source
    (used by in-memory witnesses; nothing is written to disk)."""

    PKG_DIR = "src/pylife"

    def __init__(self, root=REPO, overrides=None, base=None):
        self.root = root
        self.overrides = overrides or {}
        self._base = base
        self.modules: dict[str, Module] = {}
        self.functions: dict[str, FuncInfo] = {}
        self.classes: dict[str, ClassInfo] = {}
        self.accessors: dict[str, list] = {}      # accessor name -> [ClassInfo]
        self._subclasses: dict[str, list] = {}
        self._load()
        self._index()
        from .nf import register_helpers
        register_helpers(self)

    # ---------------------------------------------------------------- loading
    def _load(self):
        base = os.path.join(self.root, self.PKG_DIR)
        if not os.path.isdir(base):
            raise AnalysisError("package directory %s missing" % base)
        for dirpath, dirnames, filenames in os.walk(base):
            dirnames.sort()
            for fn in sorted(filenames):
                if not (fn.endswith(".py") or fn.endswith(".pyx")):
                    continue
                full = os.path.join(dirpath, fn)
                rel = os.path.relpath(full, self.root)
                if self._base is not None and rel not in self.overrides:
                    bm = [m for m in self._base.modules.values() if m.path == rel]
                    if bm:
                        self.modules[bm[0].name] = bm[0]
                        continue
                if rel in self.overrides:
                    src = self.overrides[rel]
                else:
                    with open(full, encoding="utf-8") as f:
                        src = f.read()
                modname = os.path.relpath(full, os.path.join(self.root, "src"))
                modname = re.sub(r"\.pyx?$", "", modname).replace(os.sep, ".")
                if modname.endswith(".__init__"):
                    modname = modname[: -len(".__init__")]
                is_pyx = fn.endswith(".pyx")
                ctypes = {}
                pysrc = src
                if is_pyx:
                    pysrc, ctypes = desugar_pyx(src)
                    if not ctypes and self._base is not None and modname in self._base.modules:
                        ctypes = self._base.modules[modname].ctypes
                try:
                    with warnings.catch_warnings():
                        warnings.simplefilter("ignore")
                        tree = ast.parse(pysrc, filename=rel)
                except SyntaxError as e:
                    raise AnalysisError("syntax error in %s: %s" % (rel, e))
                if os.environ.get("VERIF_CANON", "1") != "0":
                    from .canon import canonicalise
                    canonicalise(tree)                 # single-use temporaries folded into their use (sa/canon.py)
                set_parents(tree)
                self.modules[modname] = Module(
                    modname, rel, src, tree, hashlib.sha256(src.encode()).hexdigest()[:16],
                    is_pyx, ctypes)
                self.modules[modname].pysource = pysrc

    # ---------------------------------------------------------------- indexing
    def _index(self):
        for m in self.modules.values():
            self._index_imports(m)
            self._index_scope(m, m.tree.body, prefix="", cls=None, parent=None)
        # resolve bases
        for c in self.classes.values():
            for b in c.node.bases:
                k = self.resolve_expr_to_key(c.module, b)
                if k and k in self.classes:
                    c.base_keys.append(k)
                    self._subclasses.setdefault(k, []).append(c.key)
        # accessor registry
        for c in self.classes.values():
            for d in c.node.decorator_list:
                if isinstance(d, ast.Call):
                    fname = d.func.attr if isinstance(d.func, ast.Attribute) else \
                        (d.func.id if isinstance(d.func, ast.Name) else None)
                    if fname in ("register_series_accessor", "register_dataframe_accessor") and d.args \
                            and isinstance(d.args[0], ast.Constant):
                        kind = "series" if "series" in fname else "dataframe"
                        c.accessor = (kind, d.args[0].value)
                        lst = self.accessors.setdefault(d.args[0].value, [])
                        if c not in lst:
                            lst.append(c)

    def _index_imports(self, m: Module):
        pkg = m.name if m.path.endswith("__init__.py") else m.name.rsplit(".", 1)[0]
        for n in ast.walk(m.tree):
            if isinstance(n, ast.Import):
                for a in n.names:
                    if a.asname:
                        m.imports[a.asname] = a.name
                    else:
                        m.imports[a.name.split(".")[0]] = a.name.split(".")[0]
            elif isinstance(n, ast.ImportFrom):
                if n.level:
                    parts = pkg.split(".")
                    basep = parts[: len(parts) - (n.level - 1)]
                    mod = ".".join(basep + ([n.module] if n.module else []))
                else:
                    mod = n.module or ""
                for a in n.names:
                    m.imports[a.asname or a.name] = mod + "." + a.name

    def _index_scope(self, m, body, prefix, cls, parent):
        for n in body:
            if isinstance(n, (ast.FunctionDef, ast.AsyncFunctionDef)):
                qn = prefix + n.name
                key = m.name + ":" + qn
                fi = FuncInfo(key, m, qn, n, cls, parent)
                if cls is not None and parent is None:
                    cls.methods.setdefault(n.name, []).append(fi)
                    # the *last* definition wins at run time
                    # setters share the name; keep getter under key, setter under key+'@setter'
                    if fi.is_setter():
                        key = key + "@setter"
                        fi.key = key
                self.functions[key] = fi
                # nested defs
                self._index_scope(m, n.body, qn + ".", None, fi)
                self._index_nested_in_stmts(m, n.body, qn + ".", fi)
            elif isinstance(n, ast.ClassDef):
                ck = m.name + ":" + prefix + n.name
                ci = ClassInfo(ck, m, n.name, n)
                self.classes[ck] = ci
                self._index_scope(m, n.body, prefix + n.name + ".", ci, None)
            elif isinstance(n, (ast.If, ast.Try, ast.With, ast.For, ast.While)) and parent is None:
                for sub in ("body", "orelse", "finalbody"):
                    self._index_scope(m, getattr(n, sub, []) or [], prefix, cls, parent)
                for h in getattr(n, "handlers", []) or []:
                    self._index_scope(m, h.body, prefix, cls, parent)

    def _index_nested_in_stmts(self, m, body, prefix, parent):
        # defs nested inside if/for/with blocks of a function
        for n in body:
            if isinstance(n, (ast.If, ast.Try, ast.With, ast.For, ast.While)):
                for sub in ("body", "orelse", "finalbody"):
                    blk = getattr(n, sub, []) or []
                    self._index_scope(m, [x for x in blk if isinstance(x, (ast.FunctionDef, ast.ClassDef))],
                                      prefix, None, parent)
                    self._index_nested_in_stmts(m, blk, prefix, parent)

    # ---------------------------------------------------------------- look-ups
    def module(self, name) -> Module:
        if name not in self.modules:
            raise AnalysisError("anchor module %s not found" % name)
        return self.modules[name]

    def func(self, key) -> FuncInfo:
        if key not in self.functions:
            raise AnalysisError("anchor function %s not found" % key)
        return self.functions[key]

    def cls(self, key) -> ClassInfo:
        if key not in self.classes:
            raise AnalysisError("anchor class %s not found" % key)
        return self.classes[key]

    def has_func(self, key):
        return key in self.functions

    def subclasses(self, key, transitive=True):
        out, todo = [], list(self._subclasses.get(key, []))
        while todo:
            k = todo.pop(0)
            if k in out:
                continue
            out.append(k)
            if transitive:
                todo.extend(self._subclasses.get(k, []))
        return [self.classes[k] for k in out]

    def mro(self, ci: ClassInfo):
        # linearisation good enough for single inheritance + mixins as used here
        out, todo = [], [ci]
        while todo:
            c = todo.pop(0)
            if c in out:
                continue
            out.append(c)
            todo = [self.classes[b] for b in c.base_keys] + todo
        # C3 would put shared bases last; emulate by keeping last occurrence
        return out

    def lookup_method(self, ci: ClassInfo, name, skip_self=False, setter=False):
        for c in self.mro(ci)[1 if skip_self else 0:]:
            defs = c.methods.get(name)
            if defs:
                cands = [d for d in defs if d.is_setter() == setter]
                if cands:
                    return cands[-1]
        return None

    def methods_of(self, ci: ClassInfo, inherited=True):
        seen = {}
        for c in (self.mro(ci) if inherited else [ci]):
            for name, defs in c.methods.items():
                if name not in seen:
                    g = [d for d in defs if not d.is_setter()]
                    if g:
                        seen[name] = g[-1]
        return seen

    def resolve_dotted(self, dotted):
        """dotted pylife path -> function/class key or module name."""
        if dotted in self.modules:
            return dotted
        parts = dotted.split(".")
        for cut in range(len(parts) - 1, 0, -1):
            mod = ".".join(parts[:cut])
            if mod in self.modules:
                qn = ".".join(parts[cut:])
                key = mod + ":" + qn
                if key in self.functions or key in self.classes:
                    return key
                # re-export through __init__: follow the module's own imports
                m = self.modules[mod]
                head = parts[cut]
                if head in m.imports and m.imports[head] != dotted:
                    return self.resolve_dotted(".".join([m.imports[head]] + parts[cut + 1:]))
                return None
        return None

    def resolve_expr_to_key(self, m: Module, expr, scope: FuncInfo | None = None):
        """Resolve a Name / dotted Attribute expression in module scope."""
        chain = []
        e = expr
        while isinstance(e, ast.Attribute):
            chain.append(e.attr)
            e = e.value
        if not isinstance(e, ast.Name):
            return None
        chain.append(e.id)
        chain.reverse()
        head = chain[0]
        # nested function in enclosing scopes
        s = scope
        while s is not None:
            k = s.module.name + ":" + s.qualname + "." + head
            if len(chain) == 1 and k in self.functions:
                return k
            s = s.parent
        local = m.name + ":" + ".".join(chain)
        if local in self.functions or local in self.classes:
            return local
        if head in m.imports:
            return self.resolve_dotted(".".join([m.imports[head]] + chain[1:])) or \
                ".".join([m.imports[head]] + chain[1:])
        return None

    # ---------------------------------------------------------------- call resolution
    def resolve_call(self, fi: FuncInfo, call: ast.Call):
        """Return list of callee keys (functions; a class resolves to its
        __init__) or external dotted names as ``ext:numpy.asarray``."""
        f = call.func
        m = fi.module
        # self.method(...)
        if isinstance(f, ast.Attribute) and isinstance(f.value, ast.Name) and f.value.id in ("self", "cls"):
            ci = fi.cls or (fi.parent.cls if fi.parent else None)
            p = fi.parent
            while ci is None and p is not None:
                ci = p.cls
                p = p.parent
            if ci is not None:
                out = []
                d = self.lookup_method(ci, f.attr)
                if d:
                    out.append(d.key)
                for sc in self.subclasses(ci.key):
                    for dd in sc.methods.get(f.attr, []):
                        if not dd.is_setter() and dd.key not in out:
                            out.append(dd.key)
                if out:
                    return out
            return []
        # super().method(...)
        if isinstance(f, ast.Attribute) and isinstance(f.value, ast.Call) and \
                isinstance(f.value.func, ast.Name) and f.value.func.id == "super":
            ci = fi.cls
            if ci is not None:
                d = self.lookup_method(ci, f.attr, skip_self=True)
                if d:
                    return [d.key]
            return []
        k = self.resolve_expr_to_key(m, f, scope=fi)
        if k:
            if k in self.classes:
                init = self.lookup_method(self.classes[k], "__init__")
                return [init.key] if init else ["class:" + k]
            if k in self.functions:
                return [k]
            return ["ext:" + k]
        # x.<accessor>.method(...)
        if isinstance(f, ast.Attribute) and isinstance(f.value, ast.Attribute) and f.value.attr in self.accessors:
            out = []
            for ci in self.accessors[f.value.attr]:
                d = self.lookup_method(ci, f.attr)
                if d:
                    out.append(d.key)
            return out
        return []

    def calls_in(self, fi: FuncInfo, include_nested=False):
        out = []
        for n in walk_function(fi.node, include_nested):
            if isinstance(n, ast.Call):
                out.append(n)
        return out

    def stats(self):
        resolved = unresolved = 0
        for fi in self.functions.values():
            for c in self.calls_in(fi):
                if self.resolve_call(fi, c):
                    resolved += 1
                else:
                    unresolved += 1
        return {
            "modules": len(self.modules),
            "classes": len(self.classes),
            "functions": len(self.functions),
            "accessor_registrations": sum(len(v) for v in self.accessors.values()),
            "call_sites_resolved": resolved,
            "call_sites_unresolved": unresolved,
        }


def walk_function(fnode, include_nested=False):
    """ast.walk limited to one function body (nested defs/lambdas optional)."""
    todo = list(ast.iter_child_nodes(fnode))
    while todo:
        n = todo.pop(0)
        yield n
        if not include_nested and isinstance(n, (ast.FunctionDef, ast.AsyncFunctionDef, ast.ClassDef)):
            continue
        todo[0:0] = list(ast.iter_child_nodes(n))


def walk_stmts(body):
    """Yield statements in source order, descending into compound statements
    but not nested function/class definitions."""
    for s in body:
        yield s
        if isinstance(s, (ast.FunctionDef, ast.AsyncFunctionDef, ast.ClassDef)):
            continue
        for sub in ("body", "orelse", "finalbody"):
            blk = getattr(s, sub, None)
            if blk:
                yield from walk_stmts(blk)
        for h in getattr(s, "handlers", []) or []:
            yield from walk_stmts(h.body)
