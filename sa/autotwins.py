"""Automatic behaviour-preserving transformations of a source file (design §11.4, "refactoring fuzzer").

Each function below takes the parsed module (parents set) and rewrites *every* site of one kind of value-neutral refactoring
in it; it returns the number of sites rewritten.  The rewritten file is a twin: every rule must stay silent on it (an
undecided analysis is tolerated and listed).  The transformations are semantics preserving by construction - they do not rely
on knowing what the code computes:

  temps_in       `return E` -> `t = E; return t`;  `x.a = E` / `x[i] = E` -> `t = E; x.a = t`   (E is evaluated first anyway)
  temps_out      `t = E` directly followed by the only use of `t`, E free of calls -> E substituted
  flip_if        `if c: A else: B` -> `if not (c): B else: A`
  flip_cmp       `a < b` -> `b > a` (operands free of calls other than len/abs/...: evaluation order is immaterial)
  early_return   `if c: ...; return X` followed by the rest of the block  ->  `if c: ...; return X  else: rest`
  guard_clause   `if c: A(ending in return/raise) else: B`  ->  `if c: A` followed by B
  split_and      `if a and b: X` (no else) -> `if a: if b: X`
  hoist_literal  literal list/tuple of constants used as `in` comparator / loop iterable -> module-level tuple/list name
  rename_private consistent renaming of every private method and attribute (`_x`, not dunder) defined in the file, in the
                 whole program (multi-file)
"""
from __future__ import annotations

import ast

PURE_CALLS = {"len", "abs", "np.abs", "np.fabs", "min", "max", "float", "int", "np.asarray"}


def _functions(tree):
    return [n for n in ast.walk(tree) if isinstance(n, (ast.FunctionDef, ast.AsyncFunctionDef))]


def _blocks(fn):
    """every statement list inside the function (not inside nested functions/classes)"""
    out = []

    def rec(stmts):
        out.append(stmts)
        for st in stmts:
            if isinstance(st, (ast.FunctionDef, ast.AsyncFunctionDef, ast.ClassDef)):
                continue
            for fld in ("body", "orelse", "finalbody"):
                b = getattr(st, fld, None)
                if isinstance(b, list) and b and isinstance(b[0], ast.stmt):
                    rec(b)
            if isinstance(st, ast.Try):
                for h in st.handlers:
                    rec(h.body)
    rec(fn.body)
    return out


def _call_name(c):
    f = c.func
    parts = []
    while isinstance(f, ast.Attribute):
        parts.append(f.attr)
        f = f.value
    if isinstance(f, ast.Name):
        parts.append(f.id)
        return ".".join(reversed(parts))
    return None


def _trivial(e):
    return isinstance(e, (ast.Name, ast.Constant)) or e is None


def temps_in(tree):
    n = 0
    for fn in _functions(tree):
        k = 0
        for block in _blocks(fn):
            i = 0
            while i < len(block):
                st = block[i]
                new = None
                if isinstance(st, ast.Return) and not _trivial(st.value) and not isinstance(st.value, (ast.Yield, ast.YieldFrom, ast.Await)):
                    k += 1
                    name = "auto_ret_%d" % k
                    new = [ast.Assign(targets=[ast.Name(id=name, ctx=ast.Store())], value=st.value),
                           ast.Return(value=ast.Name(id=name, ctx=ast.Load()))]
                elif isinstance(st, ast.Assign) and len(st.targets) == 1 and isinstance(st.targets[0], (ast.Attribute, ast.Subscript)) \
                        and not _trivial(st.value) and not isinstance(st.value, (ast.Yield, ast.YieldFrom, ast.Await)):
                    k += 1
                    name = "auto_val_%d" % k
                    new = [ast.Assign(targets=[ast.Name(id=name, ctx=ast.Store())], value=st.value),
                           ast.Assign(targets=st.targets, value=ast.Name(id=name, ctx=ast.Load()))]
                if new is not None:
                    for x in new:
                        ast.copy_location(x, st)
                    block[i:i + 1] = new
                    i += 2
                    n += 1
                else:
                    i += 1
    return n


def _stores_and_loads(fn, name):
    st = ld = 0
    for x in ast.walk(fn):
        if isinstance(x, ast.Name) and x.id == name:
            if isinstance(x.ctx, ast.Load):
                ld += 1
            else:
                st += 1
    return st, ld


def temps_out(tree):
    n = 0
    for fn in _functions(tree):
        nested = [x for x in ast.walk(fn) if isinstance(x, (ast.FunctionDef, ast.Lambda, ast.ListComp, ast.GeneratorExp, ast.DictComp,
                                                             ast.SetComp)) and x is not fn]
        nested_names = {y.id for x in nested for y in ast.walk(x) if isinstance(y, ast.Name)}
        params = {a.arg for a in fn.args.args + fn.args.kwonlyargs + fn.args.posonlyargs}
        for block in _blocks(fn):
            i = 0
            while i + 1 < len(block):
                st, nxt = block[i], block[i + 1]
                ok = isinstance(st, ast.Assign) and len(st.targets) == 1 and isinstance(st.targets[0], ast.Name) and \
                    not any(isinstance(x, (ast.Call, ast.Yield, ast.YieldFrom, ast.Await, ast.NamedExpr, ast.Lambda))
                            for x in ast.walk(st.value)) and not isinstance(st.value, (ast.Constant,))
                if ok:
                    name = st.targets[0].id
                    s_, l_ = _stores_and_loads(fn, name)
                    uses = [x for x in ast.walk(nxt) if isinstance(x, ast.Name) and x.id == name and isinstance(x.ctx, ast.Load)]
                    simple_next = isinstance(nxt, (ast.Assign, ast.Return, ast.Expr, ast.AugAssign)) and not any(
                        isinstance(x, (ast.Lambda, ast.ListComp, ast.GeneratorExp, ast.DictComp, ast.SetComp, ast.BoolOp, ast.IfExp))
                        for x in ast.walk(nxt))
                    # names of E must not be stored by the next statement before the use (augmented / tuple targets)
                    e_names = {x.id for x in ast.walk(st.value) if isinstance(x, ast.Name)}
                    nxt_stores = {x.id for x in ast.walk(nxt) if isinstance(x, ast.Name) and isinstance(x.ctx, ast.Store)}
                    if s_ == 1 and l_ == 1 and len(uses) == 1 and simple_next and name not in nested_names and name not in params \
                            and not (e_names & nxt_stores and isinstance(nxt, ast.AugAssign)):
                        use = uses[0]
                        par = getattr(use, "_parent", None)
                        for fld, val in ast.iter_fields(par) if par is not None else []:
                            if val is use:
                                setattr(par, fld, st.value)
                                break
                            if isinstance(val, list) and any(v is use for v in val):
                                val[[v is use for v in val].index(True)] = st.value
                                break
                        else:
                            i += 1
                            continue
                        del block[i]
                        from .frontend import set_parents
                        set_parents(nxt)
                        nxt._parent = getattr(st, "_parent", None)
                        n += 1
                        continue
                i += 1
    return n


def flip_if(tree):
    n = 0
    for x in ast.walk(tree):
        if isinstance(x, ast.If) and x.body and x.orelse:
            x.test = ast.UnaryOp(op=ast.Not(), operand=x.test)
            x.body, x.orelse = x.orelse, x.body
            n += 1
    return n


def _order_free(e):
    for x in ast.walk(e):
        if isinstance(x, ast.Call) and _call_name(x) not in PURE_CALLS:
            return False
        if isinstance(x, (ast.Yield, ast.YieldFrom, ast.Await, ast.NamedExpr)):
            return False
    return True


def flip_cmp(tree):
    n = 0
    swap = {ast.Lt: ast.Gt, ast.Gt: ast.Lt, ast.LtE: ast.GtE, ast.GtE: ast.LtE}
    for x in ast.walk(tree):
        if isinstance(x, ast.Compare) and len(x.ops) == 1 and type(x.ops[0]) in swap and _order_free(x.left) and \
                _order_free(x.comparators[0]):
            x.left, x.comparators[0] = x.comparators[0], x.left
            x.ops[0] = swap[type(x.ops[0])]()
            n += 1
    return n


def _ends(block):
    return bool(block) and isinstance(block[-1], (ast.Return, ast.Raise, ast.Continue, ast.Break))


def early_return(tree):
    """if c: ...return  <rest>   ->   if c: ...return  else: <rest>"""
    n = 0
    for fn in _functions(tree):
        for block in _blocks(fn):
            for i, st in enumerate(block):
                if isinstance(st, ast.If) and not st.orelse and _ends(st.body) and i + 1 < len(block) and \
                        not any(isinstance(x, (ast.FunctionDef, ast.ClassDef)) for x in block[i + 1:]):
                    st.orelse = block[i + 1:]
                    del block[i + 1:]
                    n += 1
                    break
    return n


def guard_clause(tree):
    """if c: A(ends) else: B   ->   if c: A ; B"""
    n = 0
    for fn in _functions(tree):
        for block in _blocks(fn):
            for i, st in enumerate(block):
                if isinstance(st, ast.If) and st.orelse and _ends(st.body):
                    rest = st.orelse
                    st.orelse = []
                    block[i + 1:i + 1] = rest
                    n += 1
                    break
    return n


def split_and(tree):
    n = 0
    for x in ast.walk(tree):
        if isinstance(x, ast.If) and not x.orelse and isinstance(x.test, ast.BoolOp) and isinstance(x.test.op, ast.And) and \
                len(x.test.values) == 2:
            a, b = x.test.values
            inner = ast.If(test=b, body=x.body, orelse=[])
            ast.copy_location(inner, x)
            x.test = a
            x.body = [inner]
            n += 1
    return n


def hoist_literal(tree):
    n = 0
    new_defs = []
    for fn in [f for f in _functions(tree)]:
        for x in ast.walk(fn):
            cands = []
            if isinstance(x, ast.Compare) and len(x.ops) == 1 and isinstance(x.ops[0], (ast.In, ast.NotIn)):
                cands.append(("comparators", 0, x.comparators[0]))
            if isinstance(x, ast.For):
                cands.append(("iter", None, x.iter))
            if isinstance(x, ast.Call) and _call_name(x) == "enumerate" and x.args:
                cands.append(("args", 0, x.args[0]))
            for fld, idx, lit in cands:
                if isinstance(lit, (ast.List, ast.Tuple)) and len(lit.elts) >= 2 and all(
                        isinstance(e, ast.Constant) or (isinstance(e, ast.Tuple) and all(isinstance(c, ast.Constant) for c in e.elts))
                        for e in lit.elts):
                    n += 1
                    name = "_AUTO_LITERAL_%d" % n
                    new_defs.append(ast.Assign(targets=[ast.Name(id=name, ctx=ast.Store())], value=lit, lineno=1, col_offset=0))
                    ref = ast.Name(id=name, ctx=ast.Load())
                    if idx is None:
                        setattr(x, fld, ref)
                    else:
                        getattr(x, fld)[idx] = ref
    if new_defs:
        # behind the imports / module docstring
        pos = 0
        for i, st in enumerate(tree.body):
            if isinstance(st, (ast.Import, ast.ImportFrom)) or (isinstance(st, ast.Expr) and isinstance(st.value, ast.Constant)) or \
                    (isinstance(st, ast.Assign) and isinstance(st.targets[0], ast.Name) and st.targets[0].id.startswith("__")):
                pos = i + 1
        tree.body[pos:pos] = new_defs
    return n


TRANSFORMS = [("temporaries introduced", temps_in), ("temporaries removed", temps_out), ("if/else flipped", flip_if),
              ("comparisons turned round", flip_cmp), ("early return -> else", early_return), ("else -> guard clause", guard_clause),
              ("conjunction split", split_and), ("literal tables hoisted", hoist_literal)]


def private_names_of(tree):
    """private methods and attributes defined in this file (method definitions in classes, `self._x = ...` stores)"""
    names = set()
    for c in ast.walk(tree):
        if isinstance(c, ast.ClassDef):
            for st in c.body:
                if isinstance(st, (ast.FunctionDef, ast.AsyncFunctionDef)) and st.name.startswith("_") and not st.name.startswith("__"):
                    names.add(st.name)
            for x in ast.walk(c):
                if isinstance(x, ast.Attribute) and isinstance(x.ctx, ast.Store) and isinstance(x.value, ast.Name) and \
                        x.value.id == "self" and x.attr.startswith("_") and not x.attr.startswith("__"):
                    names.add(x.attr)
    return names


def rename_private_everywhere(prog, path):
    """overrides (path -> source) renaming the private members defined in `path` consistently in every module of the program;
    None when a name is also used as a string (getattr / hasattr / column name) somewhere, which a renaming would miss"""
    import warnings
    mod = next((m for m in prog.modules.values() if m.path == path), None)
    if mod is None:
        return None
    with warnings.catch_warnings():
        warnings.simplefilter("ignore")
        names = private_names_of(ast.parse(mod.pysource))
    if not names:
        return None
    strings = set()
    for m in prog.modules.values():
        for x in ast.walk(m.tree):
            if isinstance(x, ast.Constant) and isinstance(x.value, str):
                strings.add(x.value)
    names = {n for n in names if n not in strings}
    # names that another file defines too (a base class's protected attribute, e.g. `_obj`) are that file's to rename
    for m in prog.modules.values():
        if m.path != path and m.path.endswith(".py"):
            with warnings.catch_warnings():
                warnings.simplefilter("ignore")
                names -= private_names_of(m.tree)
    # a private name that is also a public-looking keyword or a module-level function stays
    out = {}
    for m in prog.modules.values():
        if not m.path.endswith(".py"):
            if any(isinstance(x, ast.Attribute) and x.attr in names for x in ast.walk(m.tree)):
                names -= {x.attr for x in ast.walk(m.tree) if isinstance(x, ast.Attribute)}
    if not names:
        return None
    for m in prog.modules.values():
        if not m.path.endswith(".py"):
            continue
        with warnings.catch_warnings():
            warnings.simplefilter("ignore")
            t = ast.parse(m.pysource)
        hit = 0
        for x in ast.walk(t):
            if isinstance(x, ast.Attribute) and x.attr in names:
                x.attr = x.attr + "_rnp"
                hit += 1
            elif isinstance(x, (ast.FunctionDef, ast.AsyncFunctionDef)) and x.name in names:
                # only methods (functions directly in a class body) are renamed; the walk cannot tell, so check the parent below
                pass
        for c in ast.walk(t):
            if isinstance(c, ast.ClassDef):
                for st in c.body:
                    if isinstance(st, (ast.FunctionDef, ast.AsyncFunctionDef)) and st.name in names:
                        st.name = st.name + "_rnp"
                        hit += 1
        if hit:
            out[m.path] = ast.unparse(t)
    return out or None
