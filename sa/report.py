"""Run context, findings, evidence and known-findings handling (design §2.8)."""
from __future__ import annotations

import ast
import hashlib
import json
import os
import re
import time

from . import VERIF
from .frontend import AnalysisError, FuncInfo

KNOWN_FINDINGS = os.path.join(VERIF, "known_findings.json")


def norm_text(node_or_text):
    """Normalised statement text: ast.unparse output with whitespace collapsed."""
    if isinstance(node_or_text, ast.AST):
        try:
            t = ast.unparse(node_or_text)
        except Exception:  # pragma: no cover
            t = ast.dump(node_or_text)
    else:
        t = str(node_or_text)
    return re.sub(r"\s+", " ", t).strip()


class Finding:
    def __init__(self, prop, rule, construct, site, text, message, detail=None):
        self.prop = prop
        self.rule = rule
        self.construct = construct     # module:qualname
        self.site = site               # file:line
        self.text = text               # normalised statement text
        self.message = message
        self.detail = detail or {}

    def key(self):
        return (self.prop, self.rule, self.construct, self.text)

    def as_dict(self):
        return {"property": self.prop, "rule": self.rule, "construct": self.construct,
                "site": self.site, "statement": self.text, "message": self.message,
                "detail": self.detail}


class Ctx:
    """Collects instances and findings of one property run on one Program."""

    def __init__(self, prop, prog, tier="quick", seed=0):
        self.prop = prop
        self.prog = prog
        self.tier = tier
        self.seed = seed
        self.instances = []      # dicts
        self.findings = []       # Finding
        self.notes = []
        self.rule_counts = {}
        self.floors = {}
        self._rule = None
        self.inconclusive_rules = []

    # -- called by rules
    def rule(self, rule_id, floor=0, what=""):
        self._rule = rule_id
        self.rule_counts.setdefault(rule_id, 0)
        self.floors[rule_id] = (floor, what)

    def _site(self, fi, node):
        if isinstance(fi, FuncInfo):
            return fi.key, fi.loc(node)
        return str(fi), ""

    def holds(self, fi, node, what, facts=None, rule=None):
        construct, site = self._site(fi, node)
        r = rule or self._rule
        self.rule_counts[r] = self.rule_counts.get(r, 0) + 1
        self.instances.append({"rule": r, "construct": construct, "site": site,
                               "verdict": "holds", "what": what, "facts": facts or {}})

    def violated(self, fi, node, message, detail=None, rule=None, text=None):
        construct, site = self._site(fi, node)
        r = rule or self._rule
        self.rule_counts[r] = self.rule_counts.get(r, 0) + 1
        t = text if text is not None else (norm_text(node) if node is not None else "")
        if len(t) > 300:
            t = t[:300]
        f = Finding(self.prop, r, construct, site, t, message, detail)
        self.findings.append(f)
        self.instances.append({"rule": r, "construct": construct, "site": site,
                               "verdict": "violated", "what": message, "facts": detail or {}})

    def attempt(self, fn, *args):
        """Run one rule; an AnalysisError makes that rule inconclusive, the others still run."""
        try:
            fn(self, *args)
        except AnalysisError as e:
            self.inconclusive_rules.append(str(e))
        except Exception as e:          # a rule that cannot cope with the shape of the code is undecided, never a verdict
            import traceback
            tb = traceback.extract_tb(e.__traceback__)[-1]
            self.inconclusive_rules.append("checker exception in %s (%s:%d): %s: %s" % (
                getattr(fn, "__name__", "rule"), tb.filename.split("/")[-1], tb.lineno, type(e).__name__, e))

    def note(self, text):
        self.notes.append(text)

    def check_floors(self):
        # The declared floor is the instance count confirmed by reading when the rule was frozen.  Many instances are copies
        # of one another (two classes, two branches, two layouts); a refactoring that merges the copies lowers the count without
        # making the rule vacuous, so the enforced minimum is half the declared count (design section 11.4).  What the floor is
        # for - a rule that silently matches nothing - is still caught, and an anchor that vanishes raises on its own.
        for r, (floor, what) in self.floors.items():
            need = floor if floor < 4 else (floor + 1) // 2
            if self.rule_counts.get(r, 0) < need:
                raise AnalysisError("rule %s matched %d instances, minimum is %d (confirmed count %d: %s)" %
                                    (r, self.rule_counts.get(r, 0), need, floor, what))


def load_known():
    if not os.path.exists(KNOWN_FINDINGS):
        return []
    with open(KNOWN_FINDINGS) as f:
        return json.load(f).get("findings", [])


def split_known(prop, findings):
    """-> (known_open [Finding], new [Finding])"""
    known = [k for k in load_known() if k.get("property") == prop and k.get("status") == "open"]
    ko, new = [], []
    for f in findings:
        hit = None
        for k in known:
            if k.get("rule") == f.rule and k.get("construct") == f.construct and \
                    norm_text(k.get("statement", "")) == f.text:
                hit = k
                break
        (ko if hit else new).append(f)
    return ko, new


def write_replay(f: Finding):
    d = os.path.join(VERIF, "replays")
    os.makedirs(d, exist_ok=True)
    h = hashlib.sha256(repr(f.key()).encode()).hexdigest()[:12]
    path = os.path.join(d, "%s-%s-%s.json" % (f.prop, f.rule, h))
    with open(path, "w") as fh:
        json.dump(f.as_dict(), fh, indent=1, sort_keys=True)
    return path


def write_evidence(prop, tier, seed, level, coverage, assumptions, wall_s, violations):
    d = os.path.join(VERIF, "evidence")
    os.makedirs(d, exist_ok=True)
    ev = {"property_id": prop, "tier": tier, "seed": int(seed), "level": level,
          "coverage": coverage, "assumptions": assumptions, "wall_s": round(wall_s, 3),
          "violations": int(violations)}
    tmp = os.path.join(d, prop + ".json.tmp")
    with open(tmp, "w") as fh:
        json.dump(ev, fh, indent=1, sort_keys=True, default=str)
    os.replace(tmp, os.path.join(d, prop + ".json"))
    return ev
