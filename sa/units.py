"""Powers with a material exponent are taken of dimensionless quantities (shared by C08 / C16).

`(S / SD) ** -k`, `(N / ND) ** (-1 / k)`, `(sigma / K) ** (1 / n)`: the slope / hardening exponents are large (k up to 40, 1/n up to
40), so a power of a quantity that carries a unit - `SD ** k` with SD in Pa, `K ** (1 / n)` - leaves the range of float64 for
ordinary data although the algebraically identical expression in ratios does not; the result then depends on the unit system.
`dimensionful_power_bases(fn, dimensionful)` lists the powers whose exponent is not a literal and whose base is one of the named
quantities that carry a unit (public attribute / parameter names), not divided by anything."""
from __future__ import annotations

import ast

from .astutil import call_name, inline_single_defs
from .report import norm_text

POWER_CALLS = ("np.power", "numpy.power", "pow", "math.pow", "np.float_power")
NEUTRAL = ("np.abs", "abs", "np.fabs", "np.asarray", "float", "np.array", "np.absolute")


def _literal(e):
    return all(isinstance(x, (ast.Constant, ast.UnaryOp, ast.BinOp, ast.operator, ast.unaryop, ast.expr_context)) for x in ast.walk(e))


def _dimensionful(fn_node, b, names, depth=0):
    """the base is one of the named quantities that carry a unit (or a product with one), not divided by anything"""
    while isinstance(b, ast.Call) and (call_name(b) or "") in NEUTRAL and b.args:
        b = b.args[0]
    if isinstance(b, ast.Subscript):
        return _dimensionful(fn_node, b.value, names, depth)
    if isinstance(b, ast.Attribute):
        return b.attr.lstrip("_") in names
    if isinstance(b, ast.Name):
        if depth < 3:
            d = inline_single_defs(fn_node, b, depth=1)
            if d is not b and not (isinstance(d, ast.Name) and d.id == b.id):
                return _dimensionful(fn_node, d, names, depth + 1)
        return b.id.lstrip("_") in names
    if isinstance(b, ast.BinOp) and isinstance(b.op, ast.Mult):
        return _dimensionful(fn_node, b.left, names, depth) or _dimensionful(fn_node, b.right, names, depth)
    if isinstance(b, ast.UnaryOp):
        return _dimensionful(fn_node, b.operand, names, depth)
    return False            # quotients, sums, calls, constants: not decided here


def dimensionful_power_bases(fn_node, dimensionful=()):
    """[(node, base text, exponent text)]: powers with a non-literal exponent whose base is one of the named unit-carrying
    quantities (attribute / parameter names; locals are followed to their single definition)"""
    out = []
    names = {n.lstrip("_") for n in dimensionful}
    for n in ast.walk(fn_node):
        base = expo = None
        if isinstance(n, ast.BinOp) and isinstance(n.op, ast.Pow):
            base, expo = n.left, n.right
        elif isinstance(n, ast.Call) and (call_name(n) or "") in POWER_CALLS and len(n.args) == 2:
            base, expo = n.args
        if base is None or _literal(expo):
            continue
        if _dimensionful(fn_node, base, names):
            out.append((n, norm_text(base)[:50], norm_text(expo)[:40]))
    return out


def selfcheck():
    from .frontend import set_parents
    ex = set_parents(ast.parse("def f(SD, ND, N, k, S, TN, K, n, stress):\n    a = SD * np.power(N / ND, -1.0 / k)\n    c = ND * np.power(SD, k)\n"
                               "    r = stress / K\n    return np.power(c / N, 1.0 / k), TN ** (1.0 / k), np.power(r, 1 / n), K ** (1 / n), S ** 2\n")).body[0]
    return [b for _, b, _ in dimensionful_power_bases(ex, ("SD", "ND", "K", "S", "N", "stress"))] == ["SD", "K"]
